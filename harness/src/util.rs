//! Shared helpers: deterministic RNG, abstract-term JSON codec (strings as code-point arrays), trace writer.
use serde_json::{Value, json};
use sophia_api::term::{BnodeId, GraphName, IriRef, LanguageTag, SimpleTerm, Term, TermKind, VarName};
use std::io::Write;

pub type ST = SimpleTerm<'static>;

/// splitmix64
#[derive(Clone)]
pub struct Rng(pub u64);
impl Rng {
    pub fn new(seed: u64) -> Self {
        Rng(seed.wrapping_mul(0x9E3779B97F4A7C15) ^ 0xD1B54A32D192ED03)
    }
    pub fn next(&mut self) -> u64 {
        self.0 = self.0.wrapping_add(0x9E3779B97F4A7C15);
        let mut z = self.0;
        z = (z ^ (z >> 30)).wrapping_mul(0xBF58476D1CE4E5B9);
        z = (z ^ (z >> 27)).wrapping_mul(0x94D049BB133111EB);
        z ^ (z >> 31)
    }
    pub fn below(&mut self, n: usize) -> usize {
        if n == 0 { 0 } else { (self.next() % (n as u64)) as usize }
    }
    pub fn chance(&mut self, num: usize, den: usize) -> bool {
        self.below(den) < num
    }
    pub fn pick<'a, T>(&mut self, xs: &'a [T]) -> &'a T {
        &xs[self.below(xs.len())]
    }
    pub fn shuffle<T>(&mut self, xs: &mut [T]) {
        for i in (1..xs.len()).rev() {
            let j = self.below(i + 1);
            xs.swap(i, j);
        }
    }
}

pub fn cps(s: &str) -> Value {
    Value::Array(s.chars().map(|c| json!(c as u32)).collect())
}
pub fn bytes_json(b: &[u8]) -> Value {
    Value::Array(b.iter().map(|c| json!(*c as u32)).collect())
}
pub fn from_cps(v: &Value) -> String {
    v.as_array()
        .map(|a| a.iter().map(|x| char::from_u32(x.as_u64().unwrap() as u32).unwrap()).collect())
        .unwrap_or_default()
}

pub fn kind_str(k: TermKind) -> &'static str {
    match k {
        TermKind::Iri => "iri",
        TermKind::BlankNode => "bnode",
        TermKind::Literal => "lit",
        TermKind::Triple => "triple",
        TermKind::Variable => "var",
    }
}

/// Abstraction function: any Term -> the abstract term record of the specification.
pub fn term_json<T: Term>(t: T) -> Value {
    match t.kind() {
        TermKind::Iri => json!({"k":"iri","v":cps(&t.iri().unwrap())}),
        TermKind::BlankNode => json!({"k":"bnode","v":cps(&t.bnode_id().unwrap())}),
        TermKind::Variable => json!({"k":"var","v":cps(&t.variable().unwrap())}),
        TermKind::Literal => {
            let lex = t.lexical_form().unwrap();
            match t.language_tag() {
                Some(tag) => json!({"k":"lit","lex":cps(&lex),"dt":[],"lang":cps(&tag)}),
                None => json!({"k":"lit","lex":cps(&lex),"dt":cps(&t.datatype().unwrap()),"lang":[]}),
            }
        }
        TermKind::Triple => {
            let [s, p, o] = t.triple().unwrap();
            json!({"k":"triple","s":term_json(s),"p":term_json(p),"o":term_json(o)})
        }
    }
}
pub fn dg() -> Value {
    json!({"k":"dg"})
}
pub fn gn_json<T: Term>(g: GraphName<T>) -> Value {
    match g {
        None => dg(),
        Some(t) => term_json(t),
    }
}
pub fn quad_json<S: Term, P: Term, O: Term, G: Term>(s: S, p: P, o: O, g: GraphName<G>) -> Value {
    json!([term_json(s), term_json(p), term_json(o), gn_json(g)])
}

/// Concretisation: abstract term record -> SimpleTerm (unchecked constructors: the spec decides what is fed).
pub fn json_term(v: &Value) -> ST {
    match v["k"].as_str().unwrap() {
        "iri" => SimpleTerm::Iri(IriRef::new_unchecked(from_cps(&v["v"]).into())),
        "bnode" => SimpleTerm::BlankNode(BnodeId::new_unchecked(from_cps(&v["v"]).into())),
        "var" => SimpleTerm::Variable(VarName::new_unchecked(from_cps(&v["v"]).into())),
        "lit" => {
            let lang = from_cps(&v["lang"]);
            if lang.is_empty() {
                SimpleTerm::LiteralDatatype(
                    from_cps(&v["lex"]).into(),
                    IriRef::new_unchecked(from_cps(&v["dt"]).into()),
                )
            } else {
                SimpleTerm::LiteralLanguage(from_cps(&v["lex"]).into(), LanguageTag::new_unchecked(lang.into()))
            }
        }
        "triple" => SimpleTerm::Triple(Box::new([json_term(&v["s"]), json_term(&v["p"]), json_term(&v["o"])])),
        k => panic!("json_term: kind {k}"),
    }
}
pub fn json_gn(v: &Value) -> GraphName<ST> {
    if v["k"] == "dg" { None } else { Some(json_term(v)) }
}

pub fn iri(s: &str) -> ST {
    SimpleTerm::Iri(IriRef::new_unchecked(s.to_string().into()))
}
pub fn bn(s: &str) -> ST {
    SimpleTerm::BlankNode(BnodeId::new_unchecked(s.to_string().into()))
}
pub fn var(s: &str) -> ST {
    SimpleTerm::Variable(VarName::new_unchecked(s.to_string().into()))
}
pub fn lit_dt(lex: &str, dt: &str) -> ST {
    SimpleTerm::LiteralDatatype(lex.to_string().into(), IriRef::new_unchecked(dt.to_string().into()))
}
pub fn lit_lang(lex: &str, tag: &str) -> ST {
    SimpleTerm::LiteralLanguage(lex.to_string().into(), LanguageTag::new_unchecked(tag.to_string().into()))
}
pub fn quoted(s: ST, p: ST, o: ST) -> ST {
    SimpleTerm::Triple(Box::new([s, p, o]))
}
pub const XSD: &str = "http://www.w3.org/2001/XMLSchema#";
pub const RDF: &str = "http://www.w3.org/1999/02/22-rdf-syntax-ns#";

/// ndjson trace writer
pub struct Trace {
    w: std::io::BufWriter<std::fs::File>,
    pub n: usize,
}
impl Trace {
    pub fn create(path: &str) -> Self {
        if let Some(p) = std::path::Path::new(path).parent() {
            std::fs::create_dir_all(p).ok();
        }
        Trace { w: std::io::BufWriter::new(std::fs::File::create(path).expect("create trace")), n: 0 }
    }
    pub fn emit(&mut self, v: Value) {
        // (strings read out of freed memory by a broken build are not valid UTF-8: the trace must stay a valid text file)
        let bytes = serde_json::to_vec(&v).unwrap();
        self.w.write_all(String::from_utf8_lossy(&bytes).as_bytes()).unwrap();
        self.w.write_all(b"\n").unwrap();
        self.n += 1;
        if self.n % 64 == 0 {
            self.w.flush().unwrap(); // a crash of the code under test must not lose the trace
        }
    }
    pub fn finish(mut self) -> usize {
        self.w.flush().unwrap();
        self.n
    }
}

/// sort JSON rows by their serialisation: deterministic order for unordered API results
pub fn sorted(mut rows: Vec<Value>) -> Value {
    rows.sort_by_cached_key(|v| v.to_string());
    Value::Array(rows)
}

pub fn arg<'a>(args: &'a [String], name: &str) -> Option<&'a str> {
    args.iter().position(|a| a == name).and_then(|i| args.get(i + 1)).map(|s| s.as_str())
}
pub fn arg_u64(args: &[String], name: &str, default: u64) -> u64 {
    arg(args, name).and_then(|s| s.parse().ok()).unwrap_or(default)
}

/// Run `f`; a panic of the code under test is data: returns Err(message).
pub fn guarded<R>(f: impl FnOnce() -> R) -> Result<R, String> {
    match std::panic::catch_unwind(std::panic::AssertUnwindSafe(f)) {
        Ok(r) => Ok(r),
        Err(p) => {
            let msg = if let Some(s) = p.downcast_ref::<&str>() {
                s.to_string()
            } else if let Some(s) = p.downcast_ref::<String>() {
                s.clone()
            } else {
                "panic".to_string()
            };
            Err(msg)
        }
    }
}
/// silence the default panic printer (messages are recorded in the trace instead)
pub fn quiet_panics() {
    std::panic::set_hook(Box::new(|_| {}));
}
