//! C11 driver: mutation histories applied alternately through the store and through views
//! (graph / graph_mut / union_graph / partial_union_graph / into_union_graph; as_dataset / as_dataset_mut / into_dataset).
use crate::matchers::*;
use crate::store::*;
use crate::util::*;
use serde_json::{Value, json};
use sophia_api::dataset::{Dataset, MutableDataset};
use sophia_api::graph::{Graph, MutableGraph};
use sophia_api::quad::{Gspo, Quad, Spog};
use sophia_api::term::GraphName;
use sophia_api::triple::Triple;
use std::collections::{BTreeSet, HashSet};

fn tj3<T: Triple>(t: T) -> Value {
    json!([term_json(t.s()), term_json(t.p()), term_json(t.o())])
}
fn ok_or_err<T: Into<Value>, E: std::fmt::Display>(r: Result<T, E>) -> Value {
    match r {
        Ok(x) => json!({"ok": x.into()}),
        Err(e) => json!({"err": e.to_string()}),
    }
}
fn rand_q(rng: &mut Rng, terms: &[ST], gnames: &[GraphName<ST>]) -> Q {
    ([rng.pick(terms).clone(), rng.pick(terms).clone(), rng.pick(terms).clone()], rng.pick(gnames).clone())
}
fn quads_of<D: Dataset>(d: &D) -> Value {
    sorted(d.quads().map(|q| q.unwrap()).map(|q| quad_json(q.s(), q.p(), q.o(), q.g())).collect())
}
fn terms_of_graph<G: Graph>(g: &G, which: &str) -> Vec<Value> {
    match which {
        "subjects" => g.subjects().map(|t| term_json(t.unwrap())).collect(),
        "predicates" => g.predicates().map(|t| term_json(t.unwrap())).collect(),
        "objects" => g.objects().map(|t| term_json(t.unwrap())).collect(),
        "iris" => g.iris().map(|t| term_json(t.unwrap())).collect(),
        "blank_nodes" => g.blank_nodes().map(|t| term_json(t.unwrap())).collect(),
        "literals" => g.literals().map(|t| term_json(t.unwrap())).collect(),
        "variables" => g.variables().map(|t| term_json(t.unwrap())).collect(),
        _ => vec![],
    }
}
const GWHICH: [&str; 7] = ["subjects", "predicates", "objects", "iris", "blank_nodes", "literals", "variables"];

/// dataset -> graph views on a concrete dataset type
macro_rules! dataset_views {
    ($fname:ident, $ty:ty, $name:expr, $isset:expr, $clone:expr) => {
        pub fn $fname(rng: &mut Rng, tr: &mut Trace, nhist: usize, len: usize) {
            for _ in 0..nhist {
                let mut terms = alphabet();
                rng.shuffle(&mut terms);
                terms.truncate(3 + rng.below(5));
                // graph names: default, two present-able names (an IRI or bnode or anything), one never inserted
                let absent: GraphName<ST> = Some(iri("http://ex/absent"));
                let mut gnames: Vec<GraphName<ST>> = vec![None, Some(rng.pick(&terms).clone()), Some(bn("g"))];
                let mut d: $ty = Default::default();
                tr.emit(json!({"ev":"Reset","impl":$name,"isset":$isset,"graph":false,"cap":0,"rows":[]}));
                let r = guarded(|| {
                    for _ in 0..len {
                        let k = rng.below(100);
                        if k < 15 {
                            let q = rand_q(rng, &terms, &gnames);
                            let r = MutableDataset::insert(&mut d, &q.0[0], &q.0[1], &q.0[2], q.1.as_ref());
                            tr.emit(json!({"ev":"Insert","via":"direct","q":q_json(&q),"res":ok_or_err(r),"rows":quads_of(&d)}));
                        } else if k < 25 {
                            let q = rand_q(rng, &terms, &gnames);
                            let r = MutableDataset::remove(&mut d, &q.0[0], &q.0[1], &q.0[2], q.1.as_ref());
                            tr.emit(json!({"ev":"Remove","via":"direct","q":q_json(&q),"res":ok_or_err(r),"rows":quads_of(&d)}));
                        } else if k < 40 {
                            let q = rand_q(rng, &terms, &gnames);
                            let r = d.graph_mut(q.1.clone()).insert(&q.0[0], &q.0[1], &q.0[2]);
                            tr.emit(json!({"ev":"Insert","via":"graph_mut","q":q_json(&q),"res":ok_or_err(r),"rows":quads_of(&d)}));
                        } else if k < 50 {
                            let q = rand_q(rng, &terms, &gnames);
                            let r = d.graph_mut(q.1.clone()).remove(&q.0[0], &q.0[1], &q.0[2]);
                            tr.emit(json!({"ev":"Remove","via":"graph_mut","q":q_json(&q),"res":ok_or_err(r),"rows":quads_of(&d)}));
                        } else if k < 53 {
                            // pattern removal through a mutable view: touches that graph only
                            let g = rng.pick(&gnames).clone();
                            let ms = [TM::random(rng, &terms, 0), TM::random(rng, &terms, 0), TM::random(rng, &terms, 0)];
                            let r = d.graph_mut(g.clone()).remove_matching(ms[0].clone(), ms[1].clone(), ms[2].clone());
                            let sel = GM::Opt(Some(g));
                            tr.emit(json!({"ev":"RemoveMatching","via":"graph_mut","ms":[ms[0].json(),ms[1].json(),ms[2].json(),sel.json()],
                                "res":ok_or_err(r.map(|n| n as u64)),"rows":quads_of(&d)}));
                        } else if k < 56 {
                            let g = rng.pick(&gnames).clone();
                            let ms = [TM::random(rng, &terms, 0), TM::random(rng, &terms, 0), TM::random(rng, &terms, 0)];
                            let r = d.graph_mut(g.clone()).retain_matching(ms[0].clone(), ms[1].clone(), ms[2].clone());
                            let sel = GM::Opt(Some(g));
                            tr.emit(json!({"ev":"RetainIn","via":"graph_mut","ms":[ms[0].json(),ms[1].json(),ms[2].json(),sel.json()],
                                "res":ok_or_err(r.map(|_| true)),"rows":quads_of(&d)}));
                        } else if k < 92 {
                            // read through a view, plain or with a pattern
                            let pat = rng.chance(2, 3);
                            let aimed = if pat && rng.chance(1, 2) {
                                let rows: Vec<Value> = d.quads().map(|q| q.unwrap()).map(|q| quad_json(q.s(), q.p(), q.o(), q.g())).collect();
                                aimed_ms(rng, &rows, &terms, &gnames, false)
                            } else { None };
                            let ms = if let Some((ms, _)) = aimed {
                                if rng.chance(1, 3) {
                                    // all three positions bound: the store's "spo constant, graph matcher not constant" arm
                                    let c = |m: &TM, rng: &mut Rng| m.constant().cloned().map(|t| TM::Opt(Some(t))).unwrap_or_else(|| TM::Arr1([rng.pick(&terms).clone()]));
                                    use sophia_api::term::matcher::TermMatcher;
                                    [c(&ms[0], rng), c(&ms[1], rng), c(&ms[2], rng)]
                                } else {
                                    ms
                                }
                            } else if pat {
                                [TM::random(rng, &terms, 0), TM::random(rng, &terms, 0), TM::random(rng, &terms, 0)]
                            } else {
                                [TM::Any, TM::Any, TM::Any]
                            };
                            let msj = json!([ms[0].json(), ms[1].json(), ms[2].json()]);
                            let which = rng.below(4);
                            let (kind, sel, rows): (&str, Value, Vec<Value>) = if which == 0 {
                                let g = if rng.chance(1, 5) { absent.clone() } else { rng.pick(&gnames).clone() };
                                let v = d.graph(g.clone());
                                let rows = if pat {
                                    v.triples_matching(ms[0].clone(), ms[1].clone(), ms[2].clone()).map(|t| tj3(t.unwrap())).collect()
                                } else {
                                    v.triples().map(|t| tj3(t.unwrap())).collect()
                                };
                                ("graph", GM::Opt(Some(g)).json(), rows)
                            } else if which == 1 {
                                let v = d.union_graph();
                                let rows = if pat {
                                    v.triples_matching(ms[0].clone(), ms[1].clone(), ms[2].clone()).map(|t| tj3(t.unwrap())).collect()
                                } else {
                                    v.triples().map(|t| tj3(t.unwrap())).collect()
                                };
                                ("union_graph", GM::Any.json(), rows)
                            } else if which == 2 {
                                let mut gn2 = gnames.clone();
                                gn2.push(absent.clone());
                                let gm = GM::random(rng, &terms, &gn2, 0);
                                let v = d.partial_union_graph(sophia_api::term::matcher::GraphNameMatcher::matcher_ref(&gm));
                                let rows = if pat {
                                    v.triples_matching(ms[0].clone(), ms[1].clone(), ms[2].clone()).map(|t| tj3(t.unwrap())).collect()
                                } else {
                                    v.triples().map(|t| tj3(t.unwrap())).collect()
                                };
                                ("partial_union_graph", gm.json(), rows)
                            } else {
                                // graph_mut is also readable
                                let g = rng.pick(&gnames).clone();
                                let v = d.graph_mut(g.clone());
                                let rows = if pat {
                                    v.triples_matching(ms[0].clone(), ms[1].clone(), ms[2].clone()).map(|t| tj3(t.unwrap())).collect()
                                } else {
                                    v.triples().map(|t| tj3(t.unwrap())).collect()
                                };
                                ("graph_mut", GM::Opt(Some(g)).json(), rows)
                            };
                            tr.emit(json!({"ev":"View","kind":kind,"sel":sel,"ms":msj,"rows":sorted(rows)}));
                        } else if k < 96 {
                            let q = rand_q(rng, &terms, &gnames);
                            let c = d.graph(q.1.clone()).contains(&q.0[0], &q.0[1], &q.0[2]).unwrap();
                            tr.emit(json!({"ev":"Contains","via":"graph","q":q_json(&q),"res":c}));
                        } else if k < 98 {
                            let w = *rng.pick(&GWHICH);
                            let (sel, rows) = if rng.chance(1, 2) {
                                let g = rng.pick(&gnames).clone();
                                let v = d.graph(g.clone());
                                (GM::Opt(Some(g)).json(), terms_of_graph(&v, w))
                            } else {
                                let v = d.union_graph();
                                (GM::Any.json(), terms_of_graph(&v, w))
                            };
                            tr.emit(json!({"ev":"ViewTerms","sel":sel,"which":w,"rows":sorted(rows)}));
                        } else if $clone {
                            let v = d.clone().into_union_graph();
                            let rows: Vec<Value> = v.triples().map(|t| tj3(t.unwrap())).collect();
                            tr.emit(json!({"ev":"View","kind":"into_union_graph","sel":GM::Any.json(),"ms":[TM::Any.json(),TM::Any.json(),TM::Any.json()],"rows":sorted(rows)}));
                        }
                        // occasionally make an absent-looking name present
                        if rng.chance(1, 40) {
                            gnames.push(Some(rng.pick(&terms).clone()));
                        }
                    }
                });
                if let Err(msg) = r {
                    tr.emit(json!({"ev":"Panic","op":"views","msg":msg}));
                }
            }
        }
    };
}
dataset_views!(dv_fast, sophia_inmem::dataset::FastDataset, "FastDataset+views", true, true);
dataset_views!(dv_light, sophia_inmem::dataset::LightDataset, "LightDataset+views", true, true);
dataset_views!(dv_hs, HashSet<Spog<ST>>, "HashSet<Spog>+views", true, true);
dataset_views!(dv_bs, BTreeSet<Gspo<ST>>, "BTreeSet<Gspo>+views", true, true);
dataset_views!(dv_vec, Vec<Spog<ST>>, "Vec<Spog>+views", false, true);

/// graph -> dataset wrappers (as_dataset / as_dataset_mut / into_dataset)
macro_rules! graph_as_dataset {
    ($fname:ident, $ty:ty, $name:expr, $isset:expr) => {
        pub fn $fname(rng: &mut Rng, tr: &mut Trace, nhist: usize, len: usize) {
            for h in 0..nhist {
                let mut terms = alphabet();
                rng.shuffle(&mut terms);
                terms.truncate(3 + rng.below(4));
                let gnames: Vec<GraphName<ST>> = vec![None, None, None, Some(rng.pick(&terms).clone())];
                let mut g: $ty = Default::default();
                tr.emit(json!({"ev":"Reset","impl":$name,"isset":$isset,"graph":false,"asds":true,"cap":0,"rows":[]}));
                let r = guarded(|| {
                    for _ in 0..len {
                        let k = rng.below(100);
                        if k < 25 {
                            let q = rand_q(rng, &terms, &gnames);
                            let r = g.as_dataset_mut().insert(&q.0[0], &q.0[1], &q.0[2], q.1.as_ref());
                            tr.emit(json!({"ev":"Insert","via":"as_dataset_mut","q":q_json(&q),"res":ok_or_err(r),"rows":quads_of(&g.as_dataset())}));
                        } else if k < 45 {
                            let q = rand_q(rng, &terms, &gnames);
                            let r = g.as_dataset_mut().remove(&q.0[0], &q.0[1], &q.0[2], q.1.as_ref());
                            tr.emit(json!({"ev":"Remove","via":"as_dataset_mut","q":q_json(&q),"res":ok_or_err(r),"rows":quads_of(&g.as_dataset())}));
                        } else if k < 50 {
                            // directly on the graph
                            let q = rand_q(rng, &terms, &[None]);
                            let r = MutableGraph::insert(&mut g, &q.0[0], &q.0[1], &q.0[2]);
                            tr.emit(json!({"ev":"Insert","via":"graph","q":q_json(&q),"res":ok_or_err(r),"rows":quads_of(&g.as_dataset())}));
                        } else if k < 58 {
                            let q = rand_q(rng, &terms, &gnames);
                            let c = g.as_dataset().contains(&q.0[0], &q.0[1], &q.0[2], q.1.as_ref()).unwrap();
                            tr.emit(json!({"ev":"Contains","via":"as_dataset","q":q_json(&q),"res":c}));
                        } else if k < 85 {
                            let ms = [TM::random(rng, &terms, 0), TM::random(rng, &terms, 0), TM::random(rng, &terms, 0)];
                            let gm = GM::random(rng, &terms, &gnames, 0);
                            let rows: Vec<Value> = g.as_dataset().quads_matching(ms[0].clone(), ms[1].clone(), ms[2].clone(), gm.clone())
                                .map(|q| q.unwrap()).map(|q| quad_json(q.s(), q.p(), q.o(), q.g())).collect();
                            tr.emit(json!({"ev":"Match","via":"as_dataset","ms":[ms[0].json(),ms[1].json(),ms[2].json(),gm.json()],"rows":sorted(rows)}));
                        } else if k < 92 {
                            let n = rng.below(4);
                            let qs: Vec<Q> = (0..n).map(|_| rand_q(rng, &terms, &gnames)).collect();
                            let r = g.as_dataset_mut().insert_all(qs.iter().cloned().map(Ok::<_, std::convert::Infallible>));
                            let res = match r { Ok(n) => json!({"ok": n as u64}), Err(e) => json!({"err": e.to_string()}) };
                            tr.emit(json!({"ev":"InsertAll","via":"as_dataset_mut","qs":qs.iter().map(q_json).collect::<Vec<_>>(),"res":res,"rows":quads_of(&g.as_dataset())}));
                        } else if k < 96 {
                            let w = *rng.pick(&WHICH);
                            let d = g.as_dataset();
                            let rows: Vec<Value> = match w {
                                "subjects" => d.subjects().map(|t| term_json(t.unwrap())).collect(),
                                "predicates" => d.predicates().map(|t| term_json(t.unwrap())).collect(),
                                "objects" => d.objects().map(|t| term_json(t.unwrap())).collect(),
                                "graph_names" => d.graph_names().map(|t| term_json(t.unwrap())).collect(),
                                "iris" => d.iris().map(|t| term_json(t.unwrap())).collect(),
                                "blank_nodes" => d.blank_nodes().map(|t| term_json(t.unwrap())).collect(),
                                "literals" => d.literals().map(|t| term_json(t.unwrap())).collect(),
                                "quoted_triples" => d.quoted_triples().map(|t| term_json(t.unwrap())).collect(),
                                _ => d.variables().map(|t| term_json(t.unwrap())).collect(),
                            };
                            tr.emit(json!({"ev":"Terms","which":w,"rows":sorted(rows)}));
                        } else {
                            tr.emit(json!({"ev":"Quads","rows":quads_of(&g.as_dataset())}));
                        }
                    }
                    // owning wrapper at the end of every other history
                    if h % 2 == 0 {
                        let mut d = g.clone().into_dataset();
                        let q = rand_q(rng, &terms, &[None]);
                        let r = MutableDataset::remove(&mut d, &q.0[0], &q.0[1], &q.0[2], q.1.as_ref());
                        tr.emit(json!({"ev":"Remove","via":"into_dataset","q":q_json(&q),"res":ok_or_err(r),"rows":quads_of(&d)}));
                    }
                });
                if let Err(msg) = r {
                    tr.emit(json!({"ev":"Panic","op":"as_dataset","msg":msg}));
                }
            }
        }
    };
}
graph_as_dataset!(ad_fast, sophia_inmem::graph::FastGraph, "FastGraph.as_dataset", true);
graph_as_dataset!(ad_light, sophia_inmem::graph::LightGraph, "LightGraph.as_dataset", true);
graph_as_dataset!(ad_hs, HashSet<[ST; 3]>, "HashSet<[T;3]>.as_dataset", true);
graph_as_dataset!(ad_bs, BTreeSet<[ST; 3]>, "BTreeSet<[T;3]>.as_dataset", true);
graph_as_dataset!(ad_vec, Vec<[ST; 3]>, "Vec<[T;3]>.as_dataset", false);

pub fn main(args: &[String]) {
    quiet_panics();
    let seed = arg_u64(args, "--seed", 1);
    let out = arg(args, "--out").expect("--out");
    let nhist = arg_u64(args, "--hist", 20) as usize;
    let len = arg_u64(args, "--len", 40) as usize;
    let mut tr = Trace::create(out);
    let mut rng = Rng::new(seed ^ 0x11);
    dv_fast(&mut rng, &mut tr, nhist, len);
    dv_light(&mut rng, &mut tr, nhist, len);
    dv_hs(&mut rng, &mut tr, nhist, len);
    dv_bs(&mut rng, &mut tr, nhist, len);
    dv_vec(&mut rng, &mut tr, nhist, len);
    ad_fast(&mut rng, &mut tr, nhist, len);
    ad_light(&mut rng, &mut tr, nhist, len);
    ad_hs(&mut rng, &mut tr, nhist, len);
    ad_bs(&mut rng, &mut tr, nhist, len);
    ad_vec(&mut rng, &mut tr, nhist, len);
    println!("events {}", tr.finish());
}
