//! C20 driver: native Rust values used as terms (i32, isize, usize, bool, f64, str) and `TryFromTerm` on arbitrary literals.
//! Values are reported in a form the specification can compute with exactly: integers as decimal digit strings,
//! doubles as their bit pattern plus the EXACT decimal expansion of the value and of its two neighbours.
use crate::util::*;
use serde_json::{Value, json};
use sophia_api::prelude::*;
use sophia_api::term::{FromTerm, SimpleTerm, TryFromTerm};

fn exact_dec(v: f64) -> String {
    // Rust prints the exact binary value when given enough digits (at most 1074 fractional digits are needed)
    let s = format!("{:.1100}", v);
    let s = s.trim_end_matches('0').trim_end_matches('.');
    if s.is_empty() || s == "-" { "0".into() } else { s.to_string() }
}
fn neighbour(v: f64, up: bool) -> Option<f64> {
    if v.is_nan() {
        return None;
    }
    if v.is_infinite() {
        // the finite neighbour of an infinity
        return if (v > 0.0) != up { Some(if v > 0.0 { f64::MAX } else { f64::MIN }) } else { None };
    }
    let bits = v.to_bits();
    let r = if v == 0.0 {
        if up { f64::from_bits(1) } else { -f64::from_bits(1) }
    } else if (v > 0.0) == up {
        f64::from_bits(bits + 1)
    } else {
        f64::from_bits(bits - 1)
    };
    if r.is_infinite() { None } else { Some(r) }
}
pub fn f64_json(v: f64) -> Value {
    let b = v.to_bits();
    let cls = if v.is_nan() { "nan" } else if v.is_infinite() { "inf" } else { "finite" };
    json!({"cls": cls, "neg": v.is_sign_negative() && !v.is_nan(),
        "bits": [(b >> 48) & 0xffff, (b >> 32) & 0xffff, (b >> 16) & 0xffff, b & 0xffff],
        "dec": if v.is_finite() { cps(&exact_dec(v)) } else { json!([]) },
        "prev": neighbour(v, false).map(|x| cps(&exact_dec(x))).unwrap_or(json!([])),
        "next": neighbour(v, true).map(|x| cps(&exact_dec(x))).unwrap_or(json!([]))})
}
fn int_json(s: String) -> Value {
    json!({"dec": cps(&s)})
}

fn out<T, E: std::fmt::Display>(r: Result<Result<T, E>, String>, f: impl Fn(T) -> Value) -> Value {
    match r {
        Err(p) => json!({"k":"panic","val":{},"msg":p}),
        Ok(Err(e)) => json!({"k":"err","val":{},"msg":e.to_string()}),
        Ok(Ok(v)) => json!({"k":"ok","val":f(v),"msg":""}),
    }
}

/// `ty::try_from_term(term)`, reported for the specification
fn try_from(ty: &str, t: &ST) -> Value {
    match ty {
        "i32" => out(guarded(|| i32::try_from_term(t.borrow_term())), |v| int_json(v.to_string())),
        "isize" => out(guarded(|| isize::try_from_term(t.borrow_term())), |v| int_json(v.to_string())),
        "usize" => out(guarded(|| usize::try_from_term(t.borrow_term())), |v| int_json(v.to_string())),
        "bool" => out(guarded(|| bool::try_from_term(t.borrow_term())), |v| json!({"b": v})),
        "f64" => out(guarded(|| f64::try_from_term(t.borrow_term())), f64_json),
        _ => {
            // no TryFromTerm for strings: the value of an xsd:string literal is its lexical form
            let r: Result<Result<String, String>, String> = guarded(|| match (t.lexical_form(), t.datatype()) {
                (Some(lex), Some(dt)) if dt.as_str() == format!("{XSD}string") => Ok(lex.to_string()),
                _ => Err("not an xsd:string".to_string()),
            });
            out(r, |v| json!({"s": cps(&v)}))
        }
    }
}

/// the object of `<urn:s> <urn:p> value` after a trip through a serializer and its parser
fn round_trip<T: Term + Clone>(value: T, via: &str) -> Result<ST, String> {
    use sophia_api::serializer::{QuadSerializer, Stringifier, TripleSerializer};
    use sophia_api::source::{QuadSource, TripleSource};
    // (a triple has one term type: the native value is copied into a SimpleTerm through the Term API, i.e. lexical_form() and datatype())
    // "+siblings": the same subject and predicate also have values with the SAME lexical form and another datatype / a language tag
    let (via, siblings) = match via.strip_suffix("+siblings") { Some(v) => (v, true), None => (via, false) };
    let me: ST = value.clone().into_term::<ST>();
    let lex = sophia_api::term::Term::lexical_form(&me).map(|l| l.to_string()).unwrap_or_default();
    let my_dt = sophia_api::term::Term::datatype(&me).map(|d| d.to_string()).unwrap_or_default();
    let mut objects: Vec<ST> = vec![me.clone()];
    if siblings {
        for dt in [format!("{XSD}string"), format!("{XSD}integer"), format!("{XSD}double"), format!("{XSD}boolean"), "urn:dt".to_string()] {
            if dt != my_dt {
                objects.push(lit_dt(&lex, &dt));
            }
        }
        objects.push(lit_lang(&lex, "en"));
        objects.rotate_left(lex.len() % 3);
    }
    let objects2 = objects.clone();
    let one = move || objects2.clone().into_iter().map(|o| Ok::<_, std::convert::Infallible>([iri("urn:s"), iri("urn:p"), o]));
    let mut got: Vec<ST> = vec![];
    match via {
        "nt" => {
            let mut s = sophia_turtle::serializer::nt::NtSerializer::new_stringifier();
            s.serialize_triples(one()).map_err(|e| e.to_string())?;
            let txt = s.to_string();
            sophia_turtle::parser::nt::parse_str(&txt).for_each_triple(|x| got.push(x.o().into_term())).map_err(|e| format!("{e} in {txt:?}"))?;
        }
        "turtle" | "turtle-pretty" => {
            let cfg = sophia_turtle::serializer::turtle::TurtleConfig::new().with_pretty(via == "turtle-pretty");
            let mut s = sophia_turtle::serializer::turtle::TurtleSerializer::new_stringifier_with_config(cfg);
            s.serialize_triples(one()).map_err(|e| e.to_string())?;
            let txt = s.to_string();
            sophia_turtle::parser::turtle::parse_str(&txt).for_each_triple(|x| got.push(x.o().into_term())).map_err(|e| format!("{e} in {txt:?}"))?;
        }
        "trig-pretty" => {
            let cfg = sophia_turtle::serializer::trig::TrigConfig::new().with_pretty(true);
            let mut s = sophia_turtle::serializer::trig::TrigSerializer::new_stringifier_with_config(cfg);
            s.serialize_quads(one().map(|r| r.map(|t| (t, None::<ST>)))).map_err(|e| e.to_string())?;
            let txt = s.to_string();
            sophia_turtle::parser::trig::parse_str(&txt).for_each_quad(|x| got.push(x.o().into_term())).map_err(|e| format!("{e} in {txt:?}"))?;
        }
        "xml" => {
            let mut s = sophia_xml::serializer::RdfXmlSerializer::new_stringifier();
            s.serialize_triples(one()).map_err(|e| e.to_string())?;
            let txt = s.to_string();
            sophia_xml::parser::parse_str(&txt).for_each_triple(|x| got.push(x.o().into_term())).map_err(|e| format!("{e} in {txt:?}"))?;
        }
        _ => {
            let mut s = sophia_jsonld::JsonLdSerializer::new_stringifier();
            s.serialize_quads(one().map(|r| r.map(|t| (t, None::<ST>)))).map_err(|e| e.to_string())?;
            let txt = s.to_string();
            sophia_jsonld::JsonLdParser::new().parse_str(&txt).for_each_quad(|x| got.push(x.o().into_term())).map_err(|e| format!("{e} in {txt:?}"))?;
        }
    }
    if got.len() != objects.len() {
        return Err(format!("{} statements came back, {} were written", got.len(), objects.len()));
    }
    // the value that came back: the one with the datatype of the value that was written (and no language tag)
    let mut mine: Vec<ST> = got.into_iter().filter(|t| sophia_api::term::Term::language_tag(t).is_none() && sophia_api::term::Term::datatype(t).map(|d| d.to_string()).unwrap_or_default() == my_dt).collect();
    if mine.len() == 1 { Ok(mine.remove(0)) } else { Err(format!("{} statements with the datatype of the value came back", mine.len())) }
}

const VIAS: [&str; 12] = ["direct", "simple", "nt", "turtle", "turtle-pretty", "trig-pretty", "xml", "jsonld", "nt+siblings", "turtle-pretty+siblings", "xml+siblings", "jsonld+siblings"];

fn native_event<T: Term + Clone>(ty: &str, value: T, val: Value, legal_xml: bool) -> Value {
    let term = guarded(|| term_json(value.borrow_term()));
    let term = match term {
        Ok(t) => t,
        Err(p) => return json!({"ev":"NativePanic","ty":ty,"val":val,"msg":p}),
    };
    let mut vias = vec![];
    for via in VIAS {
        if via.starts_with("xml") && !legal_xml {
            continue;
        }
        let o = match via {
            "direct" => try_from(ty, &value.clone().into_term::<ST>()).pipe(|_| direct(ty, value.clone())),
            "simple" => try_from(ty, &value.clone().into_term::<ST>()),
            _ => match guarded(|| round_trip(value.clone(), via)) {
                Err(p) => json!({"k":"panic","val":{},"msg":p}),
                Ok(Err(e)) => json!({"k":"err","val":{},"msg":e}),
                Ok(Ok(t)) => try_from(ty, &t),
            },
        };
        vias.push(json!({"via":via,"out":o}));
    }
    json!({"ev":"Native","ty":ty,"val":val,"term":term,"vias":vias})
}
trait Pipe: Sized {
    fn pipe<R>(self, f: impl FnOnce(Self) -> R) -> R {
        f(self)
    }
}
impl<T> Pipe for T {}

/// the native value itself as the argument of try_from_term (no intermediate representation)
fn direct<T: Term + Clone>(ty: &str, value: T) -> Value {
    match ty {
        "i32" => out(guarded(|| i32::try_from_term(value)), |v| int_json(v.to_string())),
        "isize" => out(guarded(|| isize::try_from_term(value)), |v| int_json(v.to_string())),
        "usize" => out(guarded(|| usize::try_from_term(value)), |v| int_json(v.to_string())),
        "bool" => out(guarded(|| bool::try_from_term(value)), |v| json!({"b": v})),
        "f64" => out(guarded(|| f64::try_from_term(value)), f64_json),
        _ => try_from(ty, &value.into_term::<ST>()),
    }
}

pub fn main(args: &[String]) {
    quiet_panics();
    let seed = arg_u64(args, "--seed", 1);
    let n = arg_u64(args, "--n", 300) as usize;
    let mut tr = Trace::create(arg(args, "--out").expect("--out"));
    let mut rng = Rng::new(seed ^ 0x20);
    // (1) native values -> term -> (representation / serialisation) -> native value
    let mut i32s = vec![0, 1, -1, 42, i32::MIN, i32::MAX, 10, -10, 1_000_000];
    let mut isizes = vec![0isize, 1, -1, isize::MIN, isize::MAX, i32::MAX as isize + 1, i32::MIN as isize - 1];
    let mut usizes = vec![0usize, 1, usize::MAX, i32::MAX as usize + 1, isize::MAX as usize, isize::MAX as usize + 1];
    let mut f64s = vec![0.0, -0.0, 1.0, -1.0, 0.1, 0.3, 1.0 / 3.0, 42.0, 3.14, 1e300, 1e21, 1e-7, 123456789.123456789, 5e-324, f64::MIN_POSITIVE, f64::MAX, f64::MIN, f64::EPSILON,
        9007199254740993.0, 0.30000000000000004, 2.2250738585072011e-308, f64::INFINITY, f64::NEG_INFINITY, f64::NAN, -f64::NAN, 1e15, 1e16, 1e17, 123456.0, 0.000001, 1.5e-5];
    for _ in 0..n {
        i32s.push(rng.next() as i32);
        isizes.push(rng.next() as isize >> rng.below(64));
        usizes.push(rng.next() as usize >> rng.below(64));
        f64s.push(f64::from_bits(rng.next()));
        f64s.push((rng.next() as i64 >> rng.below(60)) as f64 / [1.0, 10.0, 1000.0, 1e9][rng.below(4)]);
    }
    for v in i32s {
        tr.emit(native_event("i32", v, int_json(v.to_string()), true));
    }
    for v in isizes {
        tr.emit(native_event("isize", v, int_json(v.to_string()), true));
    }
    for v in usizes {
        tr.emit(native_event("usize", v, int_json(v.to_string()), true));
    }
    for v in [true, false] {
        tr.emit(native_event("bool", v, json!({"b": v}), true));
    }
    for v in f64s {
        tr.emit(native_event("f64", v, f64_json(v), true));
    }
    let pieces = ["", "a", " ", "\"", "\\", "\n", "\r", "\t", "'", "é", "\u{1F600}", "<", "&", "\\u0041", "\\n", "C:\\new\\table", "\u{1}", "\u{7f}", "\u{FFFE}", "true", "42", "1e5", "@en", "^^", "]]>"];
    for i in 0..(pieces.len() + n / 2) {
        let s: String = if i < pieces.len() { pieces[i].to_string() } else { (0..1 + rng.below(4)).map(|_| *rng.pick(&pieces)).collect() };
        let legal_xml = s.chars().all(|c| matches!(c, '\t' | '\n' | '\r' | ' '..='\u{D7FF}' | '\u{E000}'..='\u{FFFD}' | '\u{10000}'..)) && !s.chars().all(|c| matches!(c, ' ' | '\t' | '\n' | '\r'));
        tr.emit(native_event("str", s.as_str(), json!({"s": cps(&s)}), legal_xml));
    }
    // (2) T::try_from_term on the literals printed by TLC (Gen_Native), in two term representations, and on terms that are no typed literals
    if let Some(g) = arg(args, "--gen") {
        for line in std::fs::read_to_string(g).expect("gen").lines().filter(|l| !l.trim().is_empty()) {
            let v: Value = serde_json::from_str(line).expect("gen line");
            let (ty, lex, dt) = (v["ty"].as_str().unwrap(), from_cps(&v["lex"]), from_cps(&v["dt"]));
            let t = lit_dt(&lex, &dt);
            tr.emit(json!({"ev":"TryFrom","ty":ty,"term":term_json(&t),"out":try_from(ty, &t)}));
        }
    }
    let others: Vec<ST> = vec![iri("http://ex/5"), bn("b5"), var("v5"), lit_lang("5", "en"), lit_lang("true", "en"), quoted(iri("urn:s"), iri("urn:p"), lit_dt("5", &format!("{XSD}integer")))];
    for t in &others {
        for ty in ["i32", "isize", "usize", "bool", "f64"] {
            tr.emit(json!({"ev":"TryFrom","ty":ty,"term":term_json(t),"out":try_from(ty, t)}));
        }
    }
    println!("events {}", tr.finish());
}
