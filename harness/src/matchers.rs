//! Thin matcher enums that *delegate `matches` and `constant` to the shipped matcher types*,
//! so that the shipped `constant()` rules are what selects the index inside the stores.
use crate::util::*;
use serde_json::{Value, json};
use sophia_api::term::matcher::{
    Any, DatatypeMatcher, GraphNameMatcher, LanguageTagMatcher, Not, TermMatcher,
};
use sophia_api::term::{GraphName, IriRef, LanguageTag, SimpleTerm, Term, TermKind};

#[derive(Clone, Debug)]
pub enum TM {
    Any,
    Opt(Option<ST>),
    Arr0,
    Arr1([ST; 1]),
    Arr2([ST; 2]),
    Slice(Vec<ST>),
    Kind(TermKind),
    Not(Box<TM>),
    Dt(String),
    Lang(String),
    Triple(Box<(TM, TM, TM)>),
    /// closure: membership test (Term::eq) in a list, negated or not
    Closure(Vec<ST>, bool),
    /// through matcher_ref()
    Ref(Box<TM>),
}

impl TermMatcher for TM {
    type Term = ST;
    fn matches<T2: Term + ?Sized>(&self, term: &T2) -> bool {
        match self {
            TM::Any => TermMatcher::matches(&Any, term),
            TM::Opt(o) => o.matches(term),
            TM::Arr0 => {
                let a: [ST; 0] = [];
                a.matches(term)
            }
            TM::Arr1(a) => a.matches(term),
            TM::Arr2(a) => a.matches(term),
            TM::Slice(v) => (&v[..]).matches(term),
            TM::Kind(k) => k.matches(term),
            TM::Not(m) => Not(m.matcher_ref()).matches(term),
            TM::Dt(d) => DatatypeMatcher::new(IriRef::new_unchecked(d.as_str())).matches(term),
            TM::Lang(l) => LanguageTagMatcher::new(LanguageTag::new_unchecked(l.as_str())).matches(term),
            TM::Triple(b) => (b.0.matcher_ref(), b.1.matcher_ref(), b.2.matcher_ref()).matches(term),
            TM::Closure(v, neg) => {
                let f = |t: SimpleTerm<'_>| v.iter().any(|x| Term::eq(x, t.borrow_term())) != *neg;
                TermMatcher::matches(&f, term)
            }
            TM::Ref(m) => m.matcher_ref().matches(term),
        }
    }
    fn constant(&self) -> Option<&ST> {
        // every arm asks the *shipped* matcher type; references are re-borrowed from `self`
        fn ext<'a>(c: Option<&ST>) -> Option<&'a ST> {
            c.map(|p| unsafe { &*(p as *const ST) })
        }
        match self {
            TM::Any => ext(TermMatcher::constant(&Any)),
            TM::Opt(o) => o.constant(),
            TM::Arr0 => {
                let a: [ST; 0] = [];
                ext(a.constant())
            }
            TM::Arr1(a) => a.constant(),
            TM::Arr2(a) => a.constant(),
            TM::Slice(v) => {
                let s: &[ST] = &v[..];
                ext(<&[ST] as TermMatcher>::constant(&s))
            }
            TM::Kind(k) => ext(k.constant()),
            TM::Not(m) => ext(Not(m.matcher_ref()).constant()),
            TM::Dt(d) => ext(DatatypeMatcher::new(IriRef::new_unchecked(d.as_str())).constant()),
            TM::Lang(l) => ext(LanguageTagMatcher::new(LanguageTag::new_unchecked(l.as_str())).constant()),
            TM::Triple(b) => ext((b.0.matcher_ref(), b.1.matcher_ref(), b.2.matcher_ref()).constant()),
            TM::Closure(..) => None,
            TM::Ref(m) => ext(m.matcher_ref().constant()),
        }
    }
}

impl TM {
    /// semantic description for the specification
    pub fn json(&self) -> Value {
        match self {
            TM::Any => json!({"m":"any"}),
            TM::Opt(None) | TM::Arr0 => json!({"m":"in","ts":[]}),
            TM::Opt(Some(t)) => json!({"m":"in","ts":[term_json(t)]}),
            TM::Arr1(a) => json!({"m":"in","ts":[term_json(&a[0])]}),
            TM::Arr2(a) => json!({"m":"in","ts":[term_json(&a[0]), term_json(&a[1])]}),
            TM::Slice(v) => json!({"m":"in","ts":v.iter().map(term_json).collect::<Vec<_>>()}),
            TM::Kind(k) => json!({"m":"kind","kind":kind_str(*k)}),
            TM::Not(m) => json!({"m":"not","of":m.json()}),
            TM::Dt(d) => json!({"m":"dt","dt":cps(d)}),
            TM::Lang(l) => json!({"m":"lang","tag":cps(l)}),
            TM::Triple(b) => json!({"m":"triple","s":b.0.json(),"p":b.1.json(),"o":b.2.json()}),
            TM::Closure(v, false) => json!({"m":"in","ts":v.iter().map(term_json).collect::<Vec<_>>()}),
            TM::Closure(v, true) => json!({"m":"not","of":{"m":"in","ts":v.iter().map(term_json).collect::<Vec<_>>()}}),
            TM::Ref(m) => m.json(),
        }
    }
    /// constants mentioned (for the spec's `seen` set nothing is needed: the json carries them)
    pub fn random(rng: &mut Rng, terms: &[ST], depth: usize) -> TM {
        let t = |rng: &mut Rng| rng.pick(terms).clone();
        match rng.below(if depth > 1 { 14 } else { 18 }) {
            0 | 1 | 2 => TM::Any,
            3 | 4 => TM::Opt(Some(t(rng))),
            5 => TM::Arr1([t(rng)]),
            6 => TM::Arr2([t(rng), t(rng)]),
            7 => {
                let n = rng.below(4);
                TM::Slice((0..n).map(|_| t(rng)).collect())
            }
            8 => TM::Kind(*rng.pick(&[TermKind::Iri, TermKind::BlankNode, TermKind::Literal, TermKind::Triple, TermKind::Variable])),
            9 => match rng.below(3) {
                0 => TM::Opt(None),
                1 => TM::Arr0,
                _ => TM::Slice(vec![t(rng)]),
            },
            10 => {
                let dts: Vec<String> = terms.iter().filter_map(|x| x.datatype().map(|d| d.to_string())).collect();
                if dts.is_empty() { TM::Any } else { TM::Dt(rng.pick(&dts).clone()) }
            }
            11 => {
                let tags: Vec<String> = terms.iter().filter_map(|x| x.language_tag().map(|d| d.to_string())).collect();
                if tags.is_empty() {
                    TM::Any
                } else {
                    let mut tag = rng.pick(&tags).clone();
                    if rng.chance(1, 2) {
                        tag = tag.to_ascii_uppercase();
                    }
                    TM::Lang(tag)
                }
            }
            12 => {
                let n = rng.below(3);
                TM::Closure((0..n).map(|_| t(rng)).collect(), rng.chance(1, 2))
            }
            13 => TM::Ref(Box::new(TM::Opt(Some(t(rng))))),
            14 | 15 => TM::Not(Box::new(TM::random(rng, terms, depth + 1))),
            16 => TM::Triple(Box::new((TM::random(rng, terms, depth + 1), TM::random(rng, terms, depth + 1), TM::random(rng, terms, depth + 1)))),
            _ => TM::Ref(Box::new(TM::random(rng, terms, depth + 1))),
        }
    }
}

/// graph-name matchers
#[derive(Clone, Debug)]
pub enum GM {
    Any,
    Opt(Option<GraphName<ST>>),
    Arr1([GraphName<ST>; 1]),
    Arr2([GraphName<ST>; 2]),
    Slice(Vec<GraphName<ST>>),
    Kind(Option<TermKind>),
    Triple(Option<Box<(TM, TM, TM)>>),
    Closure(Vec<GraphName<ST>>, bool),
    Not(Box<GM>),
    Gn(TM),
    Ref(Box<GM>),
}

fn gn_eq<T2: Term + ?Sized>(a: &GraphName<ST>, b: GraphName<&T2>) -> bool {
    sophia_api::term::graph_name_eq(a.as_ref().map(|x| x.borrow_term()), b.map(|x| x.borrow_term()))
}

impl GraphNameMatcher for GM {
    type Term = ST;
    fn matches<T2: Term + ?Sized>(&self, g: GraphName<&T2>) -> bool {
        match self {
            GM::Any => GraphNameMatcher::matches(&Any, g),
            GM::Opt(o) => GraphNameMatcher::matches(o, g),
            GM::Arr1(a) => GraphNameMatcher::matches(a, g),
            GM::Arr2(a) => GraphNameMatcher::matches(a, g),
            GM::Slice(v) => GraphNameMatcher::matches(&&v[..], g),
            GM::Kind(k) => GraphNameMatcher::matches(k, g),
            GM::Triple(None) => {
                let m: Option<(TM, TM, TM)> = None;
                GraphNameMatcher::matches(&m, g)
            }
            GM::Triple(Some(b)) => {
                let m = Some((b.0.matcher_ref(), b.1.matcher_ref(), b.2.matcher_ref()));
                GraphNameMatcher::matches(&m, g)
            }
            GM::Closure(v, neg) => {
                let f = |t: GraphName<SimpleTerm>| v.iter().any(|x| gn_eq(x, t.as_ref())) != *neg;
                GraphNameMatcher::matches(&f, g)
            }
            GM::Not(m) => GraphNameMatcher::matches(&Not(GraphNameMatcher::matcher_ref(&**m)), g),
            GM::Gn(tm) => GraphNameMatcher::matches(&tm.matcher_ref().gn(), g),
            GM::Ref(m) => GraphNameMatcher::matches(&GraphNameMatcher::matcher_ref(&**m), g),
        }
    }
    fn constant(&self) -> Option<GraphName<&ST>> {
        fn ext<'a>(c: Option<GraphName<&ST>>) -> Option<GraphName<&'a ST>> {
            c.map(|g| g.map(|p| unsafe { &*(p as *const ST) }))
        }
        match self {
            GM::Any => None,
            GM::Opt(o) => GraphNameMatcher::constant(o),
            GM::Arr1(a) => GraphNameMatcher::constant(a),
            GM::Arr2(a) => GraphNameMatcher::constant(a),
            GM::Slice(v) => {
                let s: &[GraphName<ST>] = &v[..];
                ext(<&[GraphName<ST>] as GraphNameMatcher>::constant(&s))
            }
            GM::Kind(_) | GM::Triple(_) | GM::Closure(..) | GM::Not(_) => None,
            GM::Gn(tm) => {
                let c = tm.constant();
                // TermMatcherGn::constant() = inner.constant().map(Some); evaluated on the real wrapper
                let w = tm.matcher_ref().gn();
                let real = GraphNameMatcher::constant(&w).is_some();
                debug_assert_eq!(real, c.is_some());
                if real { c.map(Some) } else { None }
            }
            GM::Ref(m) => ext(GraphNameMatcher::constant(&GraphNameMatcher::matcher_ref(&**m))),
        }
    }
}

fn g_json(g: &GraphName<ST>) -> Value {
    gn_json(g.as_ref())
}
impl GM {
    pub fn json(&self) -> Value {
        match self {
            GM::Any => json!({"m":"any"}),
            GM::Opt(None) => json!({"m":"in","ts":[]}),
            GM::Opt(Some(g)) => json!({"m":"in","ts":[g_json(g)]}),
            GM::Arr1(a) => json!({"m":"in","ts":[g_json(&a[0])]}),
            GM::Arr2(a) => json!({"m":"in","ts":[g_json(&a[0]), g_json(&a[1])]}),
            GM::Slice(v) => json!({"m":"in","ts":v.iter().map(g_json).collect::<Vec<_>>()}),
            GM::Kind(None) => json!({"m":"kind","kind":"dg"}),
            GM::Kind(Some(k)) => json!({"m":"kind","kind":kind_str(*k)}),
            GM::Triple(None) => json!({"m":"kind","kind":"dg"}),
            GM::Triple(Some(b)) => json!({"m":"triple","s":b.0.json(),"p":b.1.json(),"o":b.2.json()}),
            GM::Closure(v, false) => json!({"m":"in","ts":v.iter().map(g_json).collect::<Vec<_>>()}),
            GM::Closure(v, true) => json!({"m":"not","of":{"m":"in","ts":v.iter().map(g_json).collect::<Vec<_>>()}}),
            GM::Not(m) => json!({"m":"not","of":m.json()}),
            GM::Gn(tm) => json!({"m":"term","of":tm.json()}),
            GM::Ref(m) => m.json(),
        }
    }
    pub fn random(rng: &mut Rng, terms: &[ST], gnames: &[GraphName<ST>], depth: usize) -> GM {
        let g = |rng: &mut Rng| rng.pick(gnames).clone();
        match rng.below(if depth > 1 { 12 } else { 14 }) {
            0 | 1 | 2 => GM::Any,
            3 | 4 => GM::Opt(Some(g(rng))),
            5 => GM::Arr1([g(rng)]),
            6 => GM::Arr2([g(rng), g(rng)]),
            7 => {
                let n = rng.below(4);
                GM::Slice((0..n).map(|_| g(rng)).collect())
            }
            8 => GM::Kind(*rng.pick(&[None, Some(TermKind::Iri), Some(TermKind::BlankNode), Some(TermKind::Literal), Some(TermKind::Triple)])),
            9 => GM::Gn(TM::random(rng, terms, depth + 1)),
            10 => match rng.below(3) {
                0 => GM::Opt(None),
                1 => GM::Triple(None),
                _ => GM::Triple(Some(Box::new((TM::random(rng, terms, 2), TM::random(rng, terms, 2), TM::random(rng, terms, 2))))),
            },
            11 => {
                let n = rng.below(3);
                GM::Closure((0..n).map(|_| g(rng)).collect(), rng.chance(1, 2))
            }
            12 => GM::Not(Box::new(GM::random(rng, terms, gnames, depth + 1))),
            _ => GM::Ref(Box::new(GM::random(rng, terms, gnames, depth + 1))),
        }
    }
}

/// matcher from the specification's JSON form (for TLC-generated histories): any / const / set
pub fn tm_from_json(v: &Value) -> TM {
    match v["m"].as_str().unwrap() {
        "any" => TM::Any,
        "in" => {
            let ts: Vec<ST> = v["ts"].as_array().unwrap().iter().map(json_term).collect();
            match ts.len() {
                1 => TM::Arr1([ts[0].clone()]),
                2 => TM::Arr2([ts[0].clone(), ts[1].clone()]),
                _ => TM::Slice(ts),
            }
        }
        m => panic!("tm_from_json {m}"),
    }
}
pub fn gm_from_json(v: &Value) -> GM {
    match v["m"].as_str().unwrap() {
        "any" => GM::Any,
        "in" => {
            let ts: Vec<GraphName<ST>> = v["ts"].as_array().unwrap().iter().map(json_gn).collect();
            match ts.len() {
                1 => GM::Arr1([ts[0].clone()]),
                2 => GM::Arr2([ts[0].clone(), ts[1].clone()]),
                _ => GM::Slice(ts),
            }
        }
        m => panic!("gm_from_json {m}"),
    }
}
