//! C10 driver: histories interleaving insert/remove/query with clone, drop, swap, move and growth on the
//! self-referential term index and the stores built on it.  After every step each live instance is AUDITED
//! (pointer-range comparison through the verif_hooks accessors: every borrowed string of i2t[i] must be the
//! very string owned by the key that t2i maps to i) and, only if the audit passes, READ.
use crate::util::*;
use serde_json::{Value, json};
use sophia_api::dataset::{Dataset, MutableDataset};
use sophia_api::graph::{Graph, MutableGraph};
use sophia_api::quad::Quad;
use sophia_api::term::{SimpleTerm, Term};
use sophia_api::triple::Triple;
use sophia_api::MownStr;
use sophia_inmem::index::{Index, SimpleTermIndex, TermIndex};

fn leaves(t: &SimpleTerm<'static>, out: &mut Vec<(bool, usize, usize)>) {
    let mut push = |m: &MownStr<'static>| out.push((m.is_owned(), m.as_ptr() as usize, m.len()));
    match t {
        SimpleTerm::Iri(i) => push(&**i),
        SimpleTerm::BlankNode(b) => push(&**b),
        SimpleTerm::Variable(v) => push(&**v),
        SimpleTerm::LiteralDatatype(l, d) => {
            push(l);
            push(&**d);
        }
        SimpleTerm::LiteralLanguage(l, g) => {
            push(l);
            push(&**g);
        }
        SimpleTerm::Triple(b) => {
            for x in b.iter() {
                leaves(x, out);
            }
        }
    }
}

/// SelfContained: for every key k -> i, the strings of i2t[i] are owned by i2t[i] itself or are exactly k's strings;
/// and the map is a bijection onto 0..len.  Nothing behind a foreign pointer is read.
pub fn audit_index<I: Index>(ix: &SimpleTermIndex<I>) -> bool {
    let (t2i, i2t) = ix.verif_raw();
    if t2i.len() != i2t.len() {
        return false;
    }
    let mut hit = vec![false; i2t.len()];
    for (k, i) in t2i.iter() {
        let i = i.into_usize();
        if i >= i2t.len() || hit[i] {
            return false;
        }
        hit[i] = true;
        let (mut lk, mut le) = (vec![], vec![]);
        leaves(k, &mut lk);
        leaves(&i2t[i], &mut le);
        if lk.len() != le.len() {
            return false;
        }
        for (a, b) in lk.iter().zip(le.iter()) {
            if !a.0 {
                return false; // keys must own their text
            }
            if !b.0 && (a.1 != b.1 || a.2 != b.2) {
                return false; // borrowed from somewhere else than this instance's own key
            }
        }
    }
    true
}

pub trait MemStore: Clone + Default {
    const CAN_DEL: bool = true;
    fn add(&mut self, t: &ST) -> bool;
    fn del(&mut self, t: &ST);
    fn content(&self) -> Vec<Value>;
    fn audit(&self) -> bool;
    /// exercise a pattern query (reads through i2t)
    fn query(&self, t: &ST) -> usize;
    /// the same content read through the other index arms (must agree with `content`)
    fn alt(&self) -> Vec<Vec<Value>> {
        vec![]
    }
}
fn p_term() -> ST {
    iri("http://ex/p")
}
impl<I: Index + Default> MemStore for SimpleTermIndex<I> {
    const CAN_DEL: bool = false;
    fn add(&mut self, t: &ST) -> bool {
        self.ensure_index(t).is_ok()
    }
    fn del(&mut self, _t: &ST) {}
    fn content(&self) -> Vec<Value> {
        (0..self.len()).map(|i| term_json(self.get_term(I::from_usize(i)))).collect()
    }
    fn audit(&self) -> bool {
        audit_index(self)
    }
    fn query(&self, t: &ST) -> usize {
        self.get_index(t).map(|_| 1).unwrap_or(0)
    }
}
macro_rules! mem_graph {
    ($ty:ty) => {
        impl MemStore for $ty {
            fn add(&mut self, t: &ST) -> bool {
                MutableGraph::insert(self, t, &p_term(), t).is_ok()
            }
            fn del(&mut self, t: &ST) {
                let _ = MutableGraph::remove(self, t, &p_term(), t);
            }
            fn content(&self) -> Vec<Value> {
                self.triples().map(|t| t.unwrap()).map(|t| term_json(t.s())).collect()
            }
            fn audit(&self) -> bool {
                audit_index(self.verif_terms())
            }
            fn query(&self, t: &ST) -> usize {
                self.triples_matching(sophia_api::term::matcher::Any, sophia_api::term::matcher::Any, [t]).count()
            }
            fn alt(&self) -> Vec<Vec<Value>> {
                use sophia_api::term::matcher::Any;
                let p = p_term();
                let subs: Vec<ST> = self.triples().map(|t| t.unwrap().s().into_term::<ST>()).collect();
                let by_p: Vec<Value> = self.triples_matching(Any, [&p], Any).map(|t| term_json(t.unwrap().s())).collect();
                let mut by_o: Vec<Value> = vec![];
                let mut by_so: Vec<Value> = vec![];
                for x in &subs {
                    by_o.extend(self.triples_matching(Any, Any, [x]).map(|t| term_json(t.unwrap().s())));
                    by_so.extend(self.triples_matching([x], Any, [x]).map(|t| term_json(t.unwrap().s())));
                }
                vec![by_p, by_o, by_so]
            }
        }
    };
}
macro_rules! mem_dataset {
    ($ty:ty) => {
        impl MemStore for $ty {
            fn add(&mut self, t: &ST) -> bool {
                MutableDataset::insert(self, t, &p_term(), t, Some(t)).is_ok()
            }
            fn del(&mut self, t: &ST) {
                let _ = MutableDataset::remove(self, t, &p_term(), t, Some(t));
            }
            fn content(&self) -> Vec<Value> {
                self.quads().map(|q| q.unwrap()).map(|q| term_json(q.s())).collect()
            }
            fn audit(&self) -> bool {
                audit_index(self.verif_terms())
            }
            fn query(&self, t: &ST) -> usize {
                self.quads_matching(sophia_api::term::matcher::Any, sophia_api::term::matcher::Any, [t], sophia_api::term::matcher::Any).count()
            }
            fn alt(&self) -> Vec<Vec<Value>> {
                use sophia_api::term::matcher::Any;
                let p = p_term();
                let subs: Vec<ST> = self.quads().map(|q| q.unwrap().s().into_term::<ST>()).collect();
                let by_p: Vec<Value> = self.quads_matching(Any, [&p], Any, Any).map(|q| term_json(q.unwrap().s())).collect();
                let (mut by_o, mut by_g, mut by_so, mut by_pg, mut by_s) = (vec![], vec![], vec![], vec![], vec![]);
                for x in &subs {
                    by_o.extend(self.quads_matching(Any, Any, [x], Any).map(|q| term_json(q.unwrap().s())));
                    by_g.extend(self.quads_matching(Any, Any, Any, [Some(x)]).map(|q| term_json(q.unwrap().s())));
                    by_so.extend(self.quads_matching([x], Any, [x], Any).map(|q| term_json(q.unwrap().s())));
                    by_pg.extend(self.quads_matching(Any, [&p], Any, [Some(x)]).map(|q| term_json(q.unwrap().s())));
                    by_s.extend(self.quads_matching([x], Any, Any, Any).map(|q| term_json(q.unwrap().s())));
                }
                vec![by_p, by_o, by_g, by_so, by_pg, by_s]
            }
        }
    };
}
mem_graph!(sophia_inmem::graph::GenericFastGraph<SimpleTermIndex<crate::store::Tiny3>>);
mem_dataset!(sophia_inmem::dataset::GenericFastDataset<SimpleTermIndex<crate::store::Tiny5>>);
mem_graph!(sophia_inmem::graph::FastGraph);
mem_graph!(sophia_inmem::graph::LightGraph);
mem_graph!(sophia_inmem::graph::small::FastGraph);
mem_graph!(sophia_inmem::graph::small::LightGraph);
mem_dataset!(sophia_inmem::dataset::FastDataset);
mem_dataset!(sophia_inmem::dataset::LightDataset);
mem_dataset!(sophia_inmem::dataset::small::FastDataset);
mem_dataset!(sophia_inmem::dataset::small::LightDataset);

fn observe<S: MemStore>(slots: &[Option<Box<S>>]) -> Value {
    let mut v = vec![];
    for (i, s) in slots.iter().enumerate() {
        if let Some(s) = s {
            let ok = s.audit();
            // an instance whose audit fails is NOT read: that would be the very undefined behaviour under test
            let content = if ok { sorted(s.content()) } else { json!([]) };
            let alt: Vec<Value> = if ok { s.alt().into_iter().map(sorted).collect() } else { vec![] };
            v.push(json!({"id": i, "audit": ok, "content": content, "alt": alt}));
        }
    }
    Value::Array(v)
}

/// terms for the model's abstract names
fn model_term(name: &str, pool: &[ST]) -> ST {
    match name {
        "t1" => pool[0].clone(),
        "t2" => pool[1].clone(),
        _ => pool[2].clone(),
    }
}
fn slot_of(name: &str) -> usize {
    name.trim_start_matches('x').parse::<usize>().unwrap() - 1
}

fn step<S: MemStore>(slots: &mut Vec<Option<Box<S>>>, op: &Value, pool: &[ST], tr: &mut Trace) {
    let o = op["op"].as_str().unwrap();
    let mut ev = json!({"ev": o});
    match o {
        "NewInst" => {
            let x = slot_of(op["x"].as_str().unwrap());
            slots[x] = Some(Box::new(S::default()));
            ev["x"] = json!(x);
        }
        "Ensure" => {
            let x = slot_of(op["x"].as_str().unwrap());
            let t = model_term(op["t"].as_str().unwrap(), pool);
            let ok = slots[x].as_mut().unwrap().add(&t);
            ev["x"] = json!(x);
            ev["t"] = term_json(&t);
            ev["ok"] = json!(ok);
        }
        "Del" => {
            let x = slot_of(op["x"].as_str().unwrap());
            let t = model_term(op["t"].as_str().unwrap(), pool);
            slots[x].as_mut().unwrap().del(&t);
            ev["x"] = json!(x);
            ev["t"] = term_json(&t);
            ev["removes"] = json!(S::CAN_DEL);
        }
        "Clone" => {
            let x = slot_of(op["x"].as_str().unwrap());
            let y = slot_of(op["y"].as_str().unwrap());
            let c = slots[x].as_ref().unwrap().as_ref().clone();
            slots[y] = Some(Box::new(c));
            ev["x"] = json!(x);
            ev["y"] = json!(y);
        }
        "CloneFrom" => {
            // y.clone_from(&x): reuses y's allocations
            let x = slot_of(op["x"].as_str().unwrap());
            let y = slot_of(op["y"].as_str().unwrap());
            if x != y {
                if let (Some(src), Some(mut dst)) = (slots[x].take(), slots[y].take()) {
                    (*dst).clone_from(&*src);
                    slots[x] = Some(src);
                    slots[y] = Some(dst);
                }
            }
            ev["x"] = json!(x);
            ev["y"] = json!(y);
        }
        "Drop" => {
            let x = slot_of(op["x"].as_str().unwrap());
            slots[x] = None;
            ev["x"] = json!(x);
        }
        "Swap" => {
            let x = slot_of(op["x"].as_str().unwrap());
            let y = slot_of(op["y"].as_str().unwrap());
            if let (Some(mut a), Some(mut b)) = (slots[x].take(), slots[y].take()) {
                std::mem::swap(&mut *a, &mut *b); // swap the VALUES (moves both structs in memory)
                slots[x] = Some(a);
                slots[y] = Some(b);
            }
            ev["x"] = json!(x);
            ev["y"] = json!(y);
        }
        "Move" => {
            let x = slot_of(op["x"].as_str().unwrap());
            if let Some(b) = slots[x].take() {
                let v: S = *b; // out of the box: the struct moves
                let mut vec = vec![v];
                vec.reserve(64); // and again when the vector reallocates
                let v = vec.pop().unwrap();
                slots[x] = Some(Box::new(v));
            }
            ev["x"] = json!(x);
        }
        "Grow" => {
            // cross the reallocation thresholds of the hash map and of the vector
            let x = slot_of(op["x"].as_str().unwrap());
            let n = op["n"].as_u64().unwrap_or(70) as usize;
            let base = op["base"].as_u64().unwrap_or(0) as usize;
            let mut added = vec![];
            for k in 0..n {
                let t = iri(&format!("http://ex/grow{}", base + k));
                if slots[x].as_mut().unwrap().add(&t) {
                    added.push(term_json(&t));
                }
            }
            ev["x"] = json!(x);
            ev["ts"] = json!(added);
        }
        "Read" => {
            let x = slot_of(op["x"].as_str().unwrap());
            ev["x"] = json!(x);
            if let Some(s) = slots[x].as_ref() {
                if s.audit() {
                    let t = model_term("t1", pool);
                    ev["n"] = json!(s.query(&t));
                }
            }
        }
        _ => panic!("mem op {o}"),
    }
    ev["obs"] = observe(slots);
    tr.emit(ev);
}

fn run_hist<S: MemStore>(name: &str, hist: &Value, pool: &[ST], tr: &mut Trace) {
    tr.emit(json!({"ev":"Reset","impl":name,"obs":[]}));
    let mut slots: Vec<Option<Box<S>>> = vec![None, None, None];
    let r = guarded(|| {
        for op in hist.as_array().unwrap() {
            step(&mut slots, op, pool, tr);
        }
    });
    if let Err(m) = r {
        tr.emit(json!({"ev":"Panic","msg":m,"obs":[]}));
        std::mem::forget(slots); // do not run destructors of possibly corrupted instances
    }
}

macro_rules! all_mem_impls {
    ($f:ident, $($a:expr),*) => {{
        $f::<SimpleTermIndex<crate::store::Tiny2>>("SimpleTermIndex<Tiny2>", $($a),*);
        $f::<SimpleTermIndex<crate::store::Tiny3>>("SimpleTermIndex<Tiny3>", $($a),*);
        $f::<sophia_inmem::graph::GenericFastGraph<SimpleTermIndex<crate::store::Tiny3>>>("FastGraph<Tiny3>", $($a),*);
        $f::<sophia_inmem::dataset::GenericFastDataset<SimpleTermIndex<crate::store::Tiny5>>>("FastDataset<Tiny5>", $($a),*);
        $f::<SimpleTermIndex<u16>>("SimpleTermIndex<u16>", $($a),*);
        $f::<SimpleTermIndex<u32>>("SimpleTermIndex<u32>", $($a),*);
        $f::<sophia_inmem::graph::FastGraph>("FastGraph", $($a),*);
        $f::<sophia_inmem::graph::LightGraph>("LightGraph", $($a),*);
        $f::<sophia_inmem::graph::small::FastGraph>("small::FastGraph", $($a),*);
        $f::<sophia_inmem::graph::small::LightGraph>("small::LightGraph", $($a),*);
        $f::<sophia_inmem::dataset::FastDataset>("FastDataset", $($a),*);
        $f::<sophia_inmem::dataset::LightDataset>("LightDataset", $($a),*);
        $f::<sophia_inmem::dataset::small::FastDataset>("small::FastDataset", $($a),*);
        $f::<sophia_inmem::dataset::small::LightDataset>("small::LightDataset", $($a),*);
    }};
}

fn pools() -> Vec<Vec<ST>> {
    let a = iri("http://ex/a");
    let p = iri("http://ex/p");
    vec![
        vec![a.clone(), bn("b1"), lit_lang("chat", "en")],
        vec![lit_dt("12", &format!("{XSD}integer")), quoted(a.clone(), p.clone(), lit_lang("l", "en")), var("x")],
        vec![quoted(quoted(a.clone(), p.clone(), bn("b")), p.clone(), lit_dt("\u{1F600}", &format!("{XSD}string"))), lit_dt("", &format!("{XSD}string")), iri("x:y")],
    ]
}

fn replay_all<S: MemStore>(name: &str, hists: &[Value], tr: &mut Trace) {
    let ps = pools();
    for (n, h) in hists.iter().enumerate() {
        run_hist::<S>(name, h, &ps[n % ps.len()], tr);
    }
}

fn random_all<S: MemStore>(name: &str, rng: &mut Rng, nhist: usize, len: usize, tr: &mut Trace) {
    let ps = pools();
    let xs = ["x1", "x2", "x3"];
    let ts = ["t1", "t2", "t3"];
    for n in 0..nhist {
        let mut live = [false, false, false];
        let mut ops: Vec<Value> = vec![];
        let mut base = 0;
        for _ in 0..len {
            let x = rng.below(3);
            let k = rng.below(100);
            if !live[x] {
                if k < 50 || !live.iter().any(|b| *b) {
                    ops.push(json!({"op":"NewInst","x":xs[x]}));
                    live[x] = true;
                } else {
                    let src = (0..3).find(|i| live[*i]).unwrap();
                    ops.push(json!({"op":"Clone","x":xs[src],"y":xs[x]}));
                    live[x] = true;
                }
                continue;
            }
            if k < 30 {
                ops.push(json!({"op":"Ensure","x":xs[x],"t":*rng.pick(&ts)}));
            } else if k < 38 {
                ops.push(json!({"op":"Del","x":xs[x],"t":*rng.pick(&ts)}));
            } else if k < 55 {
                let y = (x + 1 + rng.below(2)) % 3;
                if live[y] && rng.chance(1, 2) {
                    ops.push(json!({"op":"CloneFrom","x":xs[x],"y":xs[y]}));
                } else {
                    // cloning over a live instance drops the old one
                    ops.push(json!({"op":"Clone","x":xs[x],"y":xs[y]}));
                    live[y] = true;
                }
            } else if k < 70 {
                ops.push(json!({"op":"Drop","x":xs[x]}));
                live[x] = false;
            } else if k < 78 {
                let y = (x + 1) % 3;
                if live[y] {
                    ops.push(json!({"op":"Swap","x":xs[x],"y":xs[y]}));
                }
            } else if k < 85 {
                ops.push(json!({"op":"Move","x":xs[x]}));
            } else if k < 92 {
                ops.push(json!({"op":"Grow","x":xs[x],"n":40 + rng.below(60),"base":base}));
                base += 50;
            } else {
                ops.push(json!({"op":"Read","x":xs[x]}));
            }
        }
        run_hist::<S>(name, &Value::Array(ops), &ps[n % ps.len()], tr);
    }
}

pub fn main(args: &[String]) {
    quiet_panics();
    let seed = arg_u64(args, "--seed", 1);
    let out = arg(args, "--out").expect("--out");
    let mut tr = Trace::create(out);
    if let Some(gen_path) = arg(args, "--gen") {
        let txt = std::fs::read_to_string(gen_path).expect("gen file");
        let hists: Vec<Value> = txt.lines().filter(|l| !l.trim().is_empty()).map(|l| serde_json::from_str(l).unwrap()).collect();
        all_mem_impls!(replay_all, &hists, &mut tr);
    }
    let nhist = arg_u64(args, "--hist", 20) as usize;
    let len = arg_u64(args, "--len", 30) as usize;
    let mut rng = Rng::new(seed ^ 0x10);
    all_mem_impls!(random_all, &mut rng, nhist, len, &mut tr);
    foreign_indices(&mut tr);
    adversarial_terms(&mut tr);
    println!("events {}", tr.finish());
}

/// A safe but inconsistent `Term`: a literal whose lexical form is "fresh<n>" for its first `switch` reads and "k1" afterwards.
/// Nothing obliges a `Term` implementation to answer the same twice; whatever the store makes of it, it must stay self-contained.
#[derive(Debug)]
struct Ticket {
    reads: std::cell::Cell<usize>,
    switch: usize,
}
impl sophia_api::term::Term for Ticket {
    type BorrowTerm<'x> = &'x Self;
    fn kind(&self) -> sophia_api::term::TermKind {
        sophia_api::term::TermKind::Literal
    }
    fn borrow_term(&self) -> Self::BorrowTerm<'_> {
        self
    }
    fn lexical_form(&self) -> Option<sophia_api::MownStr<'_>> {
        let n = self.reads.get();
        self.reads.set(n + 1);
        Some(if n < self.switch { sophia_api::MownStr::from(format!("fresh{n}")) } else { sophia_api::MownStr::from("k1") })
    }
    fn datatype(&self) -> Option<sophia_api::term::IriRef<sophia_api::MownStr<'_>>> {
        Some(sophia_api::term::IriRef::new_unchecked(sophia_api::MownStr::from("http://www.w3.org/2001/XMLSchema#string")))
    }
    fn language_tag(&self) -> Option<sophia_api::term::LanguageTag<sophia_api::MownStr<'_>>> {
        None
    }
}
fn adversarial_terms(tr: &mut Trace) {
    use sophia_inmem::index::{SimpleTermIndex, TermIndex};
    fn run<I: Index + Default>(name: &str, tr: &mut Trace) {
        for switch in 0..10usize {
            let mut idx = SimpleTermIndex::<I>::default();
            let k1 = lit_dt("k1", &format!("{XSD}string"));
            let _ = idx.ensure_index(&k1);
            let _ = idx.ensure_index(&iri("http://ex/other"));
            let r = guarded(|| {
                let t = Ticket { reads: std::cell::Cell::new(0), switch };
                let _ = idx.ensure_index(&t);
                // make the allocator hand the freed blocks out again before reading back
                let junk: Vec<String> = (0..64).map(|k| format!("k{k}ZZZZZZZZ")).collect();
                let audit = MemStore::audit(&idx);
                let content = if audit { MemStore::content(&idx) } else { vec![] };
                drop(junk);
                (audit, content)
            });
            let allowed: Vec<Value> = std::iter::once(term_json(&k1)).chain(std::iter::once(term_json(&iri("http://ex/other")))).chain((0..switch.max(1) + 12).map(|n| term_json(&lit_dt(&format!("fresh{n}"), &format!("{XSD}string"))))).collect();
            match r {
                Ok((audit, content)) => tr.emit(json!({"ev":"Adversary","impl":name,"switch":switch,"audit":audit,"content":content,"allowed":allowed,"obs":[]})),
                Err(m) => tr.emit(json!({"ev":"Adversary","impl":name,"switch":switch,"audit":true,"content":[],"allowed":allowed,"panic":m,"obs":[]})),
            }
        }
    }
    run::<u16>("SimpleTermIndex<u16>", tr);
    run::<u32>("SimpleTermIndex<u32>", tr);
}

/// `get_term` / `get_graph_name` with an index this term index never issued (one past the end, far past the end, an index issued by a
/// clone that kept growing, the reserved default-graph index): the documented outcome is a panic; whatever happens, safe code can only
/// get a panic or one of the index's own terms - never memory the index does not own.
fn foreign_indices(tr: &mut Trace) {
    use sophia_inmem::index::{GraphNameIndex, SimpleTermIndex, TermIndex};
    fn probe<I: sophia_inmem::index::Index + std::fmt::Debug>(name: &str, tr: &mut Trace)
    where
        I: TryFrom<usize>,
    {
        for n in [0usize, 1, 3, 40] {
            let mut idx = SimpleTermIndex::<I>::new();
            let mut own: Vec<Value> = vec![];
            for k in 0..n {
                let t = iri(&format!("http://ex/own{k}"));
                if idx.ensure_index(&t).is_ok() {
                    own.push(term_json(&t));
                }
            }
            let mut bigger = idx.clone();
            for k in 0..5 {
                let _ = bigger.ensure_index(&iri(&format!("http://ex/more{k}")));
            }
            for (what, j) in [("one-past-the-end", n), ("far-past-the-end", n + 1000), ("issued-by-a-clone-that-grew", n + 4)] {
                let Ok(i) = I::try_from(j) else { continue };
                let out = match guarded(|| term_json(idx.get_term(i))) {
                    Err(_) => json!({"k":"panic"}),
                    Ok(t) => json!({"k": if own.contains(&t) { "own-term" } else { "foreign" }, "t": t}),
                };
                tr.emit(json!({"ev":"ForeignIndex","impl":name,"len":n,"what":what,"via":"get_term","out":out,"obs":[]}));
            }
            let dg = idx.get_default_graph_index();
            let out = match guarded(|| idx.get_graph_name(dg).map(term_json)) {
                Err(_) => json!({"k":"panic"}),
                Ok(None) => json!({"k":"default-graph"}),
                Ok(Some(t)) => json!({"k": if own.contains(&t) { "own-term" } else { "foreign" }, "t": t}),
            };
            tr.emit(json!({"ev":"ForeignIndex","impl":name,"len":n,"what":"default-graph-index","via":"get_graph_name","out":out,"obs":[]}));
            let out = match guarded(|| term_json(idx.get_term(dg))) {
                Err(_) => json!({"k":"panic"}),
                Ok(t) => json!({"k": if own.contains(&t) { "own-term" } else { "foreign" }, "t": t}),
            };
            tr.emit(json!({"ev":"ForeignIndex","impl":name,"len":n,"what":"default-graph-index","via":"get_term","out":out,"obs":[]}));
        }
    }
    probe::<u16>("SimpleTermIndex<u16>", tr);
    probe::<u32>("SimpleTermIndex<u32>", tr);
}
