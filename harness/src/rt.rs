//! C04 / C12 / C18 drivers: serialise generated graphs/datasets (Turtle, TriG, JSON-LD, RDF/XML; every configuration),
//! parse the result back, log input and output.  Each input runs in a child process (isolate.rs): the pretty-printers
//! can loop forever or exhaust memory on some shapes, and that must be an observation, not the end of the check.
use crate::isolate::{Part, run_isolated};
use crate::store::{Q, q_json};
use crate::util::*;
use serde_json::{Value, json};
use sophia_api::prefix::{Prefix, PrefixMapPair};
use sophia_api::quad::Quad;
use sophia_api::serializer::{QuadSerializer, Stringifier, TripleSerializer};
use sophia_api::source::{QuadSource, TripleSource};
use sophia_api::term::GraphName;
use sophia_api::triple::Triple;
use sophia_iri::Iri;
use sophia_turtle::serializer::trig::TrigSerializer;
use sophia_turtle::serializer::turtle::{TurtleConfig, TurtleSerializer};

fn rdf(s: &str) -> ST {
    iri(&format!("{RDF}{s}"))
}
fn b(i: usize) -> ST {
    bn(&format!("b{i}"))
}

const NUMS: [(&str, &str); 22] = [
    ("15", "integer"), ("-15", "integer"), ("+15", "integer"), ("015", "integer"), ("1.5", "integer"), ("", "integer"),
    ("15", "decimal"), ("1.5", "decimal"), ("1.", "decimal"), (".5", "decimal"), ("1e5", "decimal"), ("1x5", "decimal"), ("-.5", "decimal"),
    ("1e5", "double"), ("1.5E-3", "double"), ("15", "double"), ("1.5", "double"), ("1x5e1", "double"), ("INF", "double"),
    ("true", "boolean"), ("True", "boolean"), ("1", "boolean"),
];

/// well-known and look-alike datatype IRIs: every one of them must survive a round trip unchanged
pub const DATATYPES: [&str; 18] = [
    "http://www.w3.org/1999/02/22-rdf-syntax-ns#PlainLiteral", "http://www.w3.org/1999/02/22-rdf-syntax-ns#HTML", "http://www.w3.org/1999/02/22-rdf-syntax-ns#XMLLiteral",
    "http://www.w3.org/1999/02/22-rdf-syntax-ns#JSONx", "http://www.w3.org/2001/XMLSchema#String", "http://www.w3.org/2001/XMLSchema#strin", "http://www.w3.org/2001/XMLSchema#string2",
    "http://www.w3.org/2001/XMLSchema#normalizedString", "http://www.w3.org/2001/XMLSchema#hexstring", "http://www.w3.org/2001/XMLSchema#langstring", "http://www.w3.org/2001/XMLSchema#anyURI", "http://www.w3.org/2001/XMLSchema#token", "http://www.w3.org/2001/XMLSchema#",
    "http://www.w3.org/2001/XMLSchema#dateTime", "http://www.w3.org/2001/XMLSchema#int", "http://www.w3.org/2002/07/owl#real", "http://www.w3.org/2000/01/rdf-schema#Literal", "urn:dt",
];
pub fn rand_object(rng: &mut Rng, nb: usize) -> ST {
    match rng.below(14) {
        0..=3 => b(rng.below(nb)),
        4 => iri("http://ex/a"),
        5 => rdf("nil"),
        6 => rdf("List"),
        7 => lit_lang("chat", "fr-BE"),
        8 => lit_dt("a \"quoted\"\nline <b>&amp;\\ \t", &format!("{XSD}string")),
        9 => iri(*rng.pick(&["http://ex/#x.y", "http://ex/a/b", "http://ex/x.", "http://ex/é", "http://ex/a%20b", "http://ex/", "http://other/x"])),
        10 | 11 => {
            let (lex, dt) = *rng.pick(&NUMS);
            lit_dt(lex, &format!("{XSD}{dt}"))
        }
        12 => if rng.chance(1, 2) { lit_dt("x", "http://ex/dt") } else { lit_dt(*rng.pick(&["abc", "", "1"]), *rng.pick(&DATATYPES)) },
        _ => lit_dt("", &format!("{XSD}string")),
    }
}

/// graph shapes: blank-node cycles, shared / unreferenced blank nodes, well-formed and malformed list structures,
/// asserted-and-quoted triples, blank nodes spanning several graphs
pub fn rand_shape(rng: &mut Rng, star: bool, graphs: bool) -> Vec<Q> {
    let nb = 1 + rng.below(3);
    let n = 1 + rng.below(6);
    let preds = [iri("http://ex/p"), iri("http://ex/q"), rdf("first"), rdf("rest"), rdf("type"), rdf("first"), rdf("rest")];
    let gs: Vec<GraphName<ST>> = if graphs { vec![None, None, Some(iri("http://ex/g")), Some(b(0)), Some(b(9))] } else { vec![None] };
    let mut d: Vec<Q> = vec![];
    let push = |d: &mut Vec<Q>, q: Q| {
        if !d.iter().any(|x| crate::iso::same_quad(x, &q)) {
            d.push(q);
        }
    };
    for _ in 0..n {
        let s = if rng.chance(4, 5) { b(rng.below(nb)) } else { iri("http://ex/a") };
        let p = rng.pick(&preds).clone();
        let o = rand_object(rng, nb);
        let g = rng.pick(&gs).clone();
        push(&mut d, ([s, p, o], g));
    }
    // sometimes several values of ONE subject and predicate that share their lexical form and differ in datatype / language only
    if rng.chance(1, 5) {
        let s = if rng.chance(1, 2) { b(0) } else { iri("http://ex/a") };
        let g = rng.pick(&gs).clone();
        let lex = *rng.pick(&["1", "true", "abc"]);
        let variants: Vec<ST> = vec![
            lit_dt(lex, &format!("{XSD}string")), lit_dt(lex, &format!("{XSD}integer")), lit_dt(lex, &format!("{XSD}boolean")), lit_dt(lex, &format!("{XSD}double")),
            lit_dt(lex, "urn:dt"), lit_lang(lex, "en"), lit_lang(lex, "fr"), iri(&format!("http://ex/{lex}")),
        ];
        for _ in 0..2 + rng.below(3) {
            push(&mut d, ([s.clone(), iri("http://ex/p"), rng.pick(&variants).clone()], g.clone()));
        }
    }
    // sometimes a well-formed list hanging from a node
    if rng.chance(1, 3) {
        let len = 1 + rng.below(2);
        let g = rng.pick(&gs).clone();
        let head = 10;
        push(&mut d, ([iri("http://ex/a"), iri("http://ex/p"), b(head)], g.clone()));
        for i in 0..len {
            push(&mut d, ([b(head + i), rdf("first"), rand_object(rng, nb)], g.clone()));
            let rest = if i + 1 == len { rdf("nil") } else { b(head + i + 1) };
            push(&mut d, ([b(head + i), rdf("rest"), rest], g.clone()));
        }
    }
    // sometimes a MALFORMED list: one cell carries an extra rdf:first, an extra rdf:rest, another property, an rdf:List type,
    // or the list is referenced zero or two times
    if rng.chance(1, 3) {
        let g = rng.pick(&gs).clone();
        let (c0, c1) = (20, 21);
        let refs = *rng.pick(&[0usize, 1, 1, 1, 2]);
        for r in 0..refs {
            push(&mut d, ([iri("http://ex/a"), if r == 0 { iri("http://ex/p") } else { iri("http://ex/q") }, b(c0)], g.clone()));
        }
        push(&mut d, ([b(c0), rdf("first"), rand_object(rng, nb)], g.clone()));
        let two = rng.chance(1, 2);
        push(&mut d, ([b(c0), rdf("rest"), if two { b(c1) } else { rdf("nil") }], g.clone()));
        if two {
            push(&mut d, ([b(c1), rdf("first"), rand_object(rng, nb)], g.clone()));
            push(&mut d, ([b(c1), rdf("rest"), rdf("nil")], g.clone()));
        }
        let victim = if two && rng.chance(1, 2) { c1 } else { c0 };
        match rng.below(5) {
            0 => push(&mut d, ([b(victim), rdf("first"), iri("http://ex/second-value")], g.clone())),
            1 => push(&mut d, ([b(victim), rdf("rest"), b(0)], g.clone())),
            2 => push(&mut d, ([b(victim), iri("http://ex/p"), iri("http://ex/extra")], g.clone())),
            3 => push(&mut d, ([b(victim), rdf("type"), rdf("List")], g.clone())),
            _ => {}
        }
    }
    // asserted-and-quoted triples (annotation syntax) and other quoted triples
    if star && rng.chance(1, 2) && !d.is_empty() {
        let q0 = rng.pick(&d).clone();
        let qt = quoted(q0.0[0].clone(), q0.0[1].clone(), q0.0[2].clone());
        if !matches!(q0.0[2], sophia_api::term::SimpleTerm::Triple(_)) {
            // the quoting statement sits in the graph of the asserted triple, or (one time in three) in another graph
            let qg = if rng.chance(2, 3) { q0.1.clone() } else { rng.pick(&gs).clone() };
            if rng.chance(2, 3) {
                push(&mut d, ([qt.clone(), iri("http://ex/q"), rand_object(rng, nb)], qg));
            } else {
                push(&mut d, ([iri("http://ex/a"), iri("http://ex/q"), qt.clone()], qg));
            }
        }
    }
    d
}

/// JSON-LD specific shapes: i18n-datatype literals, compound literals (canonical and near-canonical), rdf:JSON literals
pub fn jsonld_shapes(rng: &mut Rng, d: &mut Vec<Q>) {
    let gs: Vec<GraphName<ST>> = vec![None, None, Some(iri("http://ex/g")), Some(b(9))];
    let push = |d: &mut Vec<Q>, q: Q| {
        if !d.iter().any(|x| crate::iso::same_quad(x, &q)) {
            d.push(q);
        }
    };
    let g = rng.pick(&gs).clone();
    match rng.below(6) {
        5 => {
            // lists that contain themselves: an item of a cell is the head of its own list, the cell itself, or the head of a list
            // that contains the first one
            let (h, c2, h2) = (60, 61, 62);
            push(d, ([b(h), rdf("first"), iri("http://ex/i1")], g.clone()));
            push(d, ([b(h), rdf("rest"), b(c2)], g.clone()));
            let item = match rng.below(3) { 0 => b(h), 1 => b(c2), _ => b(h2) };
            push(d, ([b(c2), rdf("first"), item], g.clone()));
            push(d, ([b(c2), rdf("rest"), rdf("nil")], g.clone()));
            if rng.chance(1, 2) {
                push(d, ([b(h2), rdf("first"), b(h)], g.clone()));
                push(d, ([b(h2), rdf("rest"), rdf("nil")], g.clone()));
            }
            if rng.chance(1, 2) {
                push(d, ([iri("http://ex/a"), iri("http://ex/p"), b(h)], g.clone()));
            }
        }
        4 => {
            // several values of one subject and property that become EQUAL JSON values: distinct lists with item-wise equal content
            // (same or different length), next to plain values equal to their items
            let s = if rng.chance(1, 2) { iri("http://ex/a") } else { b(0) };
            let items = [iri("http://ex/i1"), lit_dt("2", &format!("{XSD}integer"))];
            let mut cell = 50;
            for _ in 0..2 + rng.below(2) {
                let len = 1 + rng.below(2);
                push(d, ([s.clone(), iri("http://ex/p"), b(cell)], g.clone()));
                for k in 0..len {
                    push(d, ([b(cell + k), rdf("first"), items[k].clone()], g.clone()));
                    push(d, ([b(cell + k), rdf("rest"), if k + 1 < len { b(cell + k + 1) } else { rdf("nil") }], g.clone()));
                }
                cell += 4;
            }
            if rng.chance(1, 2) {
                push(d, ([s.clone(), iri("http://ex/p"), items[0].clone()], g.clone()));
            }
            if rng.chance(1, 3) {
                push(d, ([s, iri("http://ex/p"), rdf("nil")], g.clone()));
            }
        }
        3 => {
            // a well-formed list whose parent statement, or whose cells, are unusual: parent predicate rdf:type / rdf:first / rdf:rest,
            // blank parent; a cell that also names a graph, is described in another graph, or is referenced from elsewhere
            let (c0, c1) = (40, 41);
            let parent_s = if rng.chance(1, 2) { iri("http://ex/a") } else { b(0) };
            let parent_p = rng.pick(&[iri("http://ex/p"), rdf("type"), rdf("first"), rdf("rest"), rdf("value")]).clone();
            push(d, ([parent_s, parent_p, b(c0)], g.clone()));
            push(d, ([b(c0), rdf("first"), iri("http://ex/i1")], g.clone()));
            push(d, ([b(c0), rdf("rest"), b(c1)], g.clone()));
            push(d, ([b(c1), rdf("first"), lit_dt("2", &format!("{XSD}integer"))], g.clone()));
            push(d, ([b(c1), rdf("rest"), rdf("nil")], g.clone()));
            let cell = if rng.chance(1, 2) { c0 } else { c1 };
            match rng.below(6) {
                0 => push(d, ([iri("http://ex/a"), iri("http://ex/p"), iri("http://ex/o")], Some(b(cell)))),   // the cell names a graph
                1 => push(d, ([b(cell), iri("http://ex/p"), iri("http://ex/o")], Some(iri("http://ex/g2")))),     // described in another graph
                2 => push(d, ([iri("http://ex/a"), iri("http://ex/q"), b(cell)], Some(iri("http://ex/g2")))),     // referenced from another graph
                3 => push(d, ([iri("http://ex/b"), iri("http://ex/q"), b(cell)], g.clone())),                     // referenced twice
                _ => {}
            }
        }
        0 => {
            let dt = *rng.pick(&["he_rtl", "en-us_ltr", "_rtl", "_ltr", "fr_rtl"]);
            let subj = if rng.chance(1, 2) { iri("http://ex/a") } else { b(0) };
            push(d, ([subj, iri("http://ex/p"), lit_dt("shalom", &format!("https://www.w3.org/ns/i18n#{dt}"))], g));
        }
        1 => {
            let c = 30;
            let refs = *rng.pick(&[1usize, 1, 1, 1, 0, 2]);
            for r in 0..refs {
                push(d, ([if r == 0 { iri("http://ex/a") } else { b(0) }, if r == 0 { iri("http://ex/p") } else { iri("http://ex/q") }, b(c)], g.clone()));
            }
            let xs = format!("{XSD}string");
            push(d, ([b(c), rdf("value"), lit_dt("shalom", &xs)], g.clone()));
            push(d, ([b(c), rdf("direction"), lit_dt(*rng.pick(&["rtl", "ltr"]), &xs)], g.clone()));
            if rng.chance(2, 3) {
                push(d, ([b(c), rdf("language"), lit_dt(*rng.pick(&["he", "en-us"]), &xs)], g.clone()));
            }
            match rng.below(8) {
                0 => push(d, ([b(c), iri("http://ex/p"), iri("http://ex/extra")], g.clone())),
                1 => push(d, ([b(c), rdf("value"), lit_dt("second", &xs)], g.clone())),
                2 => push(d, ([b(c), iri("http://ex/p"), iri("http://ex/elsewhere")], Some(iri("http://ex/g2")))),
                _ => {}
            }
        }
        _ => {
            let js = *rng.pick(&["{\"a\":1}", "[1,\"x\"]", "\"str\"", "null", "true", "1", "{\"a\":{\"b\":[]}}", "{}", "[]"]);
            let subj = if rng.chance(1, 2) { iri("http://ex/a") } else { b(0) };
            push(d, ([subj, iri("http://ex/p"), lit_dt(js, &format!("{RDF}JSON"))], g));
        }
    }
}

/// RDF/XML specific shapes: text over markup characters, whitespace runs, leading/trailing newlines, non-BMP and XML-illegal
/// characters; language tags; datatypes incl. rdf:XMLLiteral; predicates with various namespace split points (and none)
pub fn xml_shapes(rng: &mut Rng, d: &mut Vec<Q>) {
    // (the first LEGAL entries are XML Char; the last four are not)
    const LEGAL: usize = 32;
    const PIECES: [&str; 36] = ["<", ">", "&", "\"", "'", " ", "  ", "\n", "\r", "\r\n", "\t", "]]>", "<b>", "</b>", "&amp;", "&#10;", "<!--", "-->", "<?x?>", "a", "é", "\u{1F600}", "\u{85}", "\u{2028}",
        "\u{FFFD}", "x y", "\u{10000}", "\u{EFFFF}", "\u{F0000}", "\u{FFFFD}", "\u{100000}", "\u{10FFFF}", "\u{1}", "\u{B}", "\u{FFFE}", "\u{FFFF}"];
    const PREDS: [&str; 26] = ["http://ex/p", "http://ex/ns#p", "http://ex/a/b.c", "http://ex/1p", "http://ex/p-1", "urn:x:p", "http://ex/é", "http://ex/a%20b", "http://ex/x:y", "http://ex/ns#", "http://ex/",
        "http://ex/p1/", "http://ex/_", "http://ex/a.b-c_d", "http://www.w3.org/1999/02/22-rdf-syntax-ns#_1", "http://www.w3.org/1999/02/22-rdf-syntax-ns#li", "http://www.w3.org/1999/02/22-rdf-syntax-ns#Description",
        "http://www.w3.org/1999/02/22-rdf-syntax-ns#about", "http://www.w3.org/1999/02/22-rdf-syntax-ns#value", "http://ex/ns#1", "http://ex/\u{1F600}p", "http://ex/ns?q=p", "urn:x:1", "http://ex/ns:42", "http://ex/a:", "urn:x:p:-"];
    let n = 1 + rng.below(4);
    for _ in 0..n {
        const LABELS: [&str; 8] = ["0", "_0", "1a", "a.b", "é", "b0", "__0", "a-b"];
        let odd = rng.chance(1, 4);
        let s = if rng.chance(1, 2) { if odd { bn(*rng.pick(&LABELS)) } else { b(rng.below(3)) } } else { iri(*rng.pick(&["http://ex/a", "http://ex/a&b", "http://ex/a'b", "http://ex/a;b=c&d", "http://ex/é"])) };
        let p = iri(*rng.pick(&PREDS));
        let legal_only = rng.chance(3, 4);
        let k = rng.below(5);
        let mut txt = String::new();
        for _ in 0..k {
            let piece = if legal_only { PIECES[rng.below(LEGAL)] } else { PIECES[rng.below(PIECES.len())] };
            txt.push_str(piece);
        }
        let o = match rng.below(8) {
            0 => if odd { bn(*rng.pick(&LABELS)) } else { b(rng.below(3)) },
            1 => iri(*rng.pick(&["http://ex/a", "http://ex/o?x=1&y=2", "http://ex/o'q", "http://ex/o#f&g"])),
            2 => lit_lang(&txt, *rng.pick(&["en", "fr-BE", "x-a"])),
            3 => lit_dt(&txt, &format!("{RDF}XMLLiteral")),
            4 => if rng.chance(1, 2) { lit_dt(&txt, *rng.pick(&["http://ex/dt", "http://ex/dt?a=1&b=2"])) } else { lit_dt(&txt, *rng.pick(&DATATYPES)) },
            _ => lit_dt(&txt, &format!("{XSD}string")),
        };
        let q: Q = ([s, p, o], None);
        if !d.iter().any(|x| crate::iso::same_quad(x, &q)) {
            d.push(q);
        }
    }
}

pub fn prefix_map(k: usize) -> Vec<PrefixMapPair> {
    let mk = |p: &str, ns: &str| -> PrefixMapPair { (Prefix::new_unchecked(p.into()), Iri::new_unchecked(ns.into())) };
    match k % 6 {
        0 => TurtleConfig::default_prefix_map(),
        1 => vec![],
        2 => vec![mk("ex", "http://ex/")],
        3 => vec![mk("ex", "http://ex/"), mk("exa", "http://ex/a"), mk("rdf", RDF)],
        4 => vec![mk("", "http://ex/"), mk("xsd", XSD)],
        _ => vec![mk("exa", "http://ex/a/"), mk("ex", "http://ex/"), mk("h", "http://ex/#"), mk("rdf", RDF), mk("xsd", XSD)],
    }
}
const INDENTS: [&str; 3] = ["  ", "", "\t"];

fn out_json(r: Result<Vec<Value>, String>) -> Value {
    match r {
        Ok(v) => json!({"ok": true, "quads": v, "msg": ""}),
        Err(e) => json!({"ok": false, "quads": [], "msg": e}),
    }
}

/// one input, fully determined by (seed, idx)
pub struct Input {
    pub fmt: &'static str,
    pub pretty: bool,
    pub pm: usize,
    pub indent: usize,
    pub d: Vec<Q>,
}
static MODEL_GRAPHS: std::sync::OnceLock<Vec<Vec<[String; 3]>>> = std::sync::OnceLock::new();
static MODEL_DATASETS: std::sync::OnceLock<Vec<Vec<[String; 4]>>> = std::sync::OnceLock::new();
/// datasets printed by Gen_JsonLdSer: {"d":[[s,p,o,g],...]}
pub fn load_model_datasets(path: &str) -> usize {
    let txt = std::fs::read_to_string(path).expect("gen file");
    let v: Vec<Vec<[String; 4]>> = txt
        .lines()
        .filter(|l| !l.trim().is_empty())
        .map(|l| {
            let g: Value = serde_json::from_str(l).unwrap();
            g["d"].as_array().unwrap().iter().map(|t| [0, 1, 2, 3].map(|i| t[i].as_str().unwrap().to_string())).collect()
        })
        .collect();
    let n = v.len();
    let _ = MODEL_DATASETS.set(v);
    n
}
pub fn load_model_graphs(path: &str) -> usize {
    let txt = std::fs::read_to_string(path).expect("gen file");
    let v: Vec<Vec<[String; 3]>> = txt
        .lines()
        .filter(|l| !l.trim().is_empty())
        .map(|l| {
            let g: Value = serde_json::from_str(l).unwrap();
            g["d"].as_array().unwrap().iter().map(|t| [t[0].as_str().unwrap().to_string(), t[1].as_str().unwrap().to_string(), t[2].as_str().unwrap().to_string()]).collect()
        })
        .collect();
    let n = v.len();
    let _ = MODEL_GRAPHS.set(v);
    n
}
fn model_term(name: &str) -> ST {
    match name {
        "b1" | "b2" | "b3" => bn(name),
        "a" => iri("http://ex/a"),
        "nil" => rdf("nil"),
        "p" => iri("http://ex/p"),
        "first" => rdf("first"),
        "type" => rdf("type"),
        "List" => rdf("List"),
        "g" => iri("http://ex/g"),
        _ => rdf("rest"),
    }
}
pub fn input_of(seed: u64, idx: usize, family: &str) -> Input {
    if family == "jsonld-model" {
        let g = &MODEL_DATASETS.get().expect("model datasets")[idx];
        let d: Vec<Q> = g.iter().map(|t| ([model_term(&t[0]), model_term(&t[1]), model_term(&t[2])], if t[3] == "dg" { None } else { Some(model_term(&t[3])) })).collect();
        // processing mode 1.1, use_rdf_type = false, no rdf_direction: the configuration JsonLdSer.tla transcribes (pm even and not a multiple of 3)
        return Input { fmt: "jsonld", pretty: idx % 2 == 0, pm: 2, indent: 0, d };
    }
    if family == "turtle-model" {
        let g = &MODEL_GRAPHS.get().expect("model graphs")[idx];
        let trig = idx % 5 == 4;
        let gname = if trig { Some(iri("http://ex/g")) } else { None };
        let d: Vec<Q> = g.iter().map(|t| ([model_term(&t[0]), model_term(&t[1]), model_term(&t[2])], gname.clone())).collect();
        return Input { fmt: if trig { "trig" } else { "turtle" }, pretty: true, pm: idx % 6, indent: idx % 3, d };
    }
    let mut rng = Rng::new(seed ^ (idx as u64).wrapping_mul(0x9E37_79B9) ^ 0x04);
    let fmt = match family {
        "turtle" => if idx % 2 == 0 { "turtle" } else { "trig" },
        f => match f { "jsonld" => "jsonld", _ => "xml" },
    };
    let graphs = fmt == "trig" || fmt == "jsonld";
    let d = rand_shape(&mut rng, fmt != "jsonld" && fmt != "xml" && idx % 3 == 0, graphs);
    let mut d: Vec<Q> = if fmt == "turtle" || fmt == "xml" { d.into_iter().map(|q| (q.0, None)).collect() } else { d };
    if fmt == "jsonld" && rng.chance(1, 2) {
        jsonld_shapes(&mut rng, &mut d);
    }
    if fmt == "xml" {
        if rng.chance(1, 4) {
            d.truncate(2);
        }
        xml_shapes(&mut rng, &mut d);
    }
    Input { fmt, pretty: idx % 4 != 3, pm: rng.below(6), indent: rng.below(3), d }
}
pub fn describe(i: &Input) -> Value {
    json!({"fmt":i.fmt,"pretty":i.pretty,"pm":i.pm,"indent":i.indent,"in":i.d.iter().map(q_json).collect::<Vec<_>>()})
}

fn run_turtle(i: &Input) -> Value {
    let cfg = TurtleConfig::new().with_pretty(i.pretty).with_own_prefix_map(prefix_map(i.pm)).with_indentation(INDENTS[i.indent]);
    // every third dataset is written to a target that takes a few bytes per call (io::Write::write may accept less than it is given)
    let trickle = i.d.len() % 3 == 2;
    let text: Result<String, String> = guarded(|| {
        if trickle {
            let buf = std::rc::Rc::new(std::cell::RefCell::new(Vec::<u8>::new()));
            if i.fmt == "turtle" {
                let mut s = TurtleSerializer::new_with_config(crate::rt2::ShortWrites(buf.clone()), cfg.clone());
                s.serialize_triples(i.d.iter().map(|q| q.0.clone()).map(Ok::<_, std::convert::Infallible>)).map_err(|e| e.to_string())?;
            } else {
                let mut s = TrigSerializer::new_with_config(crate::rt2::ShortWrites(buf.clone()), cfg.clone());
                s.serialize_quads(i.d.iter().cloned().map(Ok::<_, std::convert::Infallible>)).map_err(|e| e.to_string())?;
            }
            let t = String::from_utf8_lossy(&buf.borrow()).to_string();
            return Ok(t);
        }
        if i.fmt == "turtle" {
            let mut s = TurtleSerializer::new_stringifier_with_config(cfg.clone());
            s.serialize_triples(i.d.iter().map(|q| q.0.clone()).map(Ok::<_, std::convert::Infallible>)).map_err(|e| e.to_string())?;
            Ok(String::from_utf8_lossy(s.as_utf8()).to_string())
        } else {
            let mut s = TrigSerializer::new_stringifier_with_config(cfg.clone());
            s.serialize_quads(i.d.iter().cloned().map(Ok::<_, std::convert::Infallible>)).map_err(|e| e.to_string())?;
            Ok(String::from_utf8_lossy(s.as_utf8()).to_string())
        }
    })
    .unwrap_or_else(|p| Err(format!("PANIC {p}")));
    let mut ev = describe(i);
    ev["ev"] = json!("RT");
    match text {
        Err(e) => {
            ev["serok"] = json!(false);
            ev["text"] = json!([]);
            ev["out"] = out_json(Err(e));
        }
        Ok(t) => {
            let out: Result<Vec<Value>, String> = guarded(|| {
                let mut v = vec![];
                if i.fmt == "turtle" {
                    sophia_turtle::parser::turtle::parse_str(&t).for_each_triple(|x| v.push(quad_json(x.s(), x.p(), x.o(), None::<ST>))).map_err(|e| e.to_string())?;
                } else {
                    sophia_turtle::parser::trig::parse_str(&t).for_each_quad(|x| v.push(quad_json(x.s(), x.p(), x.o(), x.g()))).map_err(|e| e.to_string())?;
                }
                Ok(v)
            })
            .unwrap_or_else(|p| Err(format!("PANIC {p}")));
            ev["serok"] = json!(true);
            ev["text"] = cps(&t);
            ev["out"] = out_json(out);
        }
    }
    ev
}

pub fn main(args: &[String]) {
    quiet_panics();
    let seed = arg_u64(args, "--seed", 1);
    let mut n = arg_u64(args, "--n", 500) as usize;
    let family = arg(args, "--family").unwrap_or("turtle").to_string();
    let stride = arg_u64(args, "--stride", 1) as usize;
    if let Some(g) = arg(args, "--gen") {
        n = if family == "jsonld-model" { load_model_datasets(g) } else { load_model_graphs(g) };
    }
    if args.iter().any(|a| a == "--child") {
        let from = arg_u64(args, "--from", 0) as usize;
        let to = arg_u64(args, "--to", 0) as usize;
        let mut part = Part::create(arg(args, "--part").expect("--part"));
        for idx in from..to {
            if (idx + seed as usize) % stride != 0 {
                continue;
            }
            let i = input_of(seed, idx, &family);
            part.begin(idx);
            let ev = match family.as_str() {
                "turtle" | "turtle-model" => run_turtle(&i),
                "jsonld" | "jsonld-model" => crate::rt2::run_jsonld(&i),
                _ => crate::rt2::run_xml(&i),
            };
            part.result(&ev);
        }
        return;
    }
    let out = arg(args, "--out").expect("--out");
    let mut tr = Trace::create(out);
    let mut child_args: Vec<String> = vec!["rt".into(), "--family".into(), family.clone(), "--seed".into(), seed.to_string(), "--stride".into(), stride.to_string()];
    if let Some(g) = arg(args, "--gen") {
        child_args.push("--gen".into());
        child_args.push(g.to_string());
    }
    run_isolated(&child_args, n, 100 * stride.max(1), 3_000_000, 20, &mut tr, &|idx| describe(&input_of(seed, idx, &family)));
    println!("events {}", tr.finish());
}
