//! JSON-LD (C12) and RDF/XML (C18) round trips for rt.rs
use crate::rt::{Input, describe};
use crate::util::*;
use serde_json::{Value, json};
use sophia_api::parser::QuadParser;
use sophia_api::quad::Quad;
use sophia_api::serializer::{QuadSerializer, Stringifier, TripleSerializer};
use sophia_api::source::{QuadSource, TripleSource};
use sophia_api::triple::Triple;
use sophia_jsonld::{JsonLdOptions, JsonLdParser, ProcessingMode, RdfDirection};
use sophia_jsonld::serializer::JsonLdSerializer;
use sophia_xml::serializer::{RdfXmlConfig, RdfXmlSerializer};

fn out_json(r: Result<Vec<Value>, String>) -> Value {
    match r {
        Ok(v) => json!({"ok": true, "quads": v, "msg": ""}),
        Err(e) => json!({"ok": false, "quads": [], "msg": e}),
    }
}

/// option tuple from the input's configuration fields: mode 1.0/1.1 x use_rdf_type x rdf_direction x spaces
/// an `io::Write` that takes at most seven bytes per call
pub struct ShortWrites(pub std::rc::Rc<std::cell::RefCell<Vec<u8>>>);
impl std::io::Write for ShortWrites {
    fn write(&mut self, data: &[u8]) -> std::io::Result<usize> {
        let n = data.len().min(7);
        self.0.borrow_mut().extend_from_slice(&data[..n]);
        Ok(n)
    }
    fn flush(&mut self) -> std::io::Result<()> {
        Ok(())
    }
}

pub fn run_jsonld(i: &Input) -> Value {
    let mode11 = i.pm % 2 == 0;
    let use_rdf_type = i.pm % 3 == 0;
    let dir = i.indent; // 0 none, 1 i18n-datatype, 2 compound-literal
    let spaces = if i.pretty { 2 } else { 0 };
    let mk = || {
        let mut o = JsonLdOptions::new()
            .with_processing_mode(if mode11 { ProcessingMode::JsonLd1_1 } else { ProcessingMode::JsonLd1_0 })
            .with_use_rdf_type(use_rdf_type)
            .with_spaces(spaces);
        o = match dir {
            1 => o.with_rdf_direction(RdfDirection::I18nDatatype),
            2 => o.with_rdf_direction(RdfDirection::CompoundLiteral),
            _ => o,
        };
        o
    };
    let mut ev = describe(i);
    ev["ev"] = json!("RT");
    ev["opts"] = json!({"mode11":mode11,"use_rdf_type":use_rdf_type,"dir":dir,"spaces":spaces});
    // every third dataset is written to a target that takes a few bytes per call (the contract of io::Write::write allows short writes)
    let trickle = i.d.len() % 3 == 2;
    ev["target"] = json!(if trickle { "short-writes" } else { "vec" });
    let text: Result<String, String> = guarded(|| {
        if trickle {
            let buf = std::rc::Rc::new(std::cell::RefCell::new(Vec::<u8>::new()));
            let mut s = JsonLdSerializer::new_with_options(ShortWrites(buf.clone()), mk());
            s.serialize_quads(i.d.iter().cloned().map(Ok::<_, std::convert::Infallible>)).map_err(|e| e.to_string())?;
            let t = String::from_utf8_lossy(&buf.borrow()).to_string();
            return Ok(t);
        }
        let mut s = JsonLdSerializer::new_with_options(Vec::<u8>::new(), mk());
        s.serialize_quads(i.d.iter().cloned().map(Ok::<_, std::convert::Infallible>)).map_err(|e| e.to_string())?;
        Ok(String::from_utf8_lossy(s.as_utf8()).to_string())
    })
    .unwrap_or_else(|p| Err(format!("PANIC {p}")));
    match text {
        Err(e) => {
            ev["serok"] = json!(false);
            ev["text"] = json!([]);
            ev["out"] = out_json(Err(e));
        }
        Ok(t) => {
            let out: Result<Vec<Value>, String> = guarded(|| {
                let mut v = vec![];
                let p = JsonLdParser::new_with_options(mk());
                p.parse_str(&t).for_each_quad(|x| v.push(quad_json(x.s(), x.p(), x.o(), x.g()))).map_err(|e| e.to_string())?;
                Ok(v)
            })
            .unwrap_or_else(|p| Err(format!("PANIC {p}")));
            ev["serok"] = json!(true);
            ev["text"] = cps(&t);
            ev["out"] = out_json(out);
            // the value objects carrying a base direction, read from the document itself
            let mut dirobjs = vec![];
            if let Ok(doc) = serde_json::from_str::<Value>(&t) {
                collect_dirobjs(&doc, &mut dirobjs);
            }
            ev["dirobjs"] = json!(dirobjs);
        }
    }
    if ev.get("dirobjs").is_none() {
        ev["dirobjs"] = json!([]);
    }
    ev
}

fn collect_dirobjs(v: &Value, acc: &mut Vec<Value>) {
    match v {
        Value::Array(a) => a.iter().for_each(|x| collect_dirobjs(x, acc)),
        Value::Object(o) => {
            if let Some(d) = o.get("@direction") {
                let s = |x: Option<&Value>| cps(x.and_then(|x| x.as_str()).unwrap_or(""));
                acc.push(json!({"v": s(o.get("@value")), "lang": s(o.get("@language")), "dir": s(Some(d))}));
            }
            o.values().for_each(|x| collect_dirobjs(x, acc));
        }
        _ => {}
    }
}

pub fn run_xml(i: &Input) -> Value {
    let mut ev = describe(i);
    ev["ev"] = json!("RT");
    // the same graph at every indentation 0..8: the parsed result must not depend on it
    let mut outs = vec![];
    for indent in 0..=8usize {
        let text: Result<String, String> = guarded(|| {
            if indent % 3 == 1 {
                // through a target that takes a few bytes per call
                let buf = std::rc::Rc::new(std::cell::RefCell::new(Vec::<u8>::new()));
                let mut s = RdfXmlSerializer::new_with_config(ShortWrites(buf.clone()), RdfXmlConfig::new().with_indentation(indent));
                s.serialize_triples(i.d.iter().map(|q| q.0.clone()).map(Ok::<_, std::convert::Infallible>)).map_err(|e| e.to_string())?;
                drop(s);
                let t = String::from_utf8_lossy(&buf.borrow()).to_string();
                return Ok(t);
            }
            let mut s = RdfXmlSerializer::new_stringifier_with_config(RdfXmlConfig::new().with_indentation(indent));
            s.serialize_triples(i.d.iter().map(|q| q.0.clone()).map(Ok::<_, std::convert::Infallible>)).map_err(|e| e.to_string())?;
            Ok(String::from_utf8_lossy(s.as_utf8()).to_string())
        })
        .unwrap_or_else(|p| Err(format!("PANIC {p}")));
        match text {
            Err(e) => outs.push(json!({"indent":indent,"serok":false,"sermsg":e,"text":[],"out":out_json(Err("not serialised".into())),"lexok":true,"names":[],"chunks":[],"props":[]})),
            Ok(t) => {
                let out: Result<Vec<Value>, String> = guarded(|| {
                    let mut v = vec![];
                    sophia_xml::parser::parse_str(&t).for_each_triple(|x| v.push(quad_json(x.s(), x.p(), x.o(), None::<ST>))).map_err(|e| e.to_string())?;
                    Ok(v)
                })
                .unwrap_or_else(|p| Err(format!("PANIC {p}")));
                let (lexok, names, chunks) = xml_lex(&t);
                let props: Vec<Value> = if indent == 0 { xml_property_elements(&t) } else { vec![] };
                outs.push(json!({"indent":indent,"serok":true,"sermsg":"","text": if indent == 0 || indent == 4 { cps(&t) } else { json!([]) },"out":out_json(out),
                    "lexok":lexok,"names":names,"chunks":chunks,"props":props}));
            }
        }
    }
    ev["outs"] = json!(outs);
    // sinks that fail: success may only be reported when the sink holds the complete document
    let mut faults = vec![];
    let full: Option<String> = guarded(|| {
        let mut s = RdfXmlSerializer::new_stringifier();
        s.serialize_triples(i.d.iter().map(|q| q.0.clone()).map(Ok::<_, std::convert::Infallible>)).ok()?;
        Some(String::from_utf8_lossy(s.as_utf8()).to_string())
    })
    .unwrap_or(None);
    if let Some(full) = full {
        let n = full.len();
        for (limit, buffered) in [(0usize, false), (n / 2, false), (n.saturating_sub(25), false), (n.saturating_sub(1), false), (n, false), (n / 2, true), (n.saturating_sub(1), true), (n, true)] {
            let got = std::rc::Rc::new(std::cell::RefCell::new(Vec::<u8>::new()));
            let sink = Limited { got: got.clone(), limit };
            let ok: Result<bool, String> = guarded(|| {
                if buffered {
                    let mut s = RdfXmlSerializer::new(std::io::BufWriter::with_capacity(1 << 20, sink));
                    let r = s.serialize_triples(i.d.iter().map(|q| q.0.clone()).map(Ok::<_, std::convert::Infallible>)).is_ok();
                    r
                } else {
                    let mut s = RdfXmlSerializer::new(sink);
                    s.serialize_triples(i.d.iter().map(|q| q.0.clone()).map(Ok::<_, std::convert::Infallible>)).is_ok()
                }
            });
            let complete = got.borrow().as_slice() == full.as_bytes();
            faults.push(json!({"limit":limit,"len":n,"buffered":buffered,"ok":ok.clone().unwrap_or(false),"panicked":ok.is_err(),"complete":complete}));
        }
    }
    ev["faults"] = json!(faults);
    ev
}

/// a sink that accepts `limit` bytes and then fails
struct Limited {
    got: std::rc::Rc<std::cell::RefCell<Vec<u8>>>,
    limit: usize,
}
impl std::io::Write for Limited {
    fn write(&mut self, data: &[u8]) -> std::io::Result<usize> {
        let mut g = self.got.borrow_mut();
        let room = self.limit.saturating_sub(g.len());
        if room == 0 && !data.is_empty() {
            return Err(std::io::Error::new(std::io::ErrorKind::Other, "sink full"));
        }
        let k = room.min(data.len());
        g.extend_from_slice(&data[..k]);
        Ok(k)
    }
    fn flush(&mut self) -> std::io::Result<()> {
        Ok(())
    }
}

/// A plain XML tokenizer (no validation): the element and attribute names, and the raw character data / attribute values,
/// of a document made of an optional XML declaration, start / end / empty tags with double- or single-quoted attributes, and text.
/// Whether names are QNames and chunks are legal is judged by the specification (Trace_RoundTrip.tla), not here.
/// lexok = false when the text does not even have that shape (unbalanced tags, stray '<', unterminated attribute...).
pub fn xml_lex(t: &str) -> (bool, Vec<Value>, Vec<Value>) {
    let c: Vec<char> = t.chars().collect();
    let (mut names, mut chunks): (Vec<String>, Vec<String>) = (vec![], vec![]);
    let mut stack: Vec<String> = vec![];
    let mut i = 0usize;
    let mut seen_root = false;
    let fail = |names: &Vec<String>, chunks: &Vec<String>| (false, names.iter().map(|x| cps(x)).collect(), chunks.iter().map(|x| cps(x)).collect());
    let is_ws = |ch: char| matches!(ch, ' ' | '\t' | '\n' | '\r');
    while i < c.len() {
        if c[i] == '<' {
            if c[i..].starts_with(&['<', '?']) {
                // declaration / processing instruction: skip to "?>"
                match (i..c.len().saturating_sub(1)).find(|j| c[*j] == '?' && c[*j + 1] == '>') {
                    Some(j) => i = j + 2,
                    None => return fail(&names, &chunks),
                }
                continue;
            }
            let closing = i + 1 < c.len() && c[i + 1] == '/';
            let mut j = if closing { i + 2 } else { i + 1 };
            let st = j;
            while j < c.len() && !is_ws(c[j]) && c[j] != '>' && c[j] != '/' {
                j += 1;
            }
            let name: String = c[st..j].iter().collect();
            names.push(name.clone());
            if closing {
                while j < c.len() && is_ws(c[j]) {
                    j += 1;
                }
                if j >= c.len() || c[j] != '>' || stack.pop() != Some(name) {
                    return fail(&names, &chunks);
                }
                i = j + 1;
                continue;
            }
            if stack.is_empty() {
                if seen_root {
                    return fail(&names, &chunks);
                }
                seen_root = true;
            }
            // attributes
            let mut attrs: Vec<String> = vec![];
            loop {
                let had_ws = j < c.len() && is_ws(c[j]);
                while j < c.len() && is_ws(c[j]) {
                    j += 1;
                }
                if j >= c.len() {
                    return fail(&names, &chunks);
                }
                if c[j] == '>' {
                    stack.push(name.clone());
                    i = j + 1;
                    break;
                }
                if c[j] == '/' {
                    if j + 1 < c.len() && c[j + 1] == '>' {
                        i = j + 2;
                        break;
                    }
                    return fail(&names, &chunks);
                }
                if !had_ws {
                    return fail(&names, &chunks);
                }
                let st = j;
                while j < c.len() && !is_ws(c[j]) && c[j] != '=' && c[j] != '>' && c[j] != '/' {
                    j += 1;
                }
                let an: String = c[st..j].iter().collect();
                if attrs.contains(&an) {
                    return fail(&names, &chunks);
                }
                attrs.push(an.clone());
                names.push(an);
                while j < c.len() && is_ws(c[j]) {
                    j += 1;
                }
                if j >= c.len() || c[j] != '=' {
                    return fail(&names, &chunks);
                }
                j += 1;
                while j < c.len() && is_ws(c[j]) {
                    j += 1;
                }
                if j >= c.len() || (c[j] != '"' && c[j] != '\'') {
                    return fail(&names, &chunks);
                }
                let q = c[j];
                let st = j + 1;
                j = st;
                while j < c.len() && c[j] != q {
                    j += 1;
                }
                if j >= c.len() {
                    return fail(&names, &chunks);
                }
                chunks.push(c[st..j].iter().collect());
                j += 1;
            }
        } else {
            let st = i;
            while i < c.len() && c[i] != '<' {
                i += 1;
            }
            let txt: String = c[st..i].iter().collect();
            if stack.is_empty() {
                if !txt.chars().all(is_ws) {
                    return fail(&names, &chunks);
                }
            } else {
                chunks.push(txt);
            }
        }
    }
    if !stack.is_empty() || !seen_root {
        return fail(&names, &chunks);
    }
    (true, names.iter().map(|x| cps(x)).collect(), chunks.iter().map(|x| cps(x)).collect())
}

/// the property elements of a document written by the serializer: element name and the namespace it is declared in
/// (`xmlns="..."` for an unprefixed name, `xmlns:prop="..."` for the formatter's `prop:` form), in document order
pub fn xml_property_elements(t: &str) -> Vec<Value> {
    let mut out = vec![];
    let mut rest = t;
    while let Some(i) = rest.find('<') {
        rest = &rest[i + 1..];
        if rest.starts_with('/') || rest.starts_with('?') || rest.starts_with("rdf:") {
            continue;
        }
        let end = rest.find('>').unwrap_or(rest.len());
        let tag = &rest[..end];
        let name: String = tag.chars().take_while(|c| !c.is_whitespace() && *c != '/').collect();
        let (local, key) = match name.strip_prefix("prop:") {
            Some(l) => (l.to_string(), " xmlns:prop=\""),
            None => (name.clone(), " xmlns=\""),
        };
        if let Some(k) = tag.find(key) {
            let v = &tag[k + key.len()..];
            let ns = &v[..v.find('"').unwrap_or(v.len())];
            // attribute values are escaped by the writer: undo the five predefined entities
            let ns = ns.replace("&lt;", "<").replace("&gt;", ">").replace("&quot;", "\"").replace("&apos;", "'").replace("&amp;", "&");
            out.push(json!({"name": cps(&local), "ns": cps(&ns)}));
        }
    }
    out
}
