//! JSON-LD (C12) and RDF/XML (C18) round trips for rt.rs
use crate::rt::{Input, describe};
use crate::util::*;
use serde_json::{Value, json};
use sophia_api::parser::QuadParser;
use sophia_api::quad::Quad;
use sophia_api::serializer::{QuadSerializer, Stringifier, TripleSerializer};
use sophia_api::source::{QuadSource, TripleSource};
use sophia_api::triple::Triple;
use sophia_jsonld::{JsonLdOptions, JsonLdParser, ProcessingMode, RdfDirection};
use sophia_jsonld::serializer::JsonLdSerializer;
use sophia_xml::serializer::{RdfXmlConfig, RdfXmlSerializer};

fn out_json(r: Result<Vec<Value>, String>) -> Value {
    match r {
        Ok(v) => json!({"ok": true, "quads": v, "msg": ""}),
        Err(e) => json!({"ok": false, "quads": [], "msg": e}),
    }
}

/// option tuple from the input's configuration fields: mode 1.0/1.1 x use_rdf_type x rdf_direction x spaces
pub fn run_jsonld(i: &Input) -> Value {
    let mode11 = i.pm % 2 == 0;
    let use_rdf_type = i.pm % 3 == 0;
    let dir = i.indent; // 0 none, 1 i18n-datatype, 2 compound-literal
    let spaces = if i.pretty { 2 } else { 0 };
    let mk = || {
        let mut o = JsonLdOptions::new()
            .with_processing_mode(if mode11 { ProcessingMode::JsonLd1_1 } else { ProcessingMode::JsonLd1_0 })
            .with_use_rdf_type(use_rdf_type)
            .with_spaces(spaces);
        o = match dir {
            1 => o.with_rdf_direction(RdfDirection::I18nDatatype),
            2 => o.with_rdf_direction(RdfDirection::CompoundLiteral),
            _ => o,
        };
        o
    };
    let mut ev = describe(i);
    ev["ev"] = json!("RT");
    ev["opts"] = json!({"mode11":mode11,"use_rdf_type":use_rdf_type,"dir":dir,"spaces":spaces});
    let text: Result<String, String> = guarded(|| {
        let mut s = JsonLdSerializer::new_with_options(Vec::<u8>::new(), mk());
        s.serialize_quads(i.d.iter().cloned().map(Ok::<_, std::convert::Infallible>)).map_err(|e| e.to_string())?;
        Ok(String::from_utf8_lossy(s.as_utf8()).to_string())
    })
    .unwrap_or_else(|p| Err(format!("PANIC {p}")));
    match text {
        Err(e) => {
            ev["serok"] = json!(false);
            ev["text"] = json!([]);
            ev["out"] = out_json(Err(e));
        }
        Ok(t) => {
            let out: Result<Vec<Value>, String> = guarded(|| {
                let mut v = vec![];
                let p = JsonLdParser::new_with_options(mk());
                p.parse_str(&t).for_each_quad(|x| v.push(quad_json(x.s(), x.p(), x.o(), x.g()))).map_err(|e| e.to_string())?;
                Ok(v)
            })
            .unwrap_or_else(|p| Err(format!("PANIC {p}")));
            ev["serok"] = json!(true);
            ev["text"] = cps(&t);
            ev["out"] = out_json(out);
            // the value objects carrying a base direction, read from the document itself
            let mut dirobjs = vec![];
            if let Ok(doc) = serde_json::from_str::<Value>(&t) {
                collect_dirobjs(&doc, &mut dirobjs);
            }
            ev["dirobjs"] = json!(dirobjs);
        }
    }
    if ev.get("dirobjs").is_none() {
        ev["dirobjs"] = json!([]);
    }
    ev
}

fn collect_dirobjs(v: &Value, acc: &mut Vec<Value>) {
    match v {
        Value::Array(a) => a.iter().for_each(|x| collect_dirobjs(x, acc)),
        Value::Object(o) => {
            if let Some(d) = o.get("@direction") {
                let s = |x: Option<&Value>| cps(x.and_then(|x| x.as_str()).unwrap_or(""));
                acc.push(json!({"v": s(o.get("@value")), "lang": s(o.get("@language")), "dir": s(Some(d))}));
            }
            o.values().for_each(|x| collect_dirobjs(x, acc));
        }
        _ => {}
    }
}

pub fn run_xml(i: &Input) -> Value {
    let mut ev = describe(i);
    ev["ev"] = json!("RT");
    // the same graph at every indentation 0..8: the parsed result must not depend on it
    let mut outs = vec![];
    for indent in 0..=8usize {
        let text: Result<String, String> = guarded(|| {
            let mut s = RdfXmlSerializer::new_stringifier_with_config(RdfXmlConfig::new().with_indentation(indent));
            s.serialize_triples(i.d.iter().map(|q| q.0.clone()).map(Ok::<_, std::convert::Infallible>)).map_err(|e| e.to_string())?;
            Ok(String::from_utf8_lossy(s.as_utf8()).to_string())
        })
        .unwrap_or_else(|p| Err(format!("PANIC {p}")));
        match text {
            Err(e) => outs.push(json!({"indent":indent,"serok":false,"sermsg":e,"text":[],"out":out_json(Err("not serialised".into()))})),
            Ok(t) => {
                let out: Result<Vec<Value>, String> = guarded(|| {
                    let mut v = vec![];
                    sophia_xml::parser::parse_str(&t).for_each_triple(|x| v.push(quad_json(x.s(), x.p(), x.o(), None::<ST>))).map_err(|e| e.to_string())?;
                    Ok(v)
                })
                .unwrap_or_else(|p| Err(format!("PANIC {p}")));
                outs.push(json!({"indent":indent,"serok":true,"sermsg":"","text": if indent == 0 || indent == 4 { cps(&t) } else { json!([]) },"out":out_json(out)}));
            }
        }
    }
    ev["outs"] = json!(outs);
    ev
}
