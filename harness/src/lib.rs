pub mod matchers;
pub mod store;
pub mod util;
