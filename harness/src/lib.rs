pub mod matchers;
pub mod mem;
pub mod store;
pub mod streams;
pub mod terms;
pub mod streams_chains;
pub mod views;
pub mod util;
