pub mod matchers;
pub mod store;
pub mod views;
pub mod util;
