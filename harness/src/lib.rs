pub mod matchers;
pub mod store;
pub mod streams;
pub mod streams_chains;
pub mod views;
pub mod util;
