//! PrefixMap conformance (part of the C04 family): every prefix map of <= 3 pairs over the universe of MC_Prefix.tla,
//! every IRI of its pool, two suffix checks: `get_namespace` and `get_checked_prefixed_pair` of the real slice implementation.
use crate::util::*;
use serde_json::json;
use sophia_api::prefix::{Prefix, PrefixMap};
use sophia_iri::Iri;

pub fn main(args: &[String]) {
    quiet_panics();
    let mut tr = Trace::create(arg(args, "--out").expect("--out"));
    let stride = arg_u64(args, "--stride", 1) as usize;
    let prefixes = ["", "a", "ab"];
    let namespaces = ["h:", "h:/", "h:/a", "h:/a/", "x:"];
    let iris = ["h:", "h:/", "h:/a", "h:/a/b", "h:/b", "x:y", "y:"];
    let pairs: Vec<(&str, &str)> = prefixes.iter().flat_map(|p| namespaces.iter().map(move |n| (*p, *n))).collect();
    let mut maps: Vec<Vec<(&str, &str)>> = vec![vec![]];
    for a in &pairs {
        maps.push(vec![*a]);
        for b in &pairs {
            maps.push(vec![*a, *b]);
            for c in &pairs {
                maps.push(vec![*a, *b, *c]);
            }
        }
    }
    let mut k = 0usize;
    for m in &maps {
        let real: Vec<(Prefix<&str>, Iri<&str>)> = m.iter().map(|(p, n)| (Prefix::new_unchecked(*p), Iri::new_unchecked(*n))).collect();
        for iri in iris {
            for chk in ["any", "local"] {
                k += 1;
                if k % stride != 0 {
                    continue;
                }
                let r = guarded(|| {
                    let check = |s: &str| chk == "any" || (!s.is_empty() && !s.contains('/'));
                    real[..].get_checked_prefixed_pair(Iri::new_unchecked(iri), check).map(|(p, s)| (p.to_string(), s.to_string()))
                });
                let nsq: Vec<_> = prefixes.iter().map(|p| {
                    let r = guarded(|| real[..].get_namespace(p).map(|n| n.to_string()));
                    match r { Ok(Some(n)) => json!({"p":cps(p),"found":true,"ns":cps(&n)}), Ok(None) => json!({"p":cps(p),"found":false,"ns":[]}), Err(_) => json!({"p":cps(p),"found":false,"ns":[-1]}) }
                }).collect();
                let out = match r {
                    Ok(Some((p, s))) => json!({"k":"some","p":cps(&p),"suffix":cps(&s)}),
                    Ok(None) => json!({"k":"none","p":[],"suffix":[]}),
                    Err(m) => json!({"k":"panic","p":[],"suffix":cps(&m)}),
                };
                tr.emit(json!({"ev":"PrefixPair","map":m.iter().map(|(p, n)| json!({"p":cps(p),"ns":cps(n)})).collect::<Vec<_>>(),"iri":cps(iri),"chk":chk,"out":out,"nsq":nsq}));
            }
        }
    }
    println!("events {}", tr.finish());
}
