//! C14 driver: ORDER BY over multisets of values of every class, on EVERY permutation of the input rows.
use crate::util::*;
use serde_json::{Value, json};
use sophia_api::quad::Spog;
use sophia_api::sparql::{SparqlBindings, SparqlDataset, SparqlResult};
use sophia_sparql::{SparqlQuery, SparqlWrapper};
use spargebra::Query;
use spargebra::algebra::{Expression, GraphPattern, OrderExpression};
use spargebra::term::{NamedNode, NamedNodePattern, TermPattern, TriplePattern, Variable};

pub fn universe() -> Vec<ST> {
    let x = |l: &str, d: &str| lit_dt(l, &format!("{XSD}{d}"));
    vec![
        x("5", "integer"), x("10", "integer"), x("9", "integer"), x("-3", "integer"), x("007", "integer"), x("0", "integer"),
        x("7", "byte"), x("300", "short"), x("2", "long"), x("0", "nonPositiveInteger"), x("3", "positiveInteger"),
        x("2.5", "decimal"), x("10.0", "decimal"), x("123456789012345678901.5", "decimal"), x("-0.5", "decimal"),
        x("10", "double"), x("1e1", "double"), x("-0.0", "double"), x("0", "double"), x("NaN", "double"), x("INF", "double"), x("-INF", "double"), x("2.5", "float"), x("NaN", "float"), x("INF", "float"), x("2e0", "double"), x("1", "integer"),
        x("abc", "integer"), x("5", "fo"), x("5", "string"), x("abc", "string"), x("B", "string"), x("", "string"),
        x("true", "boolean"), x("false", "boolean"),
        x("2020-01-01T00:00:00Z", "dateTime"), x("2021-06-01T00:00:00Z", "dateTime"),
        lit_lang("abc", "en"), lit_lang("abd", "EN"),
        iri("http://ex/a"), iri("http://ex/b"), bn("b1"), bn("b2"),
        // dateTimes with other offsets than Z (instant order differs from the order of the lexical forms), without timezone (ordered against
        // timezoned ones only when more than 14 hours apart), equal instants written differently, an impossible date
        x("2020-01-01T10:00:00+05:00", "dateTime"), x("2020-01-01T08:00:00Z", "dateTime"), x("2020-01-01T09:00:00", "dateTime"), x("2019-01-01T00:00:00", "dateTime"),
        x("2022-01-01T00:00:00", "dateTime"), x("2020-01-01T03:00:00-05:00", "dateTime"), x("2020-01-01T22:30:00", "dateTime"), x("2020-02-30T00:00:00Z", "dateTime"),
        // unsigned types up to their bounds and beyond, integers and decimals closer than a binary64 can tell
        x("18446744073709551615", "unsignedLong"), x("9223372036854775808", "unsignedLong"), x("18446744073709551616", "unsignedLong"), x("200", "unsignedByte"), x("4294967295", "unsignedInt"), x("65535", "unsignedShort"),
        x("9007199254740993", "integer"), x("9007199254740992.5", "decimal"), x("9007199254740993.5", "decimal"), x("1.00000000000000000001", "decimal"),
    ]
}

fn var(n: &str) -> Variable {
    Variable::new_unchecked(n)
}
fn nn(s: &str) -> NamedNode {
    NamedNode::new_unchecked(s)
}

/// How the value of ?v of a row gets there: stored as such, or computed by BIND(?x - B AS ?v) from a stored x = v + B with B beyond
/// 64 bits (the same integer in exact arithmetic, but a value that went through the engine's arbitrary-precision path).
#[derive(Clone, Default)]
pub struct Computed {
    pub rows: Vec<bool>,
    pub big: i128,
    /// the first key is the expression (?v + 0) instead of the variable ?v (only used when every bound v is an integer)
    pub expr_key: bool,
}

/// rows: (v, w) with None = unbound; returns the ordered (v, w) sequence
fn order(rows: &[(Option<ST>, Option<ST>)], keys: &[(usize, bool)]) -> Result<Vec<Value>, String> {
    order_with(rows, keys, &Computed::default())
}

fn order_with(rows: &[(Option<ST>, Option<ST>)], keys: &[(usize, bool)], comp: &Computed) -> Result<Vec<Value>, String> {
    // one subject per row; a row without v (resp. w) simply lacks that triple; rows come from a UNION of the four shapes
    let mut d: Vec<Spog<ST>> = vec![];
    let (pv, pw, pr) = (iri("http://ex/v"), iri("http://ex/w"), iri("http://ex/row"));
    for (i, (v, w)) in rows.iter().enumerate() {
        let s = iri(&format!("http://ex/r{i}"));
        let computed = comp.rows.get(i).copied().unwrap_or(false) && v.is_some();
        let shape = match (v.is_some(), w.is_some()) {
            (true, true) if computed => "xw",
            (true, false) if computed => "x",
            (true, true) => "vw",
            (true, false) => "v",
            (false, true) => "w",
            _ => "none",
        };
        d.push(([s.clone(), pr.clone(), lit_dt(shape, &format!("{XSD}string"))], None));
        if let Some(v) = v {
            if computed {
                let c: i128 = sophia_api::term::Term::lexical_form(v).unwrap().parse().expect("computed rows hold canonical integers");
                d.push(([s.clone(), iri("http://ex/x"), lit_dt(&(c + comp.big).to_string(), &format!("{XSD}integer"))], None));
            } else {
                d.push(([s.clone(), pv.clone(), v.clone()], None));
            }
        }
        if let Some(w) = w {
            d.push(([s.clone(), pw.clone(), w.clone()], None));
        }
    }
    let tp = |p: &str, o: TermPattern| TriplePattern { subject: TermPattern::Variable(var("s")), predicate: NamedNodePattern::NamedNode(nn(p)), object: o };
    let shape = |name: &str, withv: bool, withw: bool| {
        let mut pats = vec![tp("http://ex/row", TermPattern::Literal(spargebra::term::Literal::new_simple_literal(name)))];
        if withv {
            pats.push(tp("http://ex/v", TermPattern::Variable(var("v"))));
        }
        if withw {
            pats.push(tp("http://ex/w", TermPattern::Variable(var("w"))));
        }
        GraphPattern::Bgp { patterns: pats }
    };
    let u = |l: GraphPattern, r: GraphPattern| GraphPattern::Union { left: Box::new(l), right: Box::new(r) };
    let mut inner = u(u(shape("vw", true, true), shape("v", true, false)), u(shape("w", false, true), shape("none", false, false)));
    if comp.rows.iter().any(|c| *c) {
        let int = |x: i128| Expression::Literal(spargebra::term::Literal::new_typed_literal(x.to_string(), nn(&format!("{XSD}integer"))));
        let xshape = |name: &str, withw: bool| {
            let mut pats = vec![tp("http://ex/row", TermPattern::Literal(spargebra::term::Literal::new_simple_literal(name))), tp("http://ex/x", TermPattern::Variable(var("x")))];
            if withw {
                pats.push(tp("http://ex/w", TermPattern::Variable(var("w"))));
            }
            GraphPattern::Extend { inner: Box::new(GraphPattern::Bgp { patterns: pats }), variable: var("v"), expression: Expression::Subtract(Box::new(Expression::Variable(var("x"))), Box::new(int(comp.big))) }
        };
        inner = u(inner, u(xshape("xw", true), xshape("x", false)));
    }
    let expression: Vec<OrderExpression> = keys
        .iter()
        .map(|(k, desc)| {
            let e = Expression::Variable(var(if *k == 0 { "v" } else { "w" }));
            let e = if comp.expr_key && *k == 0 {
                Expression::Add(Box::new(e), Box::new(Expression::Literal(spargebra::term::Literal::new_typed_literal("0", nn(&format!("{XSD}integer"))))))
            } else {
                e
            };
            if *desc { OrderExpression::Desc(e) } else { OrderExpression::Asc(e) }
        })
        .collect();
    let pat = GraphPattern::Project { inner: Box::new(GraphPattern::OrderBy { inner: Box::new(inner), expression }), variables: vec![var("v"), var("w")] };
    let w = SparqlWrapper(&d);
    let q: SparqlQuery<Vec<Spog<ST>>> = SparqlQuery::from(Query::Select { dataset: None, pattern: pat, base_iri: None });
    match w.query(&q) {
        Ok(SparqlResult::Bindings(bs)) => {
            let vars: Vec<String> = bs.variables().iter().map(|s| s.to_string()).collect();
            let (iv, iw) = (vars.iter().position(|x| x == "v"), vars.iter().position(|x| x == "w"));
            let mut out = vec![];
            for r in bs {
                let row = r.map_err(|e| e.to_string())?;
                let cell = |i: Option<usize>| i.and_then(|i| row[i].as_ref().map(|t| term_json(sophia_api::term::Term::borrow_term(t)))).unwrap_or(json!({"k":"unbound"}));
                out.push(json!([cell(iv), cell(iw)]));
            }
            Ok(out)
        }
        Ok(_) => Err("not bindings".into()),
        Err(e) => Err(e.to_string()),
    }
}

fn permutations(n: usize) -> Vec<Vec<usize>> {
    fn rec(cur: &mut Vec<usize>, used: &mut Vec<bool>, n: usize, out: &mut Vec<Vec<usize>>) {
        if cur.len() == n {
            out.push(cur.clone());
            return;
        }
        for i in 0..n {
            if !used[i] {
                used[i] = true;
                cur.push(i);
                rec(cur, used, n, out);
                cur.pop();
                used[i] = false;
            }
        }
    }
    let mut out = vec![];
    rec(&mut vec![], &mut vec![false; n], n, &mut out);
    out
}

fn cell(t: &Option<ST>) -> Value {
    t.as_ref().map(term_json).unwrap_or(json!({"k":"unbound"}))
}

pub fn run(rng: &mut Rng, tr: &mut Trace, n: usize) {
    let u = universe();
    for i in 0..n {
        let big = i % 10 == 9;
        let k = if big { 30 + rng.below(60) } else { 2 + rng.below(3) };
        let two_keys = i % 2 == 0;
        // numerically equal values of different types / spellings: ties on the first key that the second key must break
        let ties: Vec<ST> = u.iter().filter(|t| {
            let l = sophia_api::term::Term::lexical_form(*t).map(|x| x.to_string()).unwrap_or_default();
            matches!(l.as_str(), "0" | "-0.0" | "10" | "10.0" | "1e1" | "2.5") && !sophia_api::term::Term::datatype(*t).map(|d| d.ends_with("string") || d.ends_with("fo")).unwrap_or(true)
        }).cloned().collect();
        let from_ties = two_keys && i % 5 == 0;
        let rows: Vec<(Option<ST>, Option<ST>)> = (0..k)
            .map(|_| {
                let v = if rng.chance(1, 8) { None } else if from_ties { Some(rng.pick(&ties).clone()) } else { Some(rng.pick(&u).clone()) };
                // second key: few distinct values so that ties on the first key are broken by it
                let w = if !two_keys || rng.chance(1, 6) { None } else { Some(rng.pick(&u[..4]).clone()) };
                (v, w)
            })
            .collect();
        let keys: Vec<(usize, bool)> = if two_keys { vec![(0, rng.chance(1, 2)), (1, rng.chance(1, 2))] } else { vec![(0, rng.chance(1, 2))] };
        let perms: Vec<Vec<usize>> = if big {
            (0..4)
                .map(|_| {
                    let mut p: Vec<usize> = (0..k).collect();
                    rng.shuffle(&mut p);
                    p
                })
                .collect()
        } else {
            permutations(k)
        };
        let mut outs: Vec<Value> = vec![];
        let mut failure: Option<String> = None;
        for p in &perms {
            let permuted: Vec<(Option<ST>, Option<ST>)> = p.iter().map(|j| rows[*j].clone()).collect();
            match guarded(|| order(&permuted, &keys)) {
                Ok(Ok(o)) => outs.push(Value::Array(o)),
                Ok(Err(e)) => failure = Some(format!("error: {e}")),
                Err(m) => failure = Some(format!("panic: {m}")),
            }
        }
        tr.emit(json!({"ev":"OrderBy","computed":[],"big":big,"keys":keys.iter().map(|(k, d)| json!({"k":k + 1,"desc":d})).collect::<Vec<_>>(),
            "rows":rows.iter().map(|(v, w)| json!([cell(v), cell(w)])).collect::<Vec<_>>(),"outs":outs,"failed":failure.is_some(),"msg":failure.unwrap_or_default()}));
    }
    // small multisets drawn from one value class only (dateTimes of every shape; numerics near the limits of the machine types): with
    // 39+ values in the universe, three or four suitably related values rarely meet in one random multiset
    let classes: Vec<Vec<ST>> = vec![
        u.iter().filter(|t| sophia_api::term::Term::datatype(*t).map(|d| d.ends_with("dateTime")).unwrap_or(false)).cloned().collect(),
        u.iter().filter(|t| {
            let l = sophia_api::term::Term::lexical_form(*t).map(|x| x.len()).unwrap_or(0);
            let d = sophia_api::term::Term::datatype(*t).map(|d| d.to_string()).unwrap_or_default();
            (l >= 10 || d.contains("unsigned")) && !d.ends_with("dateTime") && !d.ends_with("string")
        }).chain(u[..4].iter()).cloned().collect(),
    ];
    for i in 0..n / 2 {
        let class = &classes[i % classes.len()];
        let k = 3 + rng.below(2);
        let rows: Vec<(Option<ST>, Option<ST>)> = (0..k).map(|_| (Some(rng.pick(class).clone()), None)).collect();
        let keys: Vec<(usize, bool)> = vec![(0, rng.chance(1, 3))];
        let mut outs: Vec<Value> = vec![];
        let mut failure: Option<String> = None;
        for p in &permutations(k) {
            let permuted: Vec<(Option<ST>, Option<ST>)> = p.iter().map(|j| rows[*j].clone()).collect();
            match guarded(|| order(&permuted, &keys)) {
                Ok(Ok(o)) => outs.push(Value::Array(o)),
                Ok(Err(e)) => failure = Some(format!("error: {e}")),
                Err(m) => failure = Some(format!("panic: {m}")),
            }
        }
        tr.emit(json!({"ev":"OrderBy","computed":[],"big":false,"keys":keys.iter().map(|(k, d)| json!({"k":k + 1,"desc":d})).collect::<Vec<_>>(),
            "rows":rows.iter().map(|(v, w)| json!([cell(v), cell(w)])).collect::<Vec<_>>(),"outs":outs,"failed":failure.is_some(),"msg":failure.unwrap_or_default()}));
    }
    // values that went through arbitrary-precision arithmetic, next to stored ones: the key of a computed row is BIND(?x - B AS ?v)
    let ints: Vec<ST> = ["5", "10", "9", "-3", "0", "1", "3", "7", "-1"].iter().map(|l| lit_dt(l, &format!("{XSD}integer"))).collect();
    let bigs: [i128; 4] = [100_000_000_000_000_000_000, -100_000_000_000_000_000_000, 9_223_372_036_854_775_808, 18_446_744_073_709_551_616];
    for i in 0..n / 2 {
        let expr_key = i % 3 == 2;
        let k = 3 + rng.below(2);
        let two_keys = i % 2 == 0;
        let mut comp = Computed { rows: vec![], big: bigs[i % bigs.len()], expr_key };
        let rows: Vec<(Option<ST>, Option<ST>)> = (0..k)
            .map(|_| {
                let computed = rng.chance(2, 5);
                comp.rows.push(computed);
                let v = if computed || expr_key || rng.chance(1, 2) { Some(rng.pick(&ints).clone()) } else if rng.chance(1, 8) { None } else { Some(rng.pick(&u).clone()) };
                let w = if !two_keys || rng.chance(1, 6) { None } else { Some(rng.pick(&u[..4]).clone()) };
                (v, w)
            })
            .collect();
        let keys: Vec<(usize, bool)> = if two_keys { vec![(0, rng.chance(1, 2)), (1, rng.chance(1, 2))] } else { vec![(0, rng.chance(1, 2))] };
        let mut outs: Vec<Value> = vec![];
        let mut failure: Option<String> = None;
        for p in &permutations(k) {
            let permuted: Vec<(Option<ST>, Option<ST>)> = p.iter().map(|j| rows[*j].clone()).collect();
            let pc = Computed { rows: p.iter().map(|j| comp.rows[*j]).collect(), big: comp.big, expr_key };
            match guarded(|| order_with(&permuted, &keys, &pc)) {
                Ok(Ok(o)) => outs.push(Value::Array(o)),
                Ok(Err(e)) => failure = Some(format!("error: {e}")),
                Err(m) => failure = Some(format!("panic: {m}")),
            }
        }
        tr.emit(json!({"ev":"OrderBy","computed":comp.rows,"viaBig":comp.big.to_string(),"exprKey":expr_key,"big":false,"keys":keys.iter().map(|(k, d)| json!({"k":k + 1,"desc":d})).collect::<Vec<_>>(),
            "rows":rows.iter().map(|(v, w)| json!([cell(v), cell(w)])).collect::<Vec<_>>(),"outs":outs,"failed":failure.is_some(),"msg":failure.unwrap_or_default()}));
    }
}
