//! `sv <family> [options]` : drivers that execute the real sophia code and record ndjson traces.
fn main() {
    let args: Vec<String> = std::env::args().collect();
    let fam = args.get(1).map(|s| s.as_str()).unwrap_or("");
    match fam {
        "store" => sv::store::main(&args[2..]),
        "views" => sv::views::main(&args[2..]),
        "streams" => sv::streams::main(&args[2..]),
        "terms" => sv::terms::main(&args[2..]),
        "mem" => sv::mem::main(&args[2..]),
        "iri" => sv::iri::main(&args[2..]),
        "iso" => sv::iso::main(&args[2..]),
        "nq" => sv::nq::main(&args[2..]),
        "c14n" => sv::c14n::main(&args[2..]),
        "sparql" => sv::sparql::main(&args[2..]),
        "rt" => sv::rt::main(&args[2..]),
        "loader" => sv::loader::main(&args[2..]),
        "native" => sv::native::main(&args[2..]),
        "stack" => sv::stack::main(&args[2..]),
        "parse" => sv::parse::main(&args[2..]),
        "prefix" => sv::prefix::main(&args[2..]),
        _ => {
            eprintln!("unknown family {fam}");
            std::process::exit(2);
        }
    }
}
