//! C02 driver: every term of a universe materialised in every Term implementation that can hold it;
//! Term::eq / Term::cmp / Term::hash (and the std traits where present) for every ordered pair, plus conversions.
use crate::util::*;
use serde_json::{Value, json};
use sophia_api::ns::NsTerm;
use sophia_api::term::{BnodeId, CmpTerm, FromTerm, IriRef, LanguageTag, SimpleTerm, Term, TermKind, TryFromTerm, VarName};
use sophia_iri::Iri;
use sophia_term::{ArcStrStash, ArcTerm, GenericLiteral, RcStrStash, RcTerm};
use std::cmp::Ordering;
use std::hash::{Hash, Hasher};
use std::sync::Arc;

/// one concrete holder of a term
pub enum AT<'a> {
    SimpleOwned(ST),
    SimpleBorrowed(SimpleTerm<'a>),
    RefSimple(&'a ST),
    Cmp(CmpTerm<ST>),
    CmpRef(CmpTerm<&'a ST>),
    Arc(ArcTerm),
    Rc(RcTerm),
    GenLit(GenericLiteral<Arc<str>>),
    Ns(NsTerm<'a>),
    Iri(Iri<&'a str>),
    IriRef(IriRef<String>),
    Bnode(BnodeId<&'a str>),
    Var(VarName<String>),
    Str(&'a str),
    I32(i32),
    Isize(isize),
    Usize(usize),
    Bool(bool),
    F64(f64),
    Stashed(ArcTerm),
    RcStashed(RcTerm),
    /// sophia_sparql's result term, fresh
    Result(sophia_sparql::ResultTerm),
    /// the same after `value()` has cached its SPARQL value
    ResultValued(sophia_sparql::ResultTerm),
}

macro_rules! with_at {
    ($x:expr, $t:ident => $body:expr) => {
        match $x {
            AT::SimpleOwned($t) => $body,
            AT::SimpleBorrowed($t) => $body,
            AT::RefSimple($t) => $body,
            AT::Cmp($t) => $body,
            AT::CmpRef($t) => $body,
            AT::Arc($t) => $body,
            AT::Rc($t) => $body,
            AT::GenLit($t) => $body,
            AT::Ns($t) => $body,
            AT::Iri($t) => $body,
            AT::IriRef($t) => $body,
            AT::Bnode($t) => $body,
            AT::Var($t) => $body,
            AT::Str($t) => $body,
            AT::I32($t) => $body,
            AT::Isize($t) => $body,
            AT::Usize($t) => $body,
            AT::Bool($t) => $body,
            AT::F64($t) => $body,
            AT::Stashed($t) => $body,
            AT::RcStashed($t) => $body,
            AT::Result($t) => $body,
            AT::ResultValued($t) => $body,
        }
    };
}

impl AT<'_> {
    pub fn name(&self) -> &'static str {
        match self {
            AT::SimpleOwned(_) => "SimpleTerm(owned)",
            AT::SimpleBorrowed(_) => "SimpleTerm(from_term_ref)",
            AT::RefSimple(_) => "&SimpleTerm",
            AT::Cmp(_) => "CmpTerm<SimpleTerm>",
            AT::CmpRef(_) => "CmpTerm<&SimpleTerm>",
            AT::Arc(_) => "ArcTerm",
            AT::Rc(_) => "RcTerm",
            AT::GenLit(_) => "GenericLiteral<Arc<str>>",
            AT::Ns(_) => "NsTerm",
            AT::Iri(_) => "Iri<&str>",
            AT::IriRef(_) => "IriRef<String>",
            AT::Bnode(_) => "BnodeId<&str>",
            AT::Var(_) => "VarName<String>",
            AT::Str(_) => "&str",
            AT::I32(_) => "i32",
            AT::Isize(_) => "isize",
            AT::Usize(_) => "usize",
            AT::Bool(_) => "bool",
            AT::F64(_) => "f64",
            AT::Stashed(_) => "ArcStrStash::copy_term",
            AT::RcStashed(_) => "RcStrStash::copy_term",
            AT::Result(_) => "ResultTerm",
            AT::ResultValued(_) => "ResultTerm(value cached)",
        }
    }
}

fn hash_of<T: Term>(t: &T) -> u64 {
    let mut h = std::collections::hash_map::DefaultHasher::new();
    Term::hash(t, &mut h);
    h.finish()
}
fn std_hash_of<T: Hash>(t: &T) -> u64 {
    let mut h = std::collections::hash_map::DefaultHasher::new();
    t.hash(&mut h);
    h.finish()
}
fn ord3(o: Ordering) -> u8 {
    match o {
        Ordering::Less => 0,
        Ordering::Equal => 1,
        Ordering::Greater => 2,
    }
}

/// every holder that can represent `t`; `strs` keeps the borrowed strings alive
pub fn materialise<'a>(t: &'a ST, strs: &'a [String], stash: &mut ArcStrStash, rcstash: &mut RcStrStash) -> Vec<AT<'a>> {
    let mut v: Vec<AT<'a>> = vec![
        AT::SimpleOwned(t.clone()),
        AT::SimpleBorrowed(SimpleTerm::from_term_ref(t)),
        AT::RefSimple(t),
        AT::Cmp(CmpTerm(t.clone())),
        AT::CmpRef(CmpTerm(t)),
        AT::Arc(t.into_term::<ArcTerm>()),
        AT::Rc(t.into_term::<RcTerm>()),
        AT::Stashed(stash.copy_term(t)),
        AT::RcStashed(rcstash.copy_term(t)),
        AT::Result(sophia_sparql::ResultTerm::from(t.into_term::<ArcTerm>())),
        AT::ResultValued({
            let r = sophia_sparql::ResultTerm::from(t.into_term::<ArcTerm>());
            let _ = r.value();
            r
        }),
    ];
    match t.kind() {
        TermKind::Iri => {
            let s: &'a str = &strs[0];
            // namespace split points: after the last '#' or '/', in the middle, empty suffix, empty namespace
            let cut = s.rfind(['#', '/']).map(|i| i + 1).unwrap_or(0);
            for c in [cut, s.len() / 2, s.len(), 0] {
                if s.is_char_boundary(c) {
                    v.push(AT::Ns(NsTerm::new_unchecked(IriRef::new_unchecked(&s[..c]), &s[c..])));
                }
            }
            v.push(AT::IriRef(IriRef::new_unchecked(s.to_string())));
            if s.contains(':') {
                v.push(AT::Iri(Iri::new_unchecked(s)));
            }
        }
        TermKind::BlankNode => v.push(AT::Bnode(BnodeId::new_unchecked(&strs[0]))),
        TermKind::Variable => v.push(AT::Var(VarName::new_unchecked(strs[0].clone()))),
        TermKind::Literal => {
            if let Ok(g) = GenericLiteral::<Arc<str>>::try_from_term(t) {
                v.push(AT::GenLit(g));
            }
            let lex: &'a str = &strs[0];
            if t.language_tag().is_none() {
                let dt = t.datatype().unwrap().to_string();
                if dt == format!("{XSD}string") {
                    v.push(AT::Str(lex));
                }
                if dt == format!("{XSD}integer") {
                    if let Ok(n) = lex.parse::<i32>() {
                        if n.to_string() == lex {
                            v.push(AT::I32(n));
                            v.push(AT::Isize(n as isize));
                            if n >= 0 {
                                v.push(AT::Usize(n as usize));
                            }
                        }
                    }
                }
                if dt == format!("{XSD}boolean") && (lex == "true" || lex == "false") {
                    v.push(AT::Bool(lex == "true"));
                }
                if dt == format!("{XSD}double") {
                    if let Ok(x) = lex.parse::<f64>() {
                        // only when the native value prints exactly this lexical form
                        if Term::lexical_form(&x).map(|l| l.to_string()) == Some(lex.to_string()) {
                            v.push(AT::F64(x));
                        }
                    }
                }
            }
        }
        TermKind::Triple => {}
    }
    v
}

fn strings_of(t: &ST) -> Vec<String> {
    match t.kind() {
        TermKind::Iri => vec![t.iri().unwrap().to_string()],
        TermKind::BlankNode => vec![t.bnode_id().unwrap().to_string()],
        TermKind::Variable => vec![t.variable().unwrap().to_string()],
        TermKind::Literal => vec![t.lexical_form().unwrap().to_string()],
        TermKind::Triple => vec![],
    }
}

fn pair_event(a: &ST, b: &ST, tr: &mut Trace) {
    let (sa, sb) = (strings_of(a), strings_of(b));
    let (mut st1, mut st2) = (ArcStrStash::new(), RcStrStash::new());
    let ha = materialise(a, &sa, &mut st1, &mut st2);
    let hb = materialise(b, &sb, &mut st1, &mut st2);
    let (mut eq, mut cmp, mut heq, mut names) = (vec![], vec![], vec![], vec![]);
    for x in &ha {
        for y in &hb {
            let (e, c, h) = with_at!(x, p => with_at!(y, q => (Term::eq(p, q.borrow_term()), ord3(Term::cmp(p, q.borrow_term())), hash_of(p) == hash_of(q))));
            eq.push(e);
            cmp.push(c);
            heq.push(h);
            names.push(format!("{} / {}", x.name(), y.name()));
        }
    }
    // std traits where the types provide them
    let (mut seq, mut scmp, mut sheq, mut snames) = (vec![], vec![], vec![], vec![]);
    macro_rules! std_pair {
        ($va:path, $vb:path, $n:expr) => {
            for x in &ha {
                for y in &hb {
                    if let ($va(p), $vb(q)) = (x, y) {
                        seq.push(p == q);
                        scmp.push(ord3(Ord::cmp(p, q)));
                        sheq.push(std_hash_of(p) == std_hash_of(q));
                        snames.push($n);
                    }
                }
            }
        };
    }
    std_pair!(AT::SimpleOwned, AT::SimpleOwned, "SimpleTerm");
    std_pair!(AT::Arc, AT::Arc, "ArcTerm");
    std_pair!(AT::Rc, AT::Rc, "RcTerm");
    std_pair!(AT::Cmp, AT::Cmp, "CmpTerm");
    std_pair!(AT::GenLit, AT::GenLit, "GenericLiteral");
    std_pair!(AT::Stashed, AT::Arc, "ArcTerm(stash)/ArcTerm");
    std_pair!(AT::Result, AT::Result, "ResultTerm");
    std_pair!(AT::ResultValued, AT::ResultValued, "ResultTerm(value cached)");
    std_pair!(AT::ResultValued, AT::Result, "ResultTerm(value cached)/ResultTerm");
    // heterogeneous PartialEq<T: Term>
    let (mut xeq, mut xnames) = (vec![], vec![]);
    for x in &ha {
        for y in &hb {
            match x {
                AT::SimpleOwned(p) => with_at!(y, q => { xeq.push(p == q); xnames.push(format!("SimpleTerm == {}", y.name())); }),
                AT::Arc(p) => with_at!(y, q => { xeq.push(p == q); xnames.push(format!("ArcTerm == {}", y.name())); }),
                AT::Rc(p) => with_at!(y, q => { xeq.push(p == q); xnames.push(format!("RcTerm == {}", y.name())); }),
                AT::Ns(p) => with_at!(y, q => { xeq.push(p == q); xnames.push(format!("NsTerm == {}", y.name())); }),
                AT::GenLit(p) => with_at!(y, q => { xeq.push(p == q); xnames.push(format!("GenericLiteral == {}", y.name())); }),
                AT::Cmp(p) => with_at!(y, q => { xeq.push(p == q); xnames.push(format!("CmpTerm == {}", y.name())); }),
                _ => {}
            }
        }
    }
    tr.emit(json!({"ev":"Pair","a":term_json(a),"b":term_json(b),"eq":eq,"cmp":cmp,"heq":heq,"names":names,
        "seq":seq,"scmp":scmp,"sheq":sheq,"snames":snames,"xeq":xeq,"xnames":xnames}));
}

fn conv_events(a: &ST, tr: &mut Trace) {
    let sa = strings_of(a);
    let (mut st1, mut st2) = (ArcStrStash::new(), RcStrStash::new());
    let ha = materialise(a, &sa, &mut st1, &mut st2);
    let mut outs: Vec<Value> = vec![];
    let mut paths: Vec<String> = vec![];
    for x in &ha {
        with_at!(x, p => {
            outs.push(term_json(p.borrow_term().into_term::<ST>())); paths.push(format!("{} -> SimpleTerm (into_term)", x.name()));
            outs.push(term_json(p.borrow_term().into_term::<ArcTerm>())); paths.push(format!("{} -> ArcTerm (into_term)", x.name()));
            outs.push(term_json(p.borrow_term().into_term::<RcTerm>())); paths.push(format!("{} -> RcTerm (into_term)", x.name()));
            outs.push(term_json(p.as_simple())); paths.push(format!("{} -> as_simple", x.name()));
            outs.push(term_json(ST::try_from_term(p.borrow_term()).unwrap())); paths.push(format!("{} -> SimpleTerm (try_into_term)", x.name()));
            outs.push(term_json(CmpTerm(p.borrow_term()))); paths.push(format!("{} -> CmpTerm wrapper", x.name()));
            let mut s = ArcStrStash::new();
            outs.push(term_json(s.copy_term(p.borrow_term()))); paths.push(format!("{} -> ArcStrStash::copy_term", x.name()));
            if let Some(tr3) = p.triple() {
                let _ = tr3;
                outs.push(term_json(ST::from_triple(p.triple().unwrap()))); paths.push(format!("{} -> SimpleTerm::from_triple", x.name()));
            }
            if p.is_literal() {
                if let Ok(g) = GenericLiteral::<Arc<str>>::try_from_term(p.borrow_term()) {
                    outs.push(term_json(g)); paths.push(format!("{} -> GenericLiteral", x.name()));
                }
            }
        });
    }
    tr.emit(json!({"ev":"Conv","a":term_json(a),"outs":outs,"paths":paths}));
}

/// random well-formed term, depth-limited
fn rand_term(rng: &mut Rng, depth: usize) -> ST {
    let strs = ["a", "b", "ab", "", "é", "\u{1F600}", "a b", "A", "http://ex/a", "x:y"];
    let iris = ["http://ex/a", "http://ex/ab", "http://ex/a#b", "http://ex/", "x:y", "http://www.w3.org/1999/02/22-rdf-syntax-ns#langStrinG"];
    let tags = ["en", "EN", "en-us", "en-US", "fr", "x-a"];
    let dts = [
        format!("{XSD}string"), format!("{XSD}integer"), format!("{XSD}boolean"), format!("{XSD}double"),
        format!("{RDF}langStrinf"), format!("{RDF}HTML"), "http://ex/dt".to_string(),
    ];
    match rng.below(if depth >= 3 { 6 } else { 8 }) {
        0 => iri(*rng.pick(&iris)),
        1 => bn(*rng.pick(&["b", "b1", "B", "a.b"])),
        2 => var(*rng.pick(&["x", "y", "X"])),
        3 => lit_lang(*rng.pick(&strs), *rng.pick(&tags)),
        4 => lit_dt(*rng.pick(&strs), rng.pick(&dts).as_str()),
        5 => lit_dt(*rng.pick(&["1", "01", "-5", "true", "false", "1e0", "2147483647", "NaN"]), rng.pick(&dts[1..4]).as_str()),
        _ => quoted(rand_term(rng, depth + 1), iri(*rng.pick(&iris)), rand_term(rng, depth + 1)),
    }
}
/// a near copy: equal, or differing in exactly one small way
fn near(rng: &mut Rng, t: &ST) -> ST {
    match t {
        SimpleTerm::LiteralLanguage(l, tag) if rng.chance(1, 2) => {
            let tg = tag.as_str();
            let flipped: String = tg.chars().map(|c| if c.is_ascii_lowercase() { c.to_ascii_uppercase() } else { c.to_ascii_lowercase() }).collect();
            SimpleTerm::LiteralLanguage(l.clone(), LanguageTag::new_unchecked(flipped.into()))
        }
        SimpleTerm::Triple(b) if rng.chance(2, 3) => {
            let mut c = (**b).clone();
            let i = rng.below(3);
            if i != 1 {
                c[i] = near(rng, &c[i]);
            }
            SimpleTerm::Triple(Box::new(c))
        }
        _ => {
            if rng.chance(1, 2) {
                t.clone()
            } else {
                rand_term(rng, 1)
            }
        }
    }
}

pub fn main(args: &[String]) {
    quiet_panics();
    let seed = arg_u64(args, "--seed", 1);
    let out = arg(args, "--out").expect("--out");
    let mut tr = Trace::create(out);
    if let Some(up) = arg(args, "--universe") {
        let txt = std::fs::read_to_string(up).expect("universe");
        let u: Vec<ST> = txt.lines().filter(|l| !l.trim().is_empty()).map(|l| json_term(&serde_json::from_str::<Value>(l).unwrap())).collect();
        for a in &u {
            if let Err(m) = guarded(|| conv_events(a, &mut tr)) {
                tr.emit(json!({"ev":"Panic","msg":m,"a":term_json(a)}));
            }
            for b in &u {
                if let Err(m) = guarded(|| pair_event(a, b, &mut tr)) {
                    tr.emit(json!({"ev":"Panic","msg":m,"a":term_json(a),"b":term_json(b)}));
                }
            }
        }
    }
    let nrand = arg_u64(args, "--rand", 500) as usize;
    let mut rng = Rng::new(seed ^ 0x02);
    for _ in 0..nrand {
        let a = rand_term(&mut rng, 0);
        let b = near(&mut rng, &a);
        if let Err(m) = guarded(|| {
            pair_event(&a, &b, &mut tr);
            pair_event(&b, &a, &mut tr);
            conv_events(&a, &mut tr);
        }) {
            tr.emit(json!({"ev":"Panic","msg":m,"a":term_json(&a),"b":term_json(&b)}));
        }
    }
    println!("events {}", tr.finish());
}
