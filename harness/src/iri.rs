//! C09 / C17 drivers: IRI validation, resolution and relativisation on enumerated and generated strings.
use crate::util::*;
use serde_json::{Value, json};
use sophia_iri::relativize::Relativizer;
use sophia_iri::resolve::{BaseIri, BaseIriRef};
use sophia_iri::{Iri, IriRef, is_absolute_iri_ref, is_relative_iri_ref, is_valid_iri_ref};

fn validate_event(s: &str) -> Value {
    let r = guarded(|| {
        json!({
            "iri_new": Iri::new(s).is_ok(),
            "iriref_new": IriRef::new(s).is_ok(),
            "valid": is_valid_iri_ref(s),
            "abs": is_absolute_iri_ref(s),
            "rel": is_relative_iri_ref(s),
            "base_new": BaseIri::new(s).is_ok(),
            "baseref_new": BaseIriRef::new(s).is_ok(),
        })
    });
    match r {
        Ok(v) => json!({"ev":"Validate","s":cps(s),"r":v,"panic":false}),
        Err(m) => json!({"ev":"Validate","s":cps(s),"r":{"iri_new":false,"iriref_new":false,"valid":false,"abs":false,"rel":false,"base_new":false,"baseref_new":false},"panic":true,"msg":m}),
    }
}

/// every accepted value can be used as a base (no panic)
fn asbase_event(s: &str) -> Option<Value> {
    let mut outs = vec![];
    if let Ok(i) = Iri::new(s) {
        outs.push(json!({"via":"Iri::as_base","ok": guarded(|| { let _ = i.as_base(); }).is_ok()}));
        outs.push(json!({"via":"Iri::to_base","ok": guarded(|| { let _ = Iri::new(s.to_string()).unwrap().to_base(); }).is_ok()}));
    }
    if let Ok(i) = IriRef::new(s) {
        outs.push(json!({"via":"IriRef::as_base","ok": guarded(|| { let _ = i.as_base(); }).is_ok()}));
        outs.push(json!({"via":"IriRef::to_base","ok": guarded(|| { let _ = IriRef::new(s.to_string()).unwrap().to_base(); }).is_ok()}));
    }
    if outs.is_empty() { None } else { Some(json!({"ev":"AsBase","s":cps(s),"outs":outs})) }
}

fn res_json(r: Result<Result<String, String>, String>) -> Value {
    match r {
        Ok(Ok(s)) => json!({"k":"ok","out":cps(&s),"msg":""}),
        Ok(Err(e)) => json!({"k":"err","out":[],"msg":e}),
        Err(p) => json!({"k":"panic","out":[],"msg":p}),
    }
}

/// resolve `r` (accepted reference) against `b` (accepted absolute IRI) through every entry point
fn resolve_event(b: &str, r: &str) -> Value {
    let mut outs = vec![];
    let rr = IriRef::new_unchecked(r);
    outs.push(json!({"via":"Iri::resolve","res":res_json(guarded(|| Ok(Iri::new_unchecked(b).resolve(rr).unwrap())))}));
    outs.push(json!({"via":"IriRef::resolve","res":res_json(guarded(|| Ok(IriRef::new_unchecked(b).resolve(rr).unwrap())))}));
    outs.push(json!({"via":"BaseIri::resolve(&str)","res":res_json(guarded(|| {
        let base = BaseIri::new(b).map_err(|e| e.to_string())?;
        base.resolve(r).map(|i| i.unwrap()).map_err(|e| e.to_string())
    }))}));
    outs.push(json!({"via":"BaseIri::resolve_into","res":res_json(guarded(|| {
        let base = BaseIri::new(b).map_err(|e| e.to_string())?;
        let mut buf = String::new();
        base.resolve_into(r, &mut buf).map(|i| i.unwrap().to_string()).map_err(|e| e.to_string())
    }))}));
    outs.push(json!({"via":"BaseIriRef::resolve(&str)","res":res_json(guarded(|| {
        let base = BaseIriRef::new(b).map_err(|e| e.to_string())?;
        base.resolve(r).map(|i| i.unwrap()).map_err(|e| e.to_string())
    }))}));
    json!({"ev":"Resolve","base":cps(b),"ref":cps(r),"outs":outs})
}

fn relativize_event(b: &str, iri: &str, parents: u8) -> Value {
    let r = guarded(|| {
        let base = BaseIri::new(b).map_err(|e| e.to_string())?;
        let rel = Relativizer::new(base, parents);
        Ok::<_, String>(rel.relativize(Iri::new_unchecked(iri)).map(|x| x.unwrap().to_string()))
    });
    let (k, out) = match r {
        Ok(Ok(Some(s))) => ("some", s),
        Ok(Ok(None)) => ("none", String::new()),
        Ok(Err(e)) => ("err", e),
        Err(p) => ("panic", p),
    };
    // what the library's own resolver makes of the returned reference (attribution of resolver deviations to C09)
    let back = if k == "some" {
        res_json(guarded(|| {
            let base = BaseIri::new(b).map_err(|e| e.to_string())?;
            base.resolve(out.as_str()).map(|i| i.unwrap()).map_err(|e| e.to_string())
        }))
    } else {
        json!({"k":"na","out":[],"msg":""})
    };
    json!({"ev":"Relativize","base":cps(b),"iri":cps(iri),"n":parents,"k":k,"out":cps(&out),"back":back})
}

/// all strings over `alpha` of length <= n
fn all_strings(alpha: &[char], n: usize, f: &mut dyn FnMut(&str)) {
    let mut buf = String::new();
    fn rec(alpha: &[char], n: usize, buf: &mut String, f: &mut dyn FnMut(&str)) {
        f(buf);
        if buf.chars().count() == n {
            return;
        }
        for c in alpha {
            buf.push(*c);
            rec(alpha, n, buf, f);
            buf.pop();
        }
    }
    rec(alpha, n, &mut buf, f);
}

const ALPHA: [char; 11] = ['a', ':', '/', '?', '#', '[', ']', '@', '%', '1', '.'];
const HOST_ALPHA: [char; 5] = ['1', ':', '.', 'f', 'v'];

/// grammar-directed members of each production and their neighbourhood
fn corpus() -> Vec<String> {
    let hosts = [
        "", "a", "a.b", "1.2.3.4", "256.1.1.1", "1.2.3", "[::]", "[::1]", "[1::]", "[1:2::3]", "[1:2:3:4:5:6:7:8]", "[1:2:3:4:5:6:7::]", "[::2:3:4:5:6:7:8]",
        "[1::3:4:5:6:7:8]", "[1:2:3:4:5:6:1.2.3.4]", "[::1.2.3.4]", "[1::1.2.3.4]", "[1:2:3:4:5:6:7:8:9]", "[1::2::3]", "[:1::]", "[12345::]", "[g::]", "[v1.a]", "[V1.a]", "[v.a]", "[v1f.:]",
        "[v1.]", "[::ffff:1.2.3.256]", "é", "a%20b", "a%2", "a%zz", "a b", "[1:2:3:4:5:6::8]", "[1:2:3:4:5::8]", "[1:2:3:4::8]", "[1:2:3::8]", "[1:2::8]", "[1::8]",
        "[f::1]", "[1:2::3:4:5:6:7]", "[1f::1::]",
        // dec-octet: no leading zero, at most 255 - in an IPv4 tail of an IP-literal the registered-name production can not take over
        "[::ffff:192.168.01.1]", "[::1.2.3.04]", "[::01.2.3.4]", "[::255.255.255.255]", "[::256.1.1.1]", "[::1.2.3.4.5]", "[1:2:3:4:5:6:192.168.1.001]", "[::199.200.249.250]",
        "[::1.2.3.260]", "[::1.2.3.300]", "[::00.0.0.0]", "[::0.0.0.0]", "192.168.01.1", "01.2.3.4", "[1::9.09.9.9]", "[::1.2.3]", "[::1.2.3.]",
    ];
    // every shape of IPv6address: k groups, "::", m groups (k + m <= 9), with and without an IPv4 tail; no "::" with 1..9 groups
    let mut hosts: Vec<String> = hosts.iter().map(|h| h.to_string()).collect();
    for k in 0..=9usize {
        for m in 0..=(9 - k) {
            let left = (1..=k).map(|i| format!("{i}")).collect::<Vec<_>>().join(":");
            let right = (1..=m).map(|i| format!("{:x}", 10 + i)).collect::<Vec<_>>().join(":");
            hosts.push(format!("[{left}::{right}]"));
            if m >= 1 {
                hosts.push(format!("[{left}::{}{}1.2.3.4]", (1..m).map(|i| format!("{:x}", 10 + i)).collect::<Vec<_>>().join(":"), if m > 1 { ":" } else { "" }));
            }
        }
        if k >= 1 {
            hosts.push(format!("[{}]", (1..=k).map(|i| format!("{i}")).collect::<Vec<_>>().join(":")));
            hosts.push(format!("[{}:1.2.3.4]", (1..=k).map(|i| format!("{i}")).collect::<Vec<_>>().join(":")));
        }
    }
    let hosts: Vec<&str> = hosts.iter().map(|h| h.as_str()).collect();
    let userinfos = ["", "u@", "u:p@", "@", "u@v@", "%41@", "é@"];
    let ports = ["", ":", ":80", ":8a"];
    let paths = ["", "/", "/a", "/a/b", "//a", "/a//b", "/.", "/..", "/a/../b", "/a/./b", "/:", "/a:b", "/%41", "/%4", "/é", "/\u{E000}", "/a b", "/<"];
    let tails = ["", "?", "?q", "?q#f", "#", "#f", "?a/b?c", "#a/b?c#", "?\u{E000}", "#\u{E000}", "?%41", "#%4", "?a:b", "#a:b"];
    let mut v: Vec<String> = vec![];
    for h in hosts {
        for u in ["", "u@"] {
            for p in ["", ":80"] {
                for path in ["", "/a"] {
                    v.push(format!("http://{u}{h}{p}{path}"));
                    v.push(format!("//{u}{h}{p}{path}"));
                }
            }
        }
    }
    for u in userinfos {
        for p in ports {
            v.push(format!("x://{u}h{p}/p"));
            v.push(format!("//{u}h{p}"));
        }
    }
    for path in paths {
        for t in tails {
            v.push(format!("s:{path}{t}"));
            v.push(format!("s://h{path}{t}"));
            v.push(format!("{path}{t}"));
            v.push(format!("a{path}{t}"));
            v.push(format!(".{path}{t}"));
            v.push(format!("..{path}{t}"));
        }
    }
    for s in ["a:b", "a:b:c", "a/b:c", "./a:b", "a:", ":a", "1a:b", "a1+.-:b", "a_:b", "x:y", "x:/y", "x://", "x:///", "x:///a", "urn:a:b", "mailto:a@b", "", ".", "..", "./", "../", "../../a", "a/./b", "?", "#", "?#", "#?", "##", "a#b#c", "%", "%4", "%41", "%zz", "\u{A0}", "\u{9F}", "\u{D7FF}", "\u{F900}", "\u{F8FF}", "\u{FDCF}", "\u{FDD0}", "\u{FDEF}", "\u{FDF0}", "\u{FFEF}", "\u{FFF0}", "\u{10000}", "\u{1FFFD}", "\u{1FFFE}", "\u{E0FFF}", "\u{E1000}", "\u{EFFFD}", "\u{EFFFE}", "\u{F0000}", "\u{FFFFD}", "\u{100000}", "\u{10FFFD}", "\u{10FFFE}"] {
        v.push(s.to_string());
        v.push(format!("s:{s}"));
        v.push(format!("s://{s}"));
        v.push(format!("s:?{s}"));
        v.push(format!("s:#{s}"));
        v.push(format!("?{s}"));
        v.push(format!("#{s}"));
    }
    // the edges of the ucschar / iprivate ranges of RFC 3987 (every plane: xFFFD is in, xFFFE / xFFFF are out; plane 14 starts at E1000)
    for c in ["\u{9F}", "\u{A0}", "\u{D7FF}", "\u{F900}", "\u{FDCF}", "\u{FDD0}", "\u{FDEF}", "\u{FDF0}", "\u{FFEF}", "\u{FFF0}", "\u{FFFD}", "\u{10000}", "\u{1FFFD}", "\u{1FFFE}", "\u{1FFFF}", "\u{20000}",
        "\u{DFFFD}", "\u{DFFFE}", "\u{E0000}", "\u{E0001}", "\u{E0FFF}", "\u{E1000}", "\u{EFFFD}", "\u{EFFFE}", "\u{F0000}", "\u{FFFFD}", "\u{FFFFE}", "\u{100000}", "\u{10FFFD}", "\u{10FFFE}", "\u{E000}", "\u{F8FF}"] {
        for t in ["http://a/{}", "http://{}/", "s:{}", "?{}", "#{}", "{}", "http://u{}@h/", "a/{}?{}"] {
            v.push(t.replace("{}", c));
        }
    }
    // control characters and line ends: a string is judged as a whole, not line by line
    for s in ["http://example.org/\n", "\nhttp://example.org/", "http://a/\n#f", "a\nb", "\n", "not an <IRI> at all\n", "http://a/b\r\n", "x:y\nz", "\n/a", "?q\n", "http://a/\t"] {
        v.push(s.to_string());
    }
    v.sort();
    v.dedup();
    v
}

fn mutate(rng: &mut Rng, s: &str) -> String {
    let cs: Vec<char> = s.chars().collect();
    let extra = ['a', ':', '/', '?', '#', '[', ']', '@', '%', '1', '.', 'f', 'v', ' ', 'é', '\u{E000}', '<', '\n', '0'];
    let mut out = cs.clone();
    match rng.below(3) {
        0 if !out.is_empty() => {
            out.remove(rng.below(out.len()));
        }
        1 => {
            let i = rng.below(out.len() + 1);
            out.insert(i, *rng.pick(&extra));
        }
        _ if !out.is_empty() => {
            let i = rng.below(out.len());
            out[i] = *rng.pick(&extra);
        }
        _ => out.push(*rng.pick(&extra)),
    }
    out.into_iter().collect()
}

pub fn main(args: &[String]) {
    quiet_panics();
    let seed = arg_u64(args, "--seed", 1);
    let out = arg(args, "--out").expect("--out");
    let maxlen = arg_u64(args, "--maxlen", 4) as usize;
    let hostlen = arg_u64(args, "--hostlen", 6) as usize;
    let nmut = arg_u64(args, "--mut", 3000) as usize;
    let npairs = arg_u64(args, "--pairs", 4000) as usize;
    let mode = arg(args, "--mode").unwrap_or("c09");
    let mut tr = Trace::create(out);
    let mut rng = Rng::new(seed ^ 0x09);
    let corp = corpus();
    if mode == "c09" {
        // (i) all strings up to maxlen over the 11-symbol alphabet; all bracketed hosts
        all_strings(&ALPHA, maxlen, &mut |s| {
            tr.emit(validate_event(s));
            if let Some(e) = asbase_event(s) {
                tr.emit(e);
            }
        });
        all_strings(&HOST_ALPHA, hostlen, &mut |h| {
            let s = format!("a://[{h}]");
            tr.emit(validate_event(&s));
            if let Some(e) = asbase_event(&s) {
                tr.emit(e);
            }
        });
        // (ii) grammar-directed corpus and its single-character mutations
        for s in &corp {
            tr.emit(validate_event(s));
            if let Some(e) = asbase_event(s) {
                tr.emit(e);
            }
        }
        for _ in 0..nmut {
            let base = rng.pick(&corp[..]).clone();
            let s = mutate(&mut rng, &base);
            tr.emit(validate_event(&s));
            if let Some(e) = asbase_event(&s) {
                tr.emit(e);
            }
        }
        // (ii') Namespace::new(ns) and Namespace::get(suffix): ns + suffix goes through the same validator
        let suffixes = ["", "a", "api", "1", "80", "x/y", ":", ":1", "#f", "%41", "%4", " ", "\u{e9}", "a b", "?q", "[", "@", ".", "-", "~", "//h", "a:b"];
        let nss: Vec<&String> = corp.iter().filter(|c| c.len() <= 40).collect();
        for (i, ns) in nss.iter().enumerate() {
            for (j, suffix) in suffixes.iter().enumerate() {
                if (i + j + seed as usize) % 7 != 0 {
                    continue;
                }
                let r = guarded(|| match sophia_api::ns::Namespace::new(ns.as_str()) {
                    Err(_) => (false, false, String::new()),
                    Ok(n) => match n.get(suffix) {
                        Err(_) => (true, false, String::new()),
                        Ok(t) => (true, true, sophia_api::term::Term::iri(&t).map(|x| x.to_string()).unwrap_or_default()),
                    },
                });
                let (panic, (new_ok, get_ok, got)) = match r { Ok(x) => (false, x), Err(_) => (true, (false, false, String::new())) };
                tr.emit(json!({"ev":"NsGet","ns":cps(ns),"suffix":cps(suffix),"new_ok":new_ok,"get_ok":get_ok,"iri":cps(&got),"panic":panic}));
            }
        }
        // (iii) resolution: pairs of accepted values (accepted by the toolkit's own validators)
        let mut pool: Vec<String> = vec![];
        all_strings(&ALPHA, maxlen.min(4), &mut |s| pool.push(s.to_string()));
        pool.extend(corp.iter().cloned());
        let bases: Vec<&String> = pool.iter().filter(|s| Iri::new(s.as_str()).is_ok()).collect();
        let refs: Vec<&String> = pool.iter().filter(|s| IriRef::new(s.as_str()).is_ok()).collect();
        for _ in 0..npairs {
            let b = *rng.pick(&bases);
            if rng.chance(1, 8) {
                // the short references of RFC 3986 5.2.2's special cases, against any base
                let r = *rng.pick(&["", "#s", "?y", ".", "..", "/", "//g", "./", "../", "g", "?", "#"]);
                tr.emit(resolve_event(b, r));
                continue;
            }
            let r = *rng.pick(&refs);
            tr.emit(resolve_event(b, r));
        }
        // RFC 3986 5.4 examples against the classic base, through every entry point
        for r in ["g:h", "g", "./g", "g/", "/g", "//g", "?y", "g?y", "#s", "g#s", "g?y#s", ";x", "g;x", "g;x?y#s", "", ".", "./", "..", "../", "../g", "../..", "../../", "../../g",
                  "../../../g", "../../../../g", "/./g", "/../g", "g.", ".g", "g..", "..g", "./../g", "./g/.", "g/./h", "g/../h", "g;x=1/./y", "g;x=1/../y", "g?y/./x", "g?y/../x", "g#s/./x", "g#s/../x"] {
            tr.emit(resolve_event("http://a/b/c/d;p?q", r));
            tr.emit(resolve_event("http://a/b/c/d;p?q#frag", r));
        }
    } else {
        // C17: relativise then resolve back
        let alpha = ['a', 'b', ':', '/', '?', '#', '.', 'é'];
        let mut pool: Vec<String> = vec![];
        all_strings(&alpha, maxlen, &mut |s| {
            if Iri::new(s).is_ok() && BaseIri::new(s).is_ok() {
                pool.push(s.to_string());
            }
        });
        for s in &corp {
            if Iri::new(s.as_str()).is_ok() && BaseIri::new(s.as_str()).is_ok() {
                pool.push(s.clone());
            }
        }
        // bases without a path whose authority ends with a multi-byte character, and relatives that extend the authority
        for b in ["a://\u{e9}", "http://\u{e9}", "a://b\u{e9}", "a://\u{e9}:80", "a://\u{1F600}", "a://\u{e9}/", "a://\u{e9}?q", "a://\u{e9}#f"] {
            pool.push(b.to_string());
            for ext in ["@h:/p", "a", "/p", ":8/p", "\u{e9}", "?x", "#y", "/"] {
                let c = format!("{b}{ext}");
                if Iri::new(c.as_str()).is_ok() {
                    pool.push(c);
                }
            }
        }
        // hierarchical families where relativisation is meant to work
        let segs = ["a", "b", "é", "a:b", ".", "..", ""];
        for _ in 0..400 {
            let n = 1 + rng.below(4);
            let mut p = String::from(*rng.pick(&["http://h", "x:", "x://h:80", "x:/"]));
            for _ in 0..n {
                p.push('/');
                p.push_str(*rng.pick(&segs));
            }
            p.push_str(*rng.pick(&["", "", "?q", "#f", "?q/r#f?g", "/"]));
            if Iri::new(p.as_str()).is_ok() && BaseIri::new(p.as_str()).is_ok() {
                pool.push(p);
            }
        }
        pool.sort();
        pool.dedup();
        // every pair of the non-ASCII-authority family, both directions
        let fam: Vec<String> = pool.iter().filter(|x| x.starts_with("a://\u{e9}") || x.starts_with("http://\u{e9}") || x.starts_with("a://b\u{e9}") || x.starts_with("a://\u{1F600}")).cloned().collect();
        for b in &fam {
            for i in &fam {
                tr.emit(relativize_event(b, i, if (b.len() + i.len()) % 2 == 0 { 0 } else { 3 }));
            }
        }
        for _ in 0..npairs {
            let b = rng.pick(&pool).clone();
            // half of the time a close relative of the base (same document, sibling, child, parent)
            let i = if rng.chance(1, 6) {
                // the same document: the base without its query / fragment, with another query and / or fragment
                let doc = &b[..b.find(['?', '#']).unwrap_or(b.len())];
                format!("{doc}{}", rng.pick(&["", "#y", "?x", "?x#y", "?", "#"]))
            } else if rng.chance(1, 2) {
                let cut = b.char_indices().map(|(i, _)| i).filter(|i| *i > 0).collect::<Vec<_>>();
                let at = if cut.is_empty() { b.len() } else { *rng.pick(&cut) };
                let cand = format!("{}{}", &b[..at], rng.pick(&["", "a", "/a", "?x", "#y", "a/b", "é", "a:b", "../a", "//a"]));
                if Iri::new(cand.as_str()).is_ok() { cand } else { b.clone() }
            } else {
                rng.pick(&pool).clone()
            };
            let n = *rng.pick(&[0u8, 1, 2, 3, 255]);
            tr.emit(relativize_event(&b, &i, n));
        }
    }
    println!("events {}", tr.finish());
}
