//! C07 driver: isomorphic_graphs / isomorphic_datasets on generalized datasets, their relabelled copies and
//! one-step mutants, over all pairs of container types and both argument orders.
use crate::store::{Q, q_json};
use crate::util::*;
use serde_json::{Value, json};
use sophia_api::dataset::Dataset;
use sophia_api::quad::{Gspo, Spog};
use sophia_api::term::{GraphName, SimpleTerm};
use sophia_inmem::dataset::{FastDataset, LightDataset};
use sophia_isomorphism::{isomorphic_datasets, isomorphic_graphs};
use std::collections::{BTreeSet, HashMap, HashSet};

pub fn rename(t: &ST, f: &HashMap<String, String>) -> ST {
    match t {
        SimpleTerm::BlankNode(b) => bn(f.get(b.as_str()).map(|s| s.as_str()).unwrap_or(b.as_str())),
        SimpleTerm::Triple(tr) => quoted(rename(&tr[0], f), rename(&tr[1], f), rename(&tr[2], f)),
        _ => t.clone(),
    }
}
pub fn rename_q(q: &Q, f: &HashMap<String, String>) -> Q {
    ([rename(&q.0[0], f), rename(&q.0[1], f), rename(&q.0[2], f)], q.1.as_ref().map(|g| rename(g, f)))
}
pub fn bnodes_of(t: &ST, out: &mut Vec<String>) {
    match t {
        SimpleTerm::BlankNode(b) => {
            if !out.iter().any(|x| x == b.as_str()) {
                out.push(b.to_string())
            }
        }
        SimpleTerm::Triple(tr) => {
            for x in tr.iter() {
                bnodes_of(x, out)
            }
        }
        _ => {}
    }
}
pub fn bnodes_of_ds(d: &[Q]) -> Vec<String> {
    let mut v = vec![];
    for q in d {
        for t in q.0.iter().chain(q.1.iter()) {
            bnodes_of(t, &mut v);
        }
    }
    v
}

/// random generalized term; `star` allows quoted triples (which may contain blank nodes)
pub fn rand_term(rng: &mut Rng, nb: usize, star: bool, depth: usize) -> ST {
    let k = rng.below(if star && depth < 2 { 12 } else { 10 });
    match k {
        0..=4 => bn(&format!("b{}", rng.below(nb.max(1)))),
        5 | 6 => iri(*rng.pick(&["http://ex/a", "http://ex/b", "http://ex/p"])),
        7 => lit_lang("l", *rng.pick(&["en", "EN", "fr"])),
        8 => lit_dt(*rng.pick(&["1", "x"]), &format!("{XSD}{}", *rng.pick(&["string", "string", "integer"]))),
        9 => iri("http://ex/p"),
        _ => quoted(rand_term(rng, nb, star, depth + 1), iri("http://ex/p"), rand_term(rng, nb, star, depth + 1)),
    }
}
/// term-wise equality (language tags compared case-insensitively): datasets are SETS of quads in this sense
pub fn same_quad(a: &Q, b: &Q) -> bool {
    use sophia_api::term::Term;
    (0..3).all(|i| Term::eq(&a.0[i], &b.0[i])) && match (&a.1, &b.1) {
        (None, None) => true,
        (Some(x), Some(y)) => Term::eq(x, y),
        _ => false,
    }
}
pub fn rand_dataset(rng: &mut Rng, star: bool, generalized: bool, graphs: bool) -> Vec<Q> {
    let nb = 1 + rng.below(4);
    let n = 1 + rng.below(5);
    let mut d: Vec<Q> = vec![];
    for _ in 0..n {
        let s = rand_term(rng, nb, star, 0);
        let p = if generalized && rng.chance(1, 4) { rand_term(rng, nb, false, 2) } else { iri(*rng.pick(&["http://ex/p", "http://ex/q"])) };
        let o = rand_term(rng, nb, star, 0);
        let g: GraphName<ST> = if graphs && rng.chance(1, 2) { Some(if rng.chance(1, 2) { bn(&format!("b{}", rng.below(nb))) } else { iri("http://ex/g") }) } else { None };
        let q: Q = ([s, p, o], g);
        if !d.iter().any(|x| same_quad(x, &q)) {
            d.push(q);
        }
    }
    d
}

fn results(d1: &[Q], d2: &[Q]) -> (Vec<bool>, Vec<String>) {
    let v1: Vec<Spog<ST>> = d1.to_vec();
    let v2: Vec<Spog<ST>> = d2.to_vec();
    let h2: HashSet<Spog<ST>> = d2.iter().cloned().collect();
    let b1: BTreeSet<Gspo<ST>> = d1.iter().map(|q| (q.1.clone(), q.0.clone())).collect();
    let f1: FastDataset = d1.iter().fold(FastDataset::new(), |mut acc, q| {
        sophia_api::dataset::MutableDataset::insert(&mut acc, &q.0[0], &q.0[1], &q.0[2], q.1.as_ref()).unwrap();
        acc
    });
    let l2: LightDataset = d2.iter().fold(LightDataset::new(), |mut acc, q| {
        sophia_api::dataset::MutableDataset::insert(&mut acc, &q.0[0], &q.0[1], &q.0[2], q.1.as_ref()).unwrap();
        acc
    });
    let mut res = vec![];
    let mut names = vec![];
    macro_rules! both {
        ($a:expr, $b:expr, $n:expr) => {
            res.push(isomorphic_datasets($a, $b).unwrap());
            names.push(format!("{} (d1,d2)", $n));
            res.push(isomorphic_datasets($b, $a).unwrap());
            names.push(format!("{} (d2,d1)", $n));
        };
    }
    both!(&v1, &v2, "Vec/Vec");
    // a container holding a statement twice (the Dataset trait allows it; a dataset is a set of quads all the same)
    if !d1.is_empty() {
        let mut v1dup = v1.clone();
        v1dup.push(v1[v1.len() / 2].clone());
        both!(&v1dup, &h2, "Vec-with-a-duplicate/HashSet");
    }
    both!(&v1, &h2, "Vec/HashSet");
    both!(&b1, &h2, "BTreeSet/HashSet");
    both!(&f1, &l2, "FastDataset/LightDataset");
    both!(&b1, &l2, "BTreeSet/LightDataset");
    // graphs, when everything is in the default graph
    if d1.iter().all(|q| q.1.is_none()) && d2.iter().all(|q| q.1.is_none()) {
        let g1: Vec<[ST; 3]> = d1.iter().map(|q| q.0.clone()).collect();
        let g2: HashSet<[ST; 3]> = d2.iter().map(|q| q.0.clone()).collect();
        res.push(isomorphic_graphs(&g1, &g2).unwrap());
        names.push("graphs Vec/HashSet (d1,d2)".into());
        res.push(isomorphic_graphs(&g2, &g1).unwrap());
        names.push("graphs Vec/HashSet (d2,d1)".into());
        // the same triples seen through views of a LARGER dataset (their size hints are those of the whole dataset): one named graph,
        // a partial union of two named graphs, and a graph wrapped as a dataset
        let (ga, gb, gc, gall): (ST, ST, ST, ST) = (iri("http://ex/view-a"), iri("http://ex/view-b"), iri("http://ex/view-c"), iri("http://ex/view-all"));
        let mut big: Vec<Spog<ST>> = vec![];
        for (i, q) in d1.iter().enumerate() {
            big.push((q.0.clone(), Some(if i % 2 == 0 { ga.clone() } else { gb.clone() })));
            big.push(([iri("http://ex/noise"), iri("http://ex/p"), q.0[2].clone()], Some(gc.clone())));
            big.push((q.0.clone(), Some(gall.clone())));
        }
        let big: Vec<Spog<ST>> = big.into_iter().fold(vec![], |mut acc, q| {
            if !acc.iter().any(|x| same_quad(x, &q)) {
                acc.push(q);
            }
            acc
        });
        let va = big.graph(Some(gall.clone()));
        res.push(isomorphic_graphs(&va, &g2).unwrap());
        names.push("graphs DatasetGraph-view/HashSet (d1,d2)".into());
        res.push(isomorphic_graphs(&g2, &va).unwrap());
        names.push("graphs DatasetGraph-view/HashSet (d2,d1)".into());
        let sel = [Some(ga.clone()), Some(gb.clone())];
        let vu = big.partial_union_graph(sophia_api::term::matcher::GraphNameMatcher::matcher_ref(&sel));
        res.push(isomorphic_graphs(&vu, &g2).unwrap());
        names.push("graphs PartialUnionGraph-view/HashSet (d1,d2)".into());
        res.push(isomorphic_graphs(&g2, &vu).unwrap());
        names.push("graphs PartialUnionGraph-view/HashSet (d2,d1)".into());
        // a view that yields a triple twice (it sits in both graphs of the partial union) against the set of triples
        let mut both: Vec<Spog<ST>> = vec![];
        for (i, q) in d1.iter().enumerate() {
            both.push((q.0.clone(), Some(ga.clone())));
            if i % 2 == 0 {
                both.push((q.0.clone(), Some(gb.clone())));
            }
        }
        let vd = both.partial_union_graph(sophia_api::term::matcher::GraphNameMatcher::matcher_ref(&sel));
        res.push(isomorphic_graphs(&vd, &g2).unwrap());
        names.push("graphs overlapping-PartialUnionGraph-view/HashSet (d1,d2)".into());
        res.push(isomorphic_graphs(&g2, &vd).unwrap());
        names.push("graphs overlapping-PartialUnionGraph-view/HashSet (d2,d1)".into());
        let wd = sophia_api::graph::Graph::as_dataset(&g1);
        res.push(isomorphic_datasets(&wd, &h2).unwrap());
        names.push("GraphAsDataset/HashSet (d1,d2)".into());
        res.push(isomorphic_datasets(&h2, &wd).unwrap());
        names.push("GraphAsDataset/HashSet (d2,d1)".into());
    }
    (res, names)
}

/// a term differing from `t` in one ground detail (None if `t` has no ground part)
fn nuance(rng: &mut Rng, t: &ST) -> Option<ST> {
    match t {
        SimpleTerm::Iri(i) => Some(iri(&format!("{}x", i.as_str()))),
        SimpleTerm::LiteralLanguage(l, tag) => Some(if rng.chance(1, 2) { lit_lang(l, if tag.as_str().eq_ignore_ascii_case("en") { "fr" } else { "en" }) } else { lit_lang(&format!("{l}x"), tag.as_str()) }),
        SimpleTerm::LiteralDatatype(l, dt) => Some(if rng.chance(1, 2) { lit_dt(l, &format!("{}x", dt.as_str())) } else { lit_dt(&format!("{l}x"), dt.as_str()) }),
        SimpleTerm::Triple(tr) => {
            let order: Vec<usize> = { let mut o = vec![0, 1, 2]; rng.shuffle(&mut o); o };
            for k in order {
                if let Some(x) = nuance(rng, &tr[k]) {
                    let mut c = (**tr).clone();
                    c[k] = x;
                    return Some(SimpleTerm::Triple(Box::new(c)));
                }
            }
            None
        }
        _ => None,
    }
}

fn emit(tr: &mut Trace, kind: &str, d1: &[Q], d2: &[Q]) {
    match guarded(|| results(d1, d2)) {
        Ok((res, names)) => tr.emit(json!({"ev":"Iso","kind":kind,"d1":d1.iter().map(q_json).collect::<Vec<_>>(),"d2":d2.iter().map(q_json).collect::<Vec<_>>(),"res":res,"names":names})),
        Err(m) => tr.emit(json!({"ev":"Panic","msg":m,"kind":kind,"d1":d1.iter().map(q_json).collect::<Vec<_>>(),"d2":d2.iter().map(q_json).collect::<Vec<_>>()})),
    }
}

pub fn relabel(rng: &mut Rng, d: &[Q]) -> Vec<Q> {
    let bs = bnodes_of_ds(d);
    let mut targets: Vec<String> = (0..bs.len()).map(|i| format!("x{i}")).collect();
    rng.shuffle(&mut targets);
    // sometimes reuse the SAME label set permuted (a permutation of labels is also a bijection)
    if rng.chance(1, 3) {
        targets = bs.clone();
        rng.shuffle(&mut targets);
    }
    let f: HashMap<String, String> = bs.iter().cloned().zip(targets).collect();
    let mut out: Vec<Q> = d.iter().map(|q| rename_q(q, &f)).collect();
    rng.shuffle(&mut out);
    out
}

pub fn main(args: &[String]) {
    quiet_panics();
    let seed = arg_u64(args, "--seed", 1);
    let out = arg(args, "--out").expect("--out");
    let n = arg_u64(args, "--n", 1000) as usize;
    let mut tr = Trace::create(out);
    let mut rng = Rng::new(seed ^ 0x07);
    // aimed: statements that differ ONLY in one component of a quoted triple (which holds blank nodes), compared with a copy whose
    // labels are renamed so that their order is reversed (b0 -> z9, b1 -> z8 ...): an order on quoted triples that ignores a component
    // leaves such statements tied, and the tie is broken differently on the two sides
    for i in 0..n / 10 {
        let p = iri("http://ex/p");
        let k = 2 + rng.below(2);
        let mut d: Vec<Q> = vec![];
        for j in 0..k {
            let varying = lit_dt(&format!("o{j}"), &format!("{XSD}string"));
            let qt = match i % 3 {
                0 => quoted(bn(&format!("b{j}")), p.clone(), varying),                  // differ in the object
                1 => quoted(varying, p.clone(), bn(&format!("b{j}"))),                  // differ in the subject
                _ => quoted(bn(&format!("b{j}")), p.clone(), quoted(bn("b0"), p.clone(), varying)),   // differ one level down
            };
            let q: Q = if i % 2 == 0 { ([qt, p.clone(), iri("http://ex/a")], None) } else { ([iri("http://ex/a"), p.clone(), qt], if i % 4 == 1 { Some(iri("http://ex/g")) } else { None }) };
            d.push(q);
        }
        let f: HashMap<String, String> = (0..k).map(|j| (format!("b{j}"), format!("z{}", 9 - j))).collect();
        let mut r: Vec<Q> = d.iter().map(|q| rename_q(q, &f)).collect();
        if i % 2 == 1 {
            r.reverse();
        }
        emit(&mut tr, "relabel", &d, &r);
        emit(&mut tr, "self", &d, &d);
    }
    for i in 0..n {
        let star = i % 3 != 0;
        let d = rand_dataset(&mut rng, star, i % 4 == 0, i % 2 == 0);
        emit(&mut tr, "self", &d, &d);
        let r = relabel(&mut rng, &d);
        emit(&mut tr, "relabel", &d, &r);
        // one-step mutants of the relabelled copy
        if !r.is_empty() {
            let mut m = r.clone();
            m.remove(rng.below(m.len()));
            emit(&mut tr, "quad-removed", &d, &m);
            let mut m = r.clone();
            let extra = rand_dataset(&mut rng, star, false, true);
            if !m.iter().any(|x| same_quad(x, &extra[0])) {
                m.push(extra[0].clone());
                emit(&mut tr, "quad-added", &d, &m);
            }
            // a ground term changed
            let mut m = r.clone();
            let qi = rng.below(m.len());
            let pos = rng.below(3);
            if !matches!(m[qi].0[pos], SimpleTerm::BlankNode(_)) {
                m[qi].0[pos] = iri("http://ex/other");
                if (0..m.len()).all(|j| j == qi || !same_quad(&m[j], &m[qi])) {
                    emit(&mut tr, "ground-changed", &d, &m);
                }
            }
            // a ground term changed only slightly: the language tag, the datatype or the lexical form of a literal, the last character
            // of an IRI - at top level or inside a quoted triple, in a statement with or without blank nodes
            let mut m = r.clone();
            let qi = rng.below(m.len());
            let pos = rng.below(3);
            if let Some(t2) = nuance(&mut rng, &m[qi].0[pos]) {
                m[qi].0[pos] = t2;
                if (0..m.len()).all(|j| j == qi || !same_quad(&m[j], &m[qi])) {
                    emit(&mut tr, "ground-nuance", &d, &m);
                }
            }
            // graph name dropped / added
            let mut m = r.clone();
            let qi = rng.below(m.len());
            m[qi].1 = if m[qi].1.is_some() { None } else { Some(iri("http://ex/g")) };
            if (0..m.len()).all(|j| j == qi || !same_quad(&m[j], &m[qi])) {
                emit(&mut tr, "graph-moved", &d, &m);
            }
            // two blank nodes merged
            let bs = bnodes_of_ds(&r);
            if bs.len() >= 2 {
                let mut f = HashMap::new();
                f.insert(bs[0].clone(), bs[1].clone());
                let mut m: Vec<Q> = vec![];
                for q in r.iter().map(|q| rename_q(q, &f)) {
                    if !m.iter().any(|x| same_quad(x, &q)) {
                        m.push(q);
                    }
                }
                emit(&mut tr, "bnodes-merged", &d, &m);
            }
            // one occurrence of a blank node split off
            if !bs.is_empty() {
                let mut m = r.clone();
                'outer: for q in m.iter_mut() {
                    for pos in 0..3 {
                        if let SimpleTerm::BlankNode(_) = q.0[pos] {
                            q.0[pos] = bn("fresh");
                            break 'outer;
                        }
                    }
                }
                emit(&mut tr, "bnode-split", &d, &m);
            }
        }
    }
    println!("events {}", tr.finish());
}
