//! C05 / C06 drivers: RDFC-1.0 canonicalisation of symmetric blank-node structures.
use crate::iso::{bnodes_of_ds, relabel};
use crate::store::{Q, q_json};
use crate::util::*;
use serde_json::{Value, json};
use sophia_api::dataset::{MutableDataset, SetDataset};
use sophia_api::quad::{Gspo, Quad, Spog};
use sophia_api::term::{GraphName, SimpleTerm};
use sophia_c14n::C14nError;
use sophia_c14n::hash::HashFunction;
use sophia_c14n::rdfc10;
use sophia_inmem::dataset::{FastDataset, LightDataset};
use std::collections::{BTreeSet, HashSet};

/// toy hash shared with Rdfc10.tla: four 15-bit polynomial hashes of the input bytes, 8 output bytes
pub struct Toy<const SEED: u32>([u32; 4]);
const MULT: [u32; 4] = [31, 37, 41, 43];
const PRIME: [u32; 4] = [32749, 32719, 32717, 32713];
const INIT: [u32; 4] = [7, 11, 13, 17];
impl<const SEED: u32> HashFunction for Toy<SEED> {
    type Output = [u8; 8];
    fn initialize() -> Self {
        Toy([INIT[0] + SEED, INIT[1] + SEED, INIT[2] + SEED, INIT[3] + SEED])
    }
    fn update(&mut self, data: impl AsRef<[u8]>) {
        for b in data.as_ref() {
            for i in 0..4 {
                self.0[i] = (self.0[i] * MULT[i] + *b as u32) % PRIME[i];
            }
        }
    }
    fn finalize(self) -> [u8; 8] {
        let mut o = [0u8; 8];
        for i in 0..4 {
            o[2 * i] = (self.0[i] >> 8) as u8;
            o[2 * i + 1] = (self.0[i] & 0xff) as u8;
        }
        o
    }
}

/// the same with a 48-byte digest (as SHA-384's): six toy hashes with seeds SEED, SEED + 3, ... side by side (Rdfc10.tla: Wide)
pub struct ToyWide<const SEED: u32>([[u32; 4]; 6]);
impl<const SEED: u32> HashFunction for ToyWide<SEED> {
    type Output = [u8; 48];
    fn initialize() -> Self {
        let mut st = [[0u32; 4]; 6];
        for (k, part) in st.iter_mut().enumerate() {
            for i in 0..4 {
                part[i] = INIT[i] + SEED + 3 * k as u32;
            }
        }
        ToyWide(st)
    }
    fn update(&mut self, data: impl AsRef<[u8]>) {
        for b in data.as_ref() {
            for part in self.0.iter_mut() {
                for i in 0..4 {
                    part[i] = (part[i] * MULT[i] + *b as u32) % PRIME[i];
                }
            }
        }
    }
    fn finalize(self) -> [u8; 48] {
        let mut o = [0u8; 48];
        for (k, part) in self.0.iter().enumerate() {
            for i in 0..4 {
                o[8 * k + 2 * i] = (part[i] >> 8) as u8;
                o[8 * k + 2 * i + 1] = (part[i] & 0xff) as u8;
            }
        }
        o
    }
}

fn b(i: usize) -> ST {
    bn(&format!("e{i}"))
}
fn p(i: usize) -> ST {
    iri(&format!("http://ex/p{i}"))
}

/// symmetric structures over n blank nodes
pub fn structure(rng: &mut Rng, kind: usize) -> Vec<Q> {
    let n = 2 + rng.below(4);
    let mut d: Vec<Q> = vec![];
    let mut push = |d: &mut Vec<Q>, s: ST, pp: ST, o: ST, g: GraphName<ST>| {
        let q: Q = ([s, pp, o], g);
        if !d.iter().any(|x| crate::iso::same_quad(x, &q)) {
            d.push(q);
        }
    };
    match kind % 16 {
        0 => {
            for i in 0..n {
                push(&mut d, b(i), p(0), b((i + 1) % n), None);
            }
        }
        1 => {
            let n = n.min(4);
            for i in 0..n {
                for j in 0..n {
                    if i != j {
                        push(&mut d, b(i), p(0), b(j), None);
                    }
                }
            }
        }
        2 => {
            for t in 0..2 {
                for i in 0..3 {
                    push(&mut d, b(3 * t + i), p(0), b(3 * t + (i + 1) % 3), None);
                }
            }
        }
        3 => {
            for i in 1..=n {
                push(&mut d, b(0), p(0), b(i), None);
            }
        }
        4 => {
            for i in 0..2 {
                for j in 2..5 {
                    push(&mut d, b(i), p(0), b(j), None);
                }
            }
        }
        5 => {
            for i in 0..n {
                push(&mut d, b(i), p(0), b((i + 1) % n), None);
            }
            push(&mut d, b(0), p(0), b(n / 2), None);
        }
        6 => {
            for i in 0..n {
                push(&mut d, b(i), p(0), b((i + 1) % n), None);
                push(&mut d, b((i + 1) % n), p(0), b(i), None);
            }
        }
        7 => {
            // blank graph names, subject reused as graph name
            for i in 0..n {
                push(&mut d, b(i), p(0), b((i + 1) % n), Some(b(i)));
            }
        }
        8 => {
            // same statement in two graphs, self loops
            for i in 0..n.min(3) {
                push(&mut d, b(i), p(0), b(i), None);
                push(&mut d, b(i), p(0), b((i + 1) % n.min(3)), Some(iri("http://ex/g")));
                push(&mut d, b(i), p(0), b((i + 1) % n.min(3)), None);
            }
        }
        9 => {
            // copies of a rooted star whose arms have tails of different lengths: the root's related nodes tie at first
            // degree but are not interchangeable (the permutation choice of Hash N-Degree Quads matters)
            let copies = 1 + rng.below(2);
            let arms = 2 + rng.below(2);
            let mut next = 0;
            for _ in 0..copies {
                let root = next;
                next += 1;
                for j in 0..arms {
                    let mut cur = next;
                    next += 1;
                    push(&mut d, b(root), p(0), b(cur), None);
                    for _ in 0..j {
                        push(&mut d, b(cur), p(0), b(next), None);
                        cur = next;
                        next += 1;
                    }
                    if rng.chance(1, 2) {
                        push(&mut d, b(cur), p(1), iri("http://ex/end"), None);
                    }
                }
            }
        }
        11 => {
            // holders whose 'holder p friend' statement sits in TWO graphs (the friend is related twice, with the same related hash);
            // the holders share their first degree hash and differ only through marks on their friends
            let k = 2 + rng.below(2);
            let g2 = if rng.chance(1, 2) { Some(iri("http://ex/g")) } else { Some(iri("http://ex/g2")) };
            for i in 0..k {
                push(&mut d, b(i), p(0), b(10 + i), None);
                push(&mut d, b(i), p(0), b(10 + i), g2.clone());
                push(&mut d, b(10 + i), p(1), lit_dt(&format!("mark{}", rng.below(50)), &format!("{XSD}string")), None);
            }
            if rng.chance(1, 3) {
                push(&mut d, b(0), p(1), b(1), None);
            }
        }
        10 => {
            // blank nodes that can be told apart ONLY through the blank graph name of their statement
            let k = 2 + rng.below(2);
            for i in 0..k {
                push(&mut d, b(i), p(0), iri("http://ex/o"), Some(b(10 + i)));
                push(&mut d, b(10 + i), p(1), iri(&format!("http://ex/mark{i}")), None);
            }
            if rng.chance(1, 2) {
                push(&mut d, b(0), p(0), b(1), None);
                push(&mut d, b(1), p(0), b(0), None);
            }
        }
        13 if (kind / 16) % 4 == 0 => {
            // twins across graphs: a-x in one graph and a-y in another, b-y in the first and b-x in the second (k such pairs on a ring).
            // From a's side x and y have the same related hash (position, predicate, first-degree hash - not the quad's graph name)
            // without being interchangeable.
            let k = if rng.chance(1, 6) { 3 } else { 2 };
            let (g1, g2): (GraphName<ST>, GraphName<ST>) = match rng.below(3) {
                0 => (Some(iri("http://ex/g")), None),
                1 => (Some(iri("http://ex/g")), Some(iri("http://ex/h"))),
                _ => (None, Some(iri("http://ex/g"))),
            };
            for i in 0..k {
                push(&mut d, b(i), p(0), b(10 + i), g1.clone());
                push(&mut d, b(i), p(0), b(10 + (i + 1) % k), g2.clone());
            }
        }
        14 => {
            // double edges: n_i -p-> x_i and n_i -q-> x_i (two statements between the same pair, same direction), the pairs chained
            // x_i -p-> n_(i+1): n_1, n_2 ... tie at first degree without being interchangeable
            let k = 2 + rng.below(2);
            for i in 0..k {
                push(&mut d, b(i), p(0), b(10 + i), None);
                push(&mut d, b(i), p(1), b(10 + i), None);
                if i + 1 < k {
                    push(&mut d, b(10 + i), p(0), b(i + 1), None);
                }
            }
            if rng.chance(1, 2) {
                push(&mut d, b(10 + k - 1), p(0), b(k), None);
                push(&mut d, b(k), p(0), b(10 + k), None);
                push(&mut d, b(k), p(1), b(10 + k), None);
            }
        }
        15 => {
            // blank nodes that differ ONLY in the case of a language tag, or in one escape-relevant character of a literal
            let pairs: [(ST, ST); 4] = [
                (lit_lang("chat", "fr-be"), lit_lang("chat", "fr-BE")),
                (lit_dt("a\\n", &format!("{XSD}string")), lit_dt("a\n", &format!("{XSD}string"))),
                (lit_dt("\\", &format!("{XSD}string")), lit_dt("\\\\", &format!("{XSD}string"))),
                (lit_lang("x", "EN"), lit_lang("x", "en")),
            ];
            let (l1, l2) = rng.pick(&pairs).clone();
            push(&mut d, b(0), p(0), l1, None);
            push(&mut d, b(1), p(0), l2, None);
            if rng.chance(1, 2) {
                push(&mut d, b(0), p(1), b(2), None);
                push(&mut d, b(1), p(1), b(3), None);
            }
        }
        _ => {
            let m = 1 + rng.below(7);
            for _ in 0..m {
                let s = if rng.chance(3, 4) { b(rng.below(n)) } else { iri("http://ex/a") };
                let o = match rng.below(6) {
                    0 => iri("http://ex/a"),
                    1 => lit_dt("a\"\n\u{7}é\u{85}\\", &format!("{XSD}string")),
                    2 => lit_lang("chat", *rng.pick(&["en", "fr-BE"])),
                    _ => b(rng.below(n)),
                };
                let g = match rng.below(4) {
                    0 => Some(b(rng.below(n))),
                    1 => Some(iri("http://ex/g")),
                    _ => None,
                };
                push(&mut d, s, p(rng.below(2)), o, g);
            }
        }
    }
    // decorations that break or keep symmetry
    if rng.chance(1, 3) {
        let i = rng.below(n);
        push(&mut d, b(i), p(1), lit_dt(*rng.pick(&["x", "x", "a\\n", "\\", "tab\there"]), &format!("{XSD}string")), None);
    }
    d
}

fn err_kind<E: std::error::Error + Send + Sync + 'static>(e: &C14nError<E>) -> &'static str {
    match e {
        C14nError::Dataset(_) => "dataset",
        C14nError::Io(_) => "io",
        C14nError::ToxicGraph(_) => "toxic",
        C14nError::Unsupported(_) => "unsupported",
    }
}
fn res_json<E: std::error::Error + Send + Sync + 'static>(r: Result<Vec<u8>, C14nError<E>>) -> Value {
    match r {
        Ok(bytes) => json!({"k":"ok","text":cps(&String::from_utf8_lossy(&bytes))}),
        Err(e) => json!({"k":err_kind(&e),"text":[]}),
    }
}
fn norm<D: SetDataset>(d: &D, sha384: bool) -> Value {
    let mut out = vec![];
    let r = if sha384 { rdfc10::normalize_sha384(d, &mut out) } else { rdfc10::normalize(d, &mut out) };
    res_json(r.map(|()| out))
}
fn relabel_json<D: SetDataset>(d: &D, sha384: bool) -> Value {
    let r = if sha384 { rdfc10::relabel_sha384(d) } else { rdfc10::relabel(d) };
    match r {
        Ok((quads, idmap)) => {
            let qs: Vec<Value> = quads.iter().map(|q| quad_json(q.s(), q.p(), q.o(), q.g())).collect();
            let im: Vec<Value> = idmap.iter().map(|(k, v)| json!([cps(k), cps(v.as_str())])).collect();
            json!({"k":"ok","quads":qs,"idmap":im})
        }
        Err(e) => json!({"k":err_kind(&e),"quads":[],"idmap":[]}),
    }
}
fn fill<D: MutableDataset + Default>(d: &[Q]) -> D {
    let mut x = D::default();
    for q in d {
        x.insert(&q.0[0], &q.0[1], &q.0[2], q.1.as_ref()).unwrap();
    }
    x
}
fn content<D: SetDataset>(x: &D) -> Vec<Value> {
    x.quads().map(|q| q.unwrap()).map(|q| quad_json(q.s(), q.p(), q.o(), q.g())).collect()
}
fn member(d: &[Q], container: usize) -> Value {
    // the dataset under test is what the container holds (an indexed store keeps the first spelling of a language tag)
    // spellings of one language tag that differ in case are one term for an indexed store (it keeps the first): such datasets are only
    // held in containers that keep every statement as given
    let mut tags: Vec<String> = vec![];
    for q in d {
        for t in q.0.iter() {
            if let Some(tag) = sophia_api::term::Term::language_tag(t) {
                tags.push(tag.as_str().to_string());
            }
        }
    }
    let case_variants = tags.iter().any(|a| tags.iter().any(|b| a != b && a.eq_ignore_ascii_case(b)));
    let (name, n256, n384, rl, rl2, held) = match if case_variants { container % 2 } else { container % 4 } {
        0 => {
            let x: HashSet<Spog<ST>> = d.iter().cloned().collect();
            ("HashSet<Spog>", norm(&x, false), norm(&x, true), relabel_json(&x, false), relabel_json(&x, true), content(&x))
        }
        1 => {
            let x: BTreeSet<Gspo<ST>> = d.iter().map(|q| (q.1.clone(), q.0.clone())).collect();
            ("BTreeSet<Gspo>", norm(&x, false), norm(&x, true), relabel_json(&x, false), relabel_json(&x, true), content(&x))
        }
        2 => {
            let x: FastDataset = fill(d);
            ("FastDataset", norm(&x, false), norm(&x, true), relabel_json(&x, false), relabel_json(&x, true), content(&x))
        }
        _ => {
            let x: LightDataset = fill(d);
            ("LightDataset", norm(&x, false), norm(&x, true), relabel_json(&x, false), relabel_json(&x, true), content(&x))
        }
    };
    let _ = d;
    json!({"d": held, "container": name, "copy": false, "sha256": n256, "sha384": n384, "rl256": rl, "rl384": rl2})
}

fn toy<const SEED: u32>(d: &[Q], depth_factor: f32, perm_limit: usize) -> Value {
    let x: HashSet<Spog<ST>> = d.iter().cloned().collect();
    let mut out = vec![];
    let r = rdfc10::normalize_with::<Toy<SEED>, _, _>(&x, &mut out, depth_factor, perm_limit);
    res_json(r.map(|()| out))
}
fn toy_wide(d: &[Q], depth_factor: f32, perm_limit: usize) -> Value {
    let x: HashSet<Spog<ST>> = d.iter().cloned().collect();
    let mut out = vec![];
    let r = rdfc10::normalize_with::<ToyWide<0>, _, _>(&x, &mut out, depth_factor, perm_limit);
    res_json(r.map(|()| out))
}
fn toy_idmap<const SEED: u32>(d: &[Q]) -> Value {
    let x: HashSet<Spog<ST>> = d.iter().cloned().collect();
    match rdfc10::relabel_with::<Toy<SEED>, _>(&x, rdfc10::DEFAULT_DEPTH_FACTOR, rdfc10::DEFAULT_PERMUTATION_LIMIT) {
        Ok((_, idmap)) => Value::Array(idmap.iter().map(|(k, v)| json!([cps(k), cps(v.as_str())])).collect()),
        Err(_) => json!([]),
    }
}

pub fn main(args: &[String]) {
    quiet_panics();
    let seed = arg_u64(args, "--seed", 1);
    let out = arg(args, "--out").expect("--out");
    let n = arg_u64(args, "--n", 200) as usize;
    let mode = arg(args, "--mode").unwrap_or("sha");
    let mut tr = Trace::create(out);
    let mut rng = Rng::new(seed ^ 0x05);
    // given datasets (one JSON array of quads per line) through the toy-hash instantiations: the W3C transcription judges each
    if let Some(path) = arg(args, "--datasets") {
        for line in std::fs::read_to_string(path).expect("datasets").lines().filter(|l| !l.trim().is_empty()) {
            let v: Value = serde_json::from_str(line).expect("dataset line");
            let d: Vec<Q> = v.as_array().expect("array of quads").iter().map(crate::store::json_q).collect();
            for seedv in 0..3 {
                let r = guarded(|| match seedv {
                    0 => (toy::<0>(&d, rdfc10::DEFAULT_DEPTH_FACTOR, rdfc10::DEFAULT_PERMUTATION_LIMIT), toy_idmap::<0>(&d)),
                    1 => (toy::<1>(&d, rdfc10::DEFAULT_DEPTH_FACTOR, rdfc10::DEFAULT_PERMUTATION_LIMIT), toy_idmap::<1>(&d)),
                    _ => (toy::<2>(&d, rdfc10::DEFAULT_DEPTH_FACTOR, rdfc10::DEFAULT_PERMUTATION_LIMIT), toy_idmap::<2>(&d)),
                });
                match r {
                    Ok((res, idmap)) => tr.emit(json!({"ev":"Toy","d":d.iter().map(q_json).collect::<Vec<_>>(),"seed":seedv,"depth_num":(rdfc10::DEFAULT_DEPTH_FACTOR * 2.0) as u32,"perm_limit":rdfc10::DEFAULT_PERMUTATION_LIMIT,"res":res,"idmap":idmap})),
                    Err(m) => tr.emit(json!({"ev":"Panic","msg":m,"d":d.iter().map(q_json).collect::<Vec<_>>()})),
                }
            }
        }
        println!("events {}", tr.finish());
        return;
    }
    for i in 0..n {
        let d = structure(&mut rng, i);
        if mode == "sha" {
            // a batch: the structure, a relabelled+shuffled copy in another container, two neighbours
            let r = guarded(|| {
                let mut members = vec![member(&d, i)];
                let c = relabel(&mut rng, &d);
                let mut m2 = member(&c, i + 1);
                m2["copy"] = json!(true); // a relabelled, reordered copy of the first member: isomorphic by construction
                members.push(m2);
                let c2 = relabel(&mut rng, &c);
                let mut m3 = member(&c2, i + 2);
                m3["copy"] = json!(true);
                members.push(m3);
                // neighbour: one edge redirected
                let mut nb = relabel(&mut rng, &d);
                let bs = bnodes_of_ds(&nb);
                if !nb.is_empty() && !bs.is_empty() {
                    let qi = rng.below(nb.len());
                    nb[qi].0[2] = bn(rng.pick(&bs[..]).as_str());
                    let mut dedup: Vec<Q> = vec![];
                    for q in nb {
                        if !dedup.iter().any(|x| crate::iso::same_quad(x, &q)) {
                            dedup.push(q);
                        }
                    }
                    members.push(member(&dedup, i + 3));
                }
                // neighbour: one edge removed
                let mut nb = relabel(&mut rng, &d);
                if nb.len() > 1 {
                    nb.remove(rng.below(nb.len()));
                    members.push(member(&nb, i));
                }
                // neighbour: a statement moved between the default graph and a named graph
                let mut nb = relabel(&mut rng, &d);
                if !nb.is_empty() {
                    let qi = rng.below(nb.len());
                    nb[qi].1 = if nb[qi].1.is_some() { None } else { Some(iri("http://ex/g")) };
                    let mut dedup: Vec<Q> = vec![];
                    for q in nb {
                        if !dedup.iter().any(|x| crate::iso::same_quad(x, &q)) {
                            dedup.push(q);
                        }
                    }
                    members.push(member(&dedup, i + 1));
                }
                members
            });
            match r {
                Ok(members) => tr.emit(json!({"ev":"Batch","members":members})),
                Err(m) => tr.emit(json!({"ev":"Panic","msg":m,"d":d.iter().map(q_json).collect::<Vec<_>>()})),
            }
        } else {
            // C06: same computable hash on both sides; several seeds permute the order of hash values
            let c = relabel(&mut rng, &d);
            let r = guarded(|| {
                let (df, pl) = match i % 7 {
                    0 => (0.5f32, 6usize),
                    1 => (1.0, 1),
                    2 => (1.0, 2),
                    3 => (2.0, 6),
                    _ => (rdfc10::DEFAULT_DEPTH_FACTOR, rdfc10::DEFAULT_PERMUTATION_LIMIT),
                };
                let (res, idmap, seedv) = match if i % 17 == 16 { 3 } else { i % 3 } {   // (17: every structure kind meets the wide digest)
                    3 => (toy_wide(&c, df, pl), json!([]), 100),
                    0 => (toy::<0>(&c, df, pl), toy_idmap::<0>(&c), 0),
                    1 => (toy::<1>(&c, df, pl), toy_idmap::<1>(&c), 1),
                    _ => (toy::<2>(&c, df, pl), toy_idmap::<2>(&c), 2),
                };
                json!({"ev":"Toy","d":c.iter().map(q_json).collect::<Vec<_>>(),"seed":seedv,"depth_num":(df * 2.0) as u32,"perm_limit":pl,"res":res,"idmap":idmap})
            });
            match r {
                Ok(e) => tr.emit(e),
                Err(m) => tr.emit(json!({"ev":"Panic","msg":m,"d":c.iter().map(q_json).collect::<Vec<_>>()})),
            }
        }
    }
    // unsupported input must be reported as such
    if mode == "toy" {
        let bad: Vec<Vec<Q>> = vec![
            vec![([b(0), b(1), b(2)], None)],
            vec![([quoted(b(0), p(0), b(1)), p(0), b(2)], None)],
            vec![([b(0), p(0), var("x")], None)],
            vec![([b(0), p(0), b(1)], Some(quoted(b(0), p(0), b(1))))],
        ];
        for d in bad {
            let e = guarded(|| json!({"ev":"Toy","d":d.iter().map(q_json).collect::<Vec<_>>(),"seed":0,"depth_num":2,"perm_limit":6,"res":toy::<0>(&d, 1.0, 6),"idmap":[]}));
            match e {
                Ok(e) => tr.emit(e),
                Err(m) => tr.emit(json!({"ev":"Panic","msg":m,"d":d.iter().map(q_json).collect::<Vec<_>>()})),
            }
        }
    }
    let _ = SimpleTerm::from_term_ref(&b(0));
    println!("events {}", tr.finish());
}
