//! C15 driver: sources -> adapter chains -> sinks with one injected fault, on the real combinators.
use crate::store::{Tiny5, Tiny3};
use crate::streams_chains::{dispatch_int, dispatch_tri};
use crate::util::*;
use serde_json::{Value, json};
use sophia_api::graph::{Graph, MutableGraph};
use sophia_api::dataset::Dataset;
use sophia_api::quad::{Quad, Spog};
use sophia_api::source::{QuadSource, Source, StreamError, TripleSource};
use sophia_inmem::dataset::{FastDataset, LightDataset};
use std::collections::HashSet;
use sophia_api::term::Term;
use sophia_api::triple::Triple;
use sophia_inmem::graph::GenericFastGraph;
use sophia_inmem::index::SimpleTermIndex;
use std::cell::Cell;
use std::rc::Rc;

#[derive(Debug, Clone, PartialEq)]
pub struct TestErr(pub u32);
impl std::fmt::Display for TestErr {
    fn fmt(&self, f: &mut std::fmt::Formatter<'_>) -> std::fmt::Result {
        write!(f, "TestErr({})", self.0)
    }
}
impl std::error::Error for TestErr {}

/// iterator source over item ids with one injected `Err` at position k (1-based; 0 = none); counts pulls
pub struct CountingIter {
    pub items: Vec<Result<u32, TestErr>>,
    pub pos: usize,
    pub pulled: Rc<Cell<usize>>,
}
impl CountingIter {
    pub fn new(src: &[u32], k: usize) -> (Self, Rc<Cell<usize>>) {
        let mut items: Vec<Result<u32, TestErr>> = vec![];
        for (i, v) in src.iter().enumerate() {
            if k == i + 1 {
                items.push(Err(TestErr(1000 + k as u32)));
            }
            items.push(Ok(*v));
        }
        if k == src.len() + 1 {
            items.push(Err(TestErr(1000 + k as u32)));
        }
        let c = Rc::new(Cell::new(0));
        (CountingIter { items, pos: 0, pulled: c.clone() }, c)
    }
}
impl Iterator for CountingIter {
    type Item = Result<u32, TestErr>;
    fn next(&mut self) -> Option<Self::Item> {
        if self.pos < self.items.len() {
            self.pos += 1;
            self.pulled.set(self.pulled.get() + 1);
            Some(self.items[self.pos - 1].clone())
        } else {
            None
        }
    }
}

pub fn f_map(x: u32) -> u32 {
    x + 10
}
pub fn f_filter(x: &u32) -> bool {
    *x % 2 == 0
}
pub fn f_fmap(x: u32) -> Option<u32> {
    if x % 3 == 0 { None } else { Some(x * 2) }
}

pub struct Outcome {
    pub delivered: Option<Vec<u32>>,
    pub steps: Option<Vec<bool>>,
    pub result: &'static str,
    pub payload: Value,
    pub count: Option<u64>,
    /// the sink store read back through other index arms (p-bound, o-bound): must show the same content
    pub alt: Vec<Vec<u32>>,
}

fn classify<A: std::error::Error, B: std::error::Error>(r: Result<(), StreamError<A, B>>, pa: impl Fn(&A) -> Value, pb: impl Fn(&B) -> Value) -> (&'static str, Value) {
    match r {
        Ok(()) => ("ok", json!(0)),
        Err(StreamError::SourceError(e)) => ("source", pa(&e)),
        Err(StreamError::SinkError(e)) => ("sink", pb(&e)),
    }
}

/// integer pipeline: closure sink failing on its j-th delivery; whole-stream or step-wise driving
pub fn run_int<S>(mut s: S, j: usize, some: bool) -> Outcome
where
    S: for<'x> Source<Item<'x> = u32, Error = TestErr>,
{
    let mut delivered: Vec<u32> = vec![];
    let mut steps: Vec<bool> = vec![];
    let mut sink = |x: u32| -> Result<(), TestErr> {
        delivered.push(x);
        if j != 0 && delivered.len() == j { Err(TestErr(2000 + j as u32)) } else { Ok(()) }
    };
    let r: Result<(), StreamError<TestErr, TestErr>> = if some {
        loop {
            match s.try_for_some_item(&mut sink) {
                Ok(b) => {
                    steps.push(b);
                    if !b {
                        break Ok(());
                    }
                }
                Err(e) => break Err(e),
            }
        }
    } else {
        s.try_for_each_item(&mut sink)
    };
    let (result, payload) = classify(r, |e| json!(e.0), |e| json!(e.0));
    Outcome { delivered: Some(delivered), steps: if some { Some(steps) } else { None }, result, payload, count: None, alt: vec![] }
}

// ---------------------------------------------------------------- triple pipelines

pub fn tri(v: u32) -> [ST; 3] {
    [iri(&format!("http://ex/s{v}")), iri("http://ex/p"), iri("http://ex/o")]
}
pub fn id_of<T: Triple>(t: &T) -> u32 {
    let s = t.s().iri().unwrap().to_string();
    s.rsplit("/s").next().unwrap().parse().unwrap()
}
pub fn t_map<T: Triple>(t: T) -> [ST; 3] {
    tri(f_map(id_of(&t)))
}
pub fn t_filter<T: Triple>(t: &T) -> bool {
    f_filter(&id_of(t))
}
pub fn t_fmap<T: Triple>(t: T) -> Option<[ST; 3]> {
    f_fmap(id_of(&t)).map(tri)
}

pub enum Sink {
    /// closure failing on delivery j, driven whole-stream or step-wise
    Closure(usize, bool),
    CollectVec,
    CollectFast,
    /// insert_all / add_to_graph into a graph whose term index holds `cap` terms
    InsertAll5,
    AddToGraph3,
    /// the N-Triples serializer writing to a target that fails while the j-th statement is being written (0: never)
    NtSerializer(usize),
}

/// a target that accepts j - 1 complete lines and the first 20 bytes of the j-th, then fails with the payload 2000 + j
struct FailingTarget {
    got: Rc<std::cell::RefCell<Vec<u8>>>,
    j: usize,
}
impl std::io::Write for FailingTarget {
    fn write(&mut self, data: &[u8]) -> std::io::Result<usize> {
        let mut g = self.got.borrow_mut();
        for (n, b) in data.iter().enumerate() {
            let lines = g.iter().filter(|c| **c == b'\n').count();
            let in_line = g.len() - g.iter().rposition(|c| *c == b'\n').map_or(0, |p| p + 1);
            if self.j != 0 && lines == self.j - 1 && in_line >= 20 {
                return if n > 0 { Ok(n) } else { Err(std::io::Error::new(std::io::ErrorKind::Other, format!("{}", 2000 + self.j))) };
            }
            g.push(*b);
        }
        Ok(data.len())
    }
    fn flush(&mut self) -> std::io::Result<()> {
        Ok(())
    }
}

pub fn run_tri<S: TripleSource>(mut s: S, sink: &Sink) -> Outcome {
    let pa = |e: &S::Error| -> Value {
        let m = e.to_string();
        // the injected iterator error carries its payload; parser errors are only recognised as such
        if let Some(r) = m.strip_prefix("TestErr(") { json!(r.trim_end_matches(')').parse::<u32>().unwrap_or(0)) } else { json!(-1) }
    };
    match sink {
        Sink::Closure(j, some) => {
            let j = *j;
            let mut delivered: Vec<u32> = vec![];
            let mut steps: Vec<bool> = vec![];
            let mut f = |t: S::Item<'_>| -> Result<(), TestErr> {
                delivered.push(id_of(&t));
                if j != 0 && delivered.len() == j { Err(TestErr(2000 + j as u32)) } else { Ok(()) }
            };
            let r: Result<(), StreamError<S::Error, TestErr>> = if *some {
                loop {
                    match s.try_for_some_triple(&mut f) {
                        Ok(b) => {
                            steps.push(b);
                            if !b {
                                break Ok(());
                            }
                        }
                        Err(e) => break Err(e),
                    }
                }
            } else {
                s.try_for_each_triple(&mut f)
            };
            let (result, payload) = classify(r, pa, |e| json!(e.0));
            Outcome { delivered: Some(delivered), steps: if *some { Some(steps) } else { None }, result, payload, count: None, alt: vec![] }
        }
        Sink::CollectVec => match s.collect_triples::<Vec<[ST; 3]>>() {
            Ok(v) => Outcome { delivered: Some(v.iter().map(id_of).collect()), steps: None, result: "ok", payload: json!(0), count: None, alt: vec![] },
            Err(e) => {
                let (result, payload) = classify(Err(e), pa, |_| json!(-3));
                Outcome { delivered: None, steps: None, result, payload, count: None, alt: vec![] }
            }
        },
        Sink::CollectFast => match s.collect_triples::<sophia_inmem::graph::FastGraph>() {
            Ok(g) => {
                let mut v: Vec<u32> = g.triples().map(|t| id_of(&t.unwrap())).collect();
                v.sort();
                let alt = read_back(&g);
                Outcome { delivered: Some(v), steps: None, result: "ok", payload: json!(0), count: None, alt }
            }
            Err(e) => {
                let (result, payload) = classify(Err(e), pa, |_| json!(-3));
                Outcome { delivered: None, steps: None, result, payload, count: None, alt: vec![] }
            }
        },
        Sink::InsertAll5 => {
            let mut g: GenericFastGraph<SimpleTermIndex<Tiny5>> = Default::default();
            let r = g.insert_all(s);
            let mut v: Vec<u32> = g.triples().map(|t| id_of(&t.unwrap())).collect();
            v.sort();
            let alt = read_back(&g);
            let (count, r2) = match r {
                Ok(n) => (Some(n as u64), Ok(())),
                Err(e) => (None, Err(e)),
            };
            let (result, payload) = classify(r2, pa, |_| json!(-2));
            Outcome { delivered: Some(v), steps: None, result, payload, count, alt }
        }
        Sink::NtSerializer(j) => {
            use sophia_api::serializer::TripleSerializer;
            let got = Rc::new(std::cell::RefCell::new(Vec::<u8>::new()));
            let r = {
                let mut ser = sophia_turtle::serializer::nt::NtSerializer::new(FailingTarget { got: got.clone(), j: *j });
                ser.serialize_triples(s).map(|_| ())
            };
            // what the target holds: complete statements, and the statement that was being written when it failed
            let text = String::from_utf8_lossy(&got.borrow()).to_string();
            let delivered: Vec<u32> = text
                .split('\n')
                .filter_map(|line| line.strip_prefix("<http://ex/s").and_then(|x| x.split('>').next()).and_then(|x| x.parse::<u32>().ok()))
                .collect();
            let (result, payload) = classify(r, pa, |e| json!(e.to_string().parse::<u32>().unwrap_or(0)));
            Outcome { delivered: Some(delivered), steps: None, result, payload, count: None, alt: vec![] }
        }
        Sink::AddToGraph3 => {
            let mut g: GenericFastGraph<SimpleTermIndex<Tiny3>> = Default::default();
            let r = s.add_to_graph(&mut g);
            let mut v: Vec<u32> = g.triples().map(|t| id_of(&t.unwrap())).collect();
            v.sort();
            let alt = read_back(&g);
            let (count, r2) = match r {
                Ok(n) => (Some(n as u64), Ok(())),
                Err(e) => (None, Err(e)),
            };
            let (result, payload) = classify(r2, pa, |_| json!(-2));
            Outcome { delivered: Some(v), steps: None, result, payload, count, alt }
        }
    }
}

fn read_back<G: Graph>(g: &G) -> Vec<Vec<u32>> {
    use sophia_api::term::matcher::Any;
    let p = iri("http://ex/p");
    let o = iri("http://ex/o");
    let mut a: Vec<u32> = g.triples_matching(Any, [p.clone()], Any).map(|t| id_of(&t.unwrap())).collect();
    let mut b: Vec<u32> = g.triples_matching(Any, Any, [o.clone()]).map(|t| id_of(&t.unwrap())).collect();
    let mut c: Vec<u32> = g.triples_matching(Any, [p], [o]).map(|t| id_of(&t.unwrap())).collect();
    a.sort();
    b.sort();
    c.sort();
    vec![a, b, c]
}

/// iterator of triples with an injected Err
fn tri_iter(src: &[u32], k: usize) -> (impl Iterator<Item = Result<[ST; 3], TestErr>>, Rc<Cell<usize>>) {
    let (it, c) = CountingIter::new(src, k);
    (it.map(|r| r.map(tri)), c)
}
fn nt_doc(src: &[u32], k: usize) -> String {
    let mut d = String::new();
    for (i, v) in src.iter().enumerate() {
        if k == i + 1 {
            d.push_str("<http://ex/sX> garbage here .\n");
        }
        d.push_str(&format!("<http://ex/s{v}> <http://ex/p> <http://ex/o> .\n"));
    }
    if k == src.len() + 1 {
        d.push_str("<http://ex/sX> garbage here .\n");
    }
    d
}
/// Turtle: adjacent equal ids are written as ONE statement with an object list, so one parse step yields several items
fn turtle_doc(src: &[u32], k: usize, inside: bool) -> String {
    let mut d = String::from("@prefix : <http://ex/> .\n");
    let mut i = 0;
    while i < src.len() {
        if k == i + 1 {
            d.push_str(":sX garbage .\n");
        }
        let v = src[i];
        let mut n = 1;
        while i + n < src.len() && src[i + n] == v && k != i + n + 1 {
            n += 1;
        }
        let mut objs: Vec<&str> = (0..n).map(|_| ":o").collect();
        if inside && k == i + n + 1 {
            // the syntax error sits INSIDE this statement, after the objects already delivered
            objs.push("<bad iri> .\n:sX :p :o");
            d.push_str(&format!(":s{v} :p {} .\n", objs.join(" , ")));
            i += n;
            // the fault has been placed; the rest of the document follows as usual
            return d + &turtle_doc_rest(src, i);
        }
        d.push_str(&format!(":s{v} :p {} .\n", objs.join(" , ")));
        i += n;
    }
    if k == src.len() + 1 {
        d.push_str(":sX garbage .\n");
    }
    d
}

/// RDF/XML: one rdf:Description per item; the fault is an element whose attributes yield, in ONE parse step, a triple with an
/// invalid IRI (damaged namespace) followed - when `inside` - by a valid one: nothing of that step may be delivered
fn xml_doc(src: &[u32], k: usize, inside: bool) -> String {
    let mut d = String::from("<?xml version=\"1.0\"?>\n<rdf:RDF xmlns:rdf=\"http://www.w3.org/1999/02/22-rdf-syntax-ns#\" xmlns:e=\"http://ex/\" xmlns:b=\"http>//bad/\">\n");
    let bad = if inside { "<rdf:Description rdf:about=\"http://ex/sX\" b:q=\"v\" e:r=\"w\"/>\n" } else { "<rdf:Description rdf:about=\"http://ex/sX\"><b:q>v</b:q></rdf:Description>\n" };
    for (i, v) in src.iter().enumerate() {
        if k == i + 1 {
            d.push_str(bad);
        }
        d.push_str(&format!("<rdf:Description rdf:about=\"http://ex/s{v}\"><e:p rdf:resource=\"http://ex/o\"/></rdf:Description>\n"));
    }
    if k == src.len() + 1 {
        d.push_str(bad);
    }
    d.push_str("</rdf:RDF>\n");
    d
}

fn turtle_doc_rest(src: &[u32], from: usize) -> String {
    let mut d = String::new();
    for v in &src[from..] {
        d.push_str(&format!(":s{v} :p :o .\n"));
    }
    d
}

fn emit(tr: &mut Trace, srckind: &str, sinkkind: &str, src: &[u32], k: usize, chain: &[&str], j: usize, cap: u64, driver: &str, o: Outcome, pulled: i64) {
    tr.emit(json!({"ev":"Pipe","srckind":srckind,"sink":sinkkind,"src":src,"k":k,"chain":chain,"j":j,"cap":cap,"driver":driver,
        "dknown": o.delivered.is_some(), "delivered": o.delivered.clone().unwrap_or_default(),
        "sknown": o.steps.is_some(), "steps": o.steps.unwrap_or_default(),
        "result": o.result, "payload": o.payload, "count": o.count.map(|c| c as i64).unwrap_or(-1), "pulled": pulled, "alt": o.alt}));
}


// ---------------------------------------------------------------------------------------------- quads
/// item v as a quad: ids that are multiples of 5 sit in a named graph (a class that map / filter-map preserve: +10, *2)
pub fn quad(v: u32) -> Spog<ST> {
    (tri(v), if v % 5 == 0 { Some(iri("http://ex/g")) } else { None })
}
fn qid<Q: Quad>(q: &Q) -> u32 {
    let s = q.s().iri().unwrap().to_string();
    s.rsplit("/s").next().unwrap().parse().unwrap()
}
fn nq_doc(src: &[u32], k: usize) -> String {
    let mut d = String::new();
    let line = |v: u32| if v % 5 == 0 { format!("<http://ex/s{v}> <http://ex/p> <http://ex/o> <http://ex/g> .\n") } else { format!("<http://ex/s{v}> <http://ex/p> <http://ex/o> .\n") };
    for (i, v) in src.iter().enumerate() {
        if k == i + 1 {
            d.push_str("<http://ex/sX> garbage here .\n");
        }
        d.push_str(&line(*v));
    }
    if k == src.len() + 1 {
        d.push_str("<http://ex/sX> garbage here .\n");
    }
    d
}
/// what a quad consumer is left with: ids of its statements (sorted), the count it reported, the outcome
pub struct QOutcome {
    contents: Vec<u32>,
    count: Option<u64>,
    result: &'static str,
    payload: Value,
}
fn q_run<S: QuadSource>(s: S, sink: &str, init: &[u32]) -> QOutcome {
    use sophia_api::dataset::MutableDataset;
    let pa = |e: &S::Error| -> Value {
        let m = e.to_string();
        if let Some(r) = m.strip_prefix("TestErr(") { json!(r.trim_end_matches(')').parse::<u32>().unwrap_or(0)) } else { json!(-1) }
    };
    fn fin<A: std::error::Error, B: std::error::Error>(r: Result<usize, StreamError<A, B>>, pa: impl Fn(&A) -> Value, contents: Vec<u32>) -> QOutcome {
        let (count, r2) = match r {
            Ok(n) => (Some(n as u64), Ok(())),
            Err(e) => (None, Err(e)),
        };
        let (result, payload) = classify(r2, pa, |_| json!(-4));
        QOutcome { contents, count, result, payload }
    }
    match sink {
        "gasd_insert" | "gasd_remove" => {
            let mut g: HashSet<[ST; 3]> = init.iter().map(|v| tri(*v)).collect();
            let r = {
                let mut d = sophia_api::graph::Graph::as_dataset_mut(&mut g);
                if sink == "gasd_insert" { d.insert_all(s) } else { d.remove_all(s) }
            };
            let mut c: Vec<u32> = g.iter().map(id_of).collect();
            c.sort();
            fin(r, pa, c)
        }
        "fast_insert" | "fast_remove" => {
            let mut d = FastDataset::new();
            for v in init {
                let q = quad(*v);
                d.insert(&q.0[0], &q.0[1], &q.0[2], q.1.as_ref()).unwrap();
            }
            let r = if sink == "fast_insert" { d.insert_all(s) } else { d.remove_all(s) };
            let mut c: Vec<u32> = d.quads().map(|q| qid(&q.unwrap())).collect();
            c.sort();
            fin(r, pa, c)
        }
        _ => {
            let mut d = LightDataset::new();
            for v in init {
                let q = quad(*v);
                d.insert(&q.0[0], &q.0[1], &q.0[2], q.1.as_ref()).unwrap();
            }
            let r = if sink == "light_insert" { d.insert_all(s) } else { d.remove_all(s) };
            let mut c: Vec<u32> = d.quads().map(|q| qid(&q.unwrap())).collect();
            c.sort();
            fin(r, pa, c)
        }
    }
}
/// chains of at most two adapters, spelled out (a recursive generic function would instantiate types without end)
fn q_dispatch<S: QuadSource>(chain: &[&str], s: S, sink: &str, init: &[u32]) -> QOutcome {
    macro_rules! second {
        ($src:expr) => {
            match chain.get(1).copied() {
                None => q_run($src, sink, init),
                Some("filter") => q_run($src.filter_quads(|q| f_filter(&qid(q))), sink, init),
                Some("map") => q_run($src.map_quads(|q| quad(f_map(qid(&q)))), sink, init),
                Some("fmap") => q_run($src.filter_map_quads(|q| f_fmap(qid(&q)).map(quad)), sink, init),
                Some(a) => panic!("quad adapter {a}"),
            }
        };
    }
    match chain.first().copied() {
        None => q_run(s, sink, init),
        Some("filter") => second!(s.filter_quads(|q| f_filter(&qid(q)))),
        Some("map") => second!(s.map_quads(|q| quad(f_map(qid(&q))))),
        Some("fmap") => second!(s.filter_map_quads(|q| f_fmap(qid(&q)).map(quad))),
        Some(a) => panic!("quad adapter {a}"),
    }
}
/// quad pipelines: insert_all / remove_all of datasets (GraphAsDataset refusing named graphs, FastDataset, LightDataset)
fn quad_family(rng: &mut Rng, tr: &mut Trace, n: usize) {
    let adapters = ["filter", "map", "fmap"];
    let sinks = ["gasd_insert", "gasd_remove", "fast_insert", "fast_remove", "light_insert", "light_remove"];
    for i in 0..n {
        let len = rng.below(8);
        let src: Vec<u32> = (0..len).map(|_| *rng.pick(&[1u32, 2, 3, 4, 5, 6, 10, 12, 15, 20])).collect();
        let k = if rng.chance(1, 2) { 0 } else { 1 + rng.below(len + 1) };
        let chain: Vec<&str> = (0..rng.below(3)).map(|_| *rng.pick(&adapters)).collect();
        let sink = sinks[i % sinks.len()];
        // the consumer's initial statements: often empty, often exactly what the stream removes before the fault
        let pool: Vec<u32> = [1u32, 2, 3, 4, 6, 12, 5, 10, 15, 20, 11, 14, 16, 22, 24].iter().copied().filter(|v| !sink.starts_with("gasd") || v % 5 != 0).collect();
        let init: Vec<u32> = match rng.below(4) {
            0 => vec![],
            1 => src.iter().take(k.saturating_sub(1).max(1)).copied().filter(|v| pool.contains(v)).collect::<std::collections::BTreeSet<_>>().into_iter().collect(),
            _ => pool.iter().copied().filter(|_| rng.chance(1, 3)).collect(),
        };
        let parser = rng.chance(1, 3);
        let r = guarded(|| {
            if parser {
                let doc = nq_doc(&src, k);
                ("nq", q_dispatch(&chain, sophia_turtle::parser::nq::parse_str(&doc), sink, &init), -1i64)
            } else {
                let (it, c) = CountingIter::new(&src, k);
                let o = q_dispatch(&chain, it.map(|r| r.map(quad)), sink, &init);
                ("iter", o, c.get() as i64)
            }
        });
        match r {
            Ok((srckind, o, pulled)) => tr.emit(json!({"ev":"QPipe","srckind":srckind,"sink":sink,"src":src,"k":k,"chain":chain,"init":init,
                "contents":o.contents,"count":o.count.map(|c| c as i64).unwrap_or(-1),"result":o.result,"payload":o.payload,"pulled":pulled})),
            Err(msg) => tr.emit(json!({"ev":"Panic","msg":msg,"src":src,"k":k,"chain":chain,"sink":sink})),
        }
    }
}

pub fn main(args: &[String]) {
    quiet_panics();
    let seed = arg_u64(args, "--seed", 1);
    let out = arg(args, "--out").expect("--out");
    let mut tr = Trace::create(out);
    let stride = arg_u64(args, "--stride", 1) as usize;
    if let Some(gen_path) = arg(args, "--gen") {
        // every pipeline printed by Gen_Streams, on the generic integer source, both drivers
        let txt = std::fs::read_to_string(gen_path).expect("gen file");
        for (n, line) in txt.lines().enumerate() {
            if line.trim().is_empty() || (n + seed as usize) % stride != 0 {
                continue;
            }
            let p: Value = serde_json::from_str(line).unwrap();
            let src: Vec<u32> = p["src"].as_array().unwrap().iter().map(|x| x.as_u64().unwrap() as u32).collect();
            let k = p["k"].as_u64().unwrap() as usize;
            let j = p["j"].as_u64().unwrap() as usize;
            let chain: Vec<&str> = p["chain"].as_array().unwrap().iter().map(|x| x.as_str().unwrap()).collect();
            for some in [false, true] {
                let (it, c) = CountingIter::new(&src, k);
                match guarded(|| dispatch_int(&chain, it, j, some)) {
                    Ok(o) => emit(&mut tr, "iter", "closure", &src, k, &chain, j, 0, if some { "some" } else { "each" }, o, c.get() as i64),
                    Err(msg) => tr.emit(json!({"ev":"Panic","msg":msg,"src":src,"k":k,"chain":chain,"j":j})),
                }
            }
        }
    }
    // seeded random pipelines beyond the model's bounds: longer sources, iterator-form adapters, triple sources, parser sources, store sinks
    let nrand = arg_u64(args, "--rand", 2000) as usize;
    let mut rng = Rng::new(seed ^ 0x15);
    let int_adapters = ["map", "filter", "fmap", "mapi", "fmapi"];
    let tri_adapters = ["map", "filter", "fmap", "toqt", "fmapi", "mapi"];
    for _ in 0..nrand {
        let n = rng.below(9);
        // runs of equal ids are frequent: in Turtle they become one statement yielding several items
        let mut src: Vec<u32> = vec![];
        for _ in 0..n {
            let v = if !src.is_empty() && rng.chance(2, 5) { *src.last().unwrap() } else { 1 + rng.below(6) as u32 };
            src.push(v);
        }
        let k = if rng.chance(1, 2) { 0 } else { 1 + rng.below(n + 1) };
        let j = if rng.chance(1, 2) { 0 } else { 1 + rng.below(n.max(1)) };
        if rng.chance(1, 3) {
            let depth = rng.below(4);
            let chain: Vec<&str> = (0..depth).map(|_| *rng.pick(&int_adapters)).collect();
            let some = rng.chance(1, 2);
            let (it, c) = CountingIter::new(&src, k);
            match guarded(|| dispatch_int(&chain, it, j, some)) {
                Ok(o) => emit(&mut tr, "iter", "closure", &src, k, &chain, j, 0, if some { "some" } else { "each" }, o, c.get() as i64),
                Err(msg) => tr.emit(json!({"ev":"Panic","msg":msg,"src":src,"k":k,"chain":chain,"j":j})),
            }
            continue;
        }
        let depth = rng.below(3);
        let chain: Vec<&str> = (0..depth).map(|_| *rng.pick(&tri_adapters)).collect();
        let (sink, sinkkind, jj, cap, driver) = match rng.below(10) {
            8 | 9 => (Sink::NtSerializer(j), "serializer", j, 0, "each"),
            0 | 1 => (Sink::Closure(j, false), "closure", j, 0, "each"),
            2 | 3 => (Sink::Closure(j, true), "closure", j, 0, "some"),
            4 => (Sink::CollectVec, "collect", 0, 0, "each"),
            5 => (Sink::CollectFast, "collect_set", 0, 0, "each"),
            6 => (Sink::InsertAll5, "store", 0, 3, "each"),
            _ => (Sink::AddToGraph3, "store", 0, 1, "each"),
        };
        let srck = rng.below(4);
        let inside = rng.chance(1, 2);
        let r = guarded(|| match srck {
            0 => {
                let (it, c) = tri_iter(&src, k);
                let o = dispatch_tri(&chain, it, &sink);
                ("iter", o, c.get() as i64)
            }
            1 => {
                let doc = nt_doc(&src, k);
                let o = dispatch_tri(&chain, sophia_turtle::parser::nt::parse_str(&doc), &sink);
                ("nt", o, -1)
            }
            2 => {
                let doc = turtle_doc(&src, k, inside);
                let o = dispatch_tri(&chain, sophia_turtle::parser::turtle::parse_str(&doc), &sink);
                ("turtle", o, -1)
            }
            _ => {
                let doc = xml_doc(&src, k, inside);
                let o = dispatch_tri(&chain, sophia_xml::parser::parse_str(&doc), &sink);
                ("xml", o, -1)
            }
        });
        match r {
            Ok((srckind, o, pulled)) => emit(&mut tr, srckind, sinkkind, &src, k, &chain, jj, cap, driver, o, pulled),
            Err(msg) => tr.emit(json!({"ev":"Panic","msg":msg,"src":src,"k":k,"chain":chain,"j":jj})),
        }
    }
    quad_family(&mut rng, &mut tr, nrand / 2);
    println!("events {}", tr.finish());
}
