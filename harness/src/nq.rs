//! C03 driver: N-Triples / N-Quads serialisation and re-parsing of generated datasets.
use crate::store::{Q, q_json};
use crate::util::*;
use serde_json::{Value, json};
use sophia_api::quad::Quad;
use sophia_api::serializer::{QuadSerializer, Stringifier, TripleSerializer};
use sophia_api::source::{QuadSource, TripleSource};
use sophia_api::term::{BnodeId, GraphName, LanguageTag, SimpleTerm};
use sophia_api::triple::Triple;
use sophia_iri::Iri;
use sophia_turtle::serializer::nq::NqSerializer;
use sophia_turtle::serializer::nt::NtSerializer;

const LEX_CHARS: [char; 24] = [
    '"', '\\', '\n', '\r', '\t', '\0', '\u{7f}', '\u{8}', '\u{c}', '\u{85}', '\u{2028}', '\u{301}', '\u{1F600}', '<', '>', '@', '^', '.', ' ', 'a', 'é', '\'', '\u{1}', '\u{FFFD}',
];
const LABELS: [&str; 12] = ["b", "b1", "a.b", "0.a.0", "a\u{b7}", "é", "_x", "1", "a-b", "a.1.b", "b\u{203f}c", "x1y"];
const TAGS: [&str; 6] = ["en", "EN-us", "x-abc", "fr-056", "de-CH-1996", "i-klingon"];
const IRIS: [&str; 8] = [
    "http://ex/a", "http://ex/é?q=1#f", "urn:x:y", "http://ex/p", "http://[::1]/a", "http://ex/a%20b", "tag:a,b:c", "http://ex/#",
];

fn rand_lex(rng: &mut Rng) -> String {
    let n = rng.below(6);
    (0..n).map(|_| *rng.pick(&LEX_CHARS)).collect()
}
fn valid_labels() -> Vec<&'static str> {
    LABELS.iter().copied().filter(|l| BnodeId::new(*l).is_ok()).collect()
}
fn valid_iris() -> Vec<&'static str> {
    IRIS.iter().copied().filter(|i| Iri::new(*i).is_ok()).collect()
}
fn valid_tags() -> Vec<&'static str> {
    TAGS.iter().copied().filter(|t| LanguageTag::new(*t).is_ok()).collect()
}

#[derive(Clone, Copy, PartialEq)]
pub enum Mode {
    Strict,
    Star,
    Generalized,
}

fn rand_literal(rng: &mut Rng, iris: &[&str], tags: &[&str]) -> ST {
    match rng.below(3) {
        0 => lit_lang(&rand_lex(rng), *rng.pick(tags)),
        1 => lit_dt(&rand_lex(rng), &format!("{XSD}string")),
        _ => if rng.chance(1, 3) { lit_dt(&rand_lex(rng), *rng.pick(&crate::rt::DATATYPES)) } else { lit_dt(&rand_lex(rng), *rng.pick(iris)) },
    }
}
fn rand_subject(rng: &mut Rng, mode: Mode, depth: usize, iris: &[&str], labels: &[&str], tags: &[&str]) -> ST {
    let k = rng.below(if mode != Mode::Strict && depth < 2 { 5 } else { 4 });
    match k {
        0 | 1 => iri(*rng.pick(iris)),
        2 | 3 => bn(*rng.pick(labels)),
        _ => quoted(
            rand_subject(rng, mode, depth + 1, iris, labels, tags),
            iri(*rng.pick(iris)),
            rand_object(rng, mode, depth + 1, iris, labels, tags),
        ),
    }
}
fn rand_object(rng: &mut Rng, mode: Mode, depth: usize, iris: &[&str], labels: &[&str], tags: &[&str]) -> ST {
    if rng.chance(1, 2) { rand_literal(rng, iris, tags) } else { rand_subject(rng, mode, depth, iris, labels, tags) }
}
fn rand_any(rng: &mut Rng, depth: usize, iris: &[&str], labels: &[&str], tags: &[&str]) -> ST {
    match rng.below(if depth < 2 { 6 } else { 5 }) {
        0 => iri(*rng.pick(iris)),
        1 => bn(*rng.pick(labels)),
        2 | 3 => rand_literal(rng, iris, tags),
        4 => var(*rng.pick(&["x", "y1", "_z", "é"])),
        _ => quoted(rand_any(rng, depth + 1, iris, labels, tags), rand_any(rng, depth + 1, iris, labels, tags), rand_any(rng, depth + 1, iris, labels, tags)),
    }
}

pub fn rand_quads(rng: &mut Rng, mode: Mode, graphs: bool) -> Vec<Q> {
    let (iris, labels, tags) = (valid_iris(), valid_labels(), valid_tags());
    let n = 1 + rng.below(3);
    (0..n)
        .map(|_| {
            let g: GraphName<ST> = if graphs && rng.chance(1, 2) {
                Some(if mode == Mode::Generalized { rand_any(rng, 1, &iris, &labels, &tags) } else if rng.chance(1, 2) { iri(*rng.pick(&iris)) } else { bn(*rng.pick(&labels)) })
            } else {
                None
            };
            if mode == Mode::Generalized {
                ([rand_any(rng, 0, &iris, &labels, &tags), rand_any(rng, 0, &iris, &labels, &tags), rand_any(rng, 0, &iris, &labels, &tags)], g)
            } else {
                ([rand_subject(rng, mode, 0, &iris, &labels, &tags), iri(*rng.pick(&iris)), rand_object(rng, mode, 0, &iris, &labels, &tags)], g)
            }
        })
        .collect()
}

fn out_json(r: Result<Vec<Value>, String>) -> Value {
    match r {
        Ok(v) => json!({"ok": true, "quads": v, "msg": ""}),
        Err(e) => json!({"ok": false, "quads": [], "msg": e}),
    }
}

/// an `io::Write` that takes at most three bytes per call (which the contract of `write` allows: a serializer has to use `write_all`)
struct Trickle(std::rc::Rc<std::cell::RefCell<Vec<u8>>>);
impl std::io::Write for Trickle {
    fn write(&mut self, data: &[u8]) -> std::io::Result<usize> {
        let n = data.len().min(3);
        self.0.borrow_mut().extend_from_slice(&data[..n]);
        Ok(n)
    }
    fn flush(&mut self) -> std::io::Result<()> {
        Ok(())
    }
}

fn round_trip(d: &[Q], ser: &str, parser: &str) -> Value {
    // every other dataset is written to a target that accepts a few bytes at a time
    let trickle = d.len() % 2 == 1;
    let text: Result<String, String> = guarded(|| match ser {
        "nt" if trickle => {
            let buf = std::rc::Rc::new(std::cell::RefCell::new(vec![]));
            let mut s = NtSerializer::new(Trickle(buf.clone()));
            s.serialize_triples(d.iter().map(|q| q.0.clone()).map(Ok::<_, std::convert::Infallible>)).map_err(|e| e.to_string())?;
            let text = String::from_utf8_lossy(&buf.borrow()).to_string();
            Ok(text)
        }
        _ if trickle => {
            let buf = std::rc::Rc::new(std::cell::RefCell::new(vec![]));
            let mut s = NqSerializer::new(Trickle(buf.clone()));
            s.serialize_quads(d.iter().cloned().map(Ok::<_, std::convert::Infallible>)).map_err(|e| e.to_string())?;
            let text = String::from_utf8_lossy(&buf.borrow()).to_string();
            Ok(text)
        }
        "nt" => {
            let mut s = NtSerializer::new_stringifier();
            s.serialize_triples(d.iter().map(|q| q.0.clone()).map(Ok::<_, std::convert::Infallible>)).map_err(|e| e.to_string())?;
            Ok(String::from_utf8_lossy(s.as_utf8()).to_string())
        }
        _ => {
            let mut s = NqSerializer::new_stringifier();
            s.serialize_quads(d.iter().cloned().map(Ok::<_, std::convert::Infallible>)).map_err(|e| e.to_string())?;
            Ok(String::from_utf8_lossy(s.as_utf8()).to_string())
        }
    })
    .unwrap_or_else(|p| Err(format!("PANIC {p}")));
    let text = match text {
        Ok(t) => t,
        Err(e) => return json!({"ev":"RT","ser":ser,"parser":parser,"in":d.iter().map(q_json).collect::<Vec<_>>(),"serok":false,"text":[],"out":out_json(Err(e.clone())),"collected":out_json(Err(e))}),
    };
    let out: Result<Vec<Value>, String> = guarded(|| match parser {
        "nt" => {
            let mut v = vec![];
            sophia_turtle::parser::nt::parse_str(&text).for_each_triple(|t| v.push(quad_json(t.s(), t.p(), t.o(), None::<ST>))).map_err(|e| e.to_string())?;
            Ok(v)
        }
        "nq" => {
            let mut v = vec![];
            sophia_turtle::parser::nq::parse_str(&text).for_each_quad(|q| v.push(quad_json(q.s(), q.p(), q.o(), q.g()))).map_err(|e| e.to_string())?;
            Ok(v)
        }
        _ => {
            let mut v = vec![];
            sophia_turtle::parser::gnq::parse_str(&text).for_each_quad(|q| v.push(quad_json(q.s(), q.p(), q.o(), q.g()))).map_err(|e| e.to_string())?;
            Ok(v)
        }
    })
    .unwrap_or_else(|p| Err(format!("PANIC {p}")));
    // also through the collectors (borrowing accessors of the parsed quads)
    let collected: Result<Vec<Value>, String> = guarded(|| match parser {
        "nt" => {
            let g: Vec<[ST; 3]> = sophia_turtle::parser::nt::parse_str(&text).collect_triples().map_err(|e| e.to_string())?;
            Ok(g.iter().map(|t| quad_json(&t[0], &t[1], &t[2], None::<ST>)).collect())
        }
        "nq" => {
            let g: Vec<sophia_api::quad::Spog<ST>> = sophia_turtle::parser::nq::parse_str(&text).collect_quads().map_err(|e| e.to_string())?;
            Ok(g.iter().map(q_json).collect())
        }
        _ => {
            let g: Vec<sophia_api::quad::Spog<ST>> = sophia_turtle::parser::gnq::parse_str(&text).collect_quads().map_err(|e| e.to_string())?;
            Ok(g.iter().map(q_json).collect())
        }
    })
    .unwrap_or_else(|p| Err(format!("PANIC {p}")));
    json!({"ev":"RT","ser":ser,"parser":parser,"in":d.iter().map(q_json).collect::<Vec<_>>(),"serok":true,"text":cps(&text),"out":out_json(out),"collected":out_json(collected)})
}

pub fn main(args: &[String]) {
    quiet_panics();
    let seed = arg_u64(args, "--seed", 1);
    let out = arg(args, "--out").expect("--out");
    let n = arg_u64(args, "--n", 1000) as usize;
    let mut tr = Trace::create(out);
    let mut rng = Rng::new(seed ^ 0x03);
    // every single interesting character alone and in pairs, as a lexical form
    for a in LEX_CHARS {
        for b in LEX_CHARS {
            let lex: String = [a, b].iter().collect();
            let d: Vec<Q> = vec![([iri("http://ex/s"), iri("http://ex/p"), lit_dt(&lex, &format!("{XSD}string"))], None)];
            tr.emit(round_trip(&d, "nt", "nt"));
        }
    }
    for l in valid_labels() {
        let d: Vec<Q> = vec![([bn(l), iri("http://ex/p"), bn(l)], Some(bn(l)))];
        tr.emit(round_trip(&d, "nq", "nq"));
        tr.emit(round_trip(&d, "nq", "gnq"));
    }
    for i in 0..n {
        let mode = match i % 3 {
            0 => Mode::Strict,
            1 => Mode::Star,
            _ => Mode::Generalized,
        };
        let graphs = i % 2 == 0;
        let d = rand_quads(&mut rng, mode, graphs);
        if mode == Mode::Generalized {
            tr.emit(round_trip(&d, "nq", "gnq"));
        } else if graphs {
            tr.emit(round_trip(&d, "nq", "nq"));
            tr.emit(round_trip(&d, "nq", "gnq"));
        } else {
            tr.emit(round_trip(&d, "nt", "nt"));
            tr.emit(round_trip(&d, "nq", "nq"));
        }
    }
    println!("events {}", tr.finish());
}
