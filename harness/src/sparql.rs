//! C13 / C14 drivers: SPARQL evaluation through SparqlWrapper on algebra built directly with spargebra
//! (so the algebra under test is exactly the logged one), and ORDER BY on every permutation of the input rows.
use crate::store::{Q, q_json};
use crate::util::*;
use serde_json::{Value, json};
use sophia_api::sparql::{SparqlDataset, SparqlResult};
use sophia_api::term::{GraphName, SimpleTerm, Term};
use sophia_inmem::dataset::{FastDataset, LightDataset};
use sophia_sparql::{SparqlQuery, SparqlWrapper, SparqlWrapperError};
use spargebra::Query;
use spargebra::algebra::{Expression, GraphPattern, OrderExpression, QueryDataset};
use spargebra::term::{BlankNode, Literal, NamedNode, NamedNodePattern, TermPattern, TriplePattern, Variable};

fn nn(s: &str) -> NamedNode {
    NamedNode::new_unchecked(s)
}
fn lit_of(t: &ST) -> Literal {
    match t {
        SimpleTerm::LiteralLanguage(l, tag) => Literal::new_language_tagged_literal_unchecked(l.to_string(), tag.as_str().to_string()),
        SimpleTerm::LiteralDatatype(l, dt) => {
            if dt.as_str() == format!("{XSD}string") {
                Literal::new_simple_literal(l.to_string())
            } else {
                Literal::new_typed_literal(l.to_string(), nn(dt.as_str()))
            }
        }
        _ => panic!("not a literal"),
    }
}
/// pattern position from the spec's JSON: {"var":..} | {"bn":..} | {"term":T} | {"qt":[pos, pos, pos]} (quoted-triple pattern)
fn term_pattern(v: &Value) -> TermPattern {
    if let Some(q) = v.get("qt") {
        TermPattern::Triple(Box::new(TriplePattern { subject: term_pattern(&q[0]), predicate: pred_pattern(&q[1]), object: term_pattern(&q[2]) }))
    } else if let Some(x) = v.get("var") {
        TermPattern::Variable(Variable::new_unchecked(x.as_str().unwrap()))
    } else if let Some(x) = v.get("bn") {
        TermPattern::BlankNode(BlankNode::new_unchecked(x.as_str().unwrap()))
    } else {
        let t = json_term(&v["term"]);
        match &t {
            SimpleTerm::Iri(i) => TermPattern::NamedNode(nn(i.as_str())),
            SimpleTerm::BlankNode(b) => TermPattern::BlankNode(BlankNode::new_unchecked(b.as_str())),
            SimpleTerm::Triple(tr) => TermPattern::Triple(Box::new(TriplePattern {
                subject: term_pattern(&json!({"term": term_json(&tr[0])})),
                predicate: NamedNodePattern::NamedNode(nn(tr[1].iri().unwrap().as_str())),
                object: term_pattern(&json!({"term": term_json(&tr[2])})),
            })),
            SimpleTerm::Variable(x) => TermPattern::Variable(Variable::new_unchecked(x.as_str())),
            _ => TermPattern::Literal(lit_of(&t)),
        }
    }
}
fn pred_pattern(v: &Value) -> NamedNodePattern {
    if let Some(x) = v.get("var") {
        NamedNodePattern::Variable(Variable::new_unchecked(x.as_str().unwrap()))
    } else {
        NamedNodePattern::NamedNode(nn(json_term(&v["term"]).iri().unwrap().as_str()))
    }
}
fn expr(v: &Value) -> Expression {
    let b = |k: &str| Box::new(expr(&v[k]));
    match v["op"].as_str().unwrap() {
        "var" => Expression::Variable(Variable::new_unchecked(v["name"].as_str().unwrap())),
        "const" => {
            let t = json_term(&v["term"]);
            // "big": the constant c (a canonical xsd:integer) is written (c + B) - B with B beyond 64 bits: the same integer in exact
            // arithmetic (what the model computes with), but a value that went through the engine's arbitrary-precision path
            if let Some(big) = v.get("big").and_then(|b| b.as_str()) {
                let c: i128 = sophia_api::term::Term::lexical_form(&t).expect("big const").parse().expect("big const is an integer");
                let b: i128 = big.parse().expect("big");
                let int = |x: i128| Box::new(Expression::Literal(Literal::new_typed_literal(x.to_string(), nn(&format!("{XSD}integer")))));
                return Expression::Subtract(int(c + b), int(b));
            }
            match &t {
                SimpleTerm::Iri(i) => Expression::NamedNode(nn(i.as_str())),
                _ => Expression::Literal(lit_of(&t)),
            }
        }
        "bound" => Expression::Bound(Variable::new_unchecked(v["name"].as_str().unwrap())),
        "isiri" => Expression::FunctionCall(spargebra::algebra::Function::IsIri, vec![expr(&v["a"])]),
        "eq" => Expression::Equal(b("a"), b("b")),
        "ne" => Expression::Not(Box::new(Expression::Equal(b("a"), b("b")))),
        "gt" => Expression::Greater(b("a"), b("b")),
        "le" => Expression::LessOrEqual(b("a"), b("b")),
        "ge" => Expression::GreaterOrEqual(b("a"), b("b")),
        "neg" => Expression::UnaryMinus(b("a")),
        "pos" => Expression::UnaryPlus(b("a")),
        "add" => Expression::Add(b("a"), b("b")),
        "sub" => Expression::Subtract(b("a"), b("b")),
        "mul" => Expression::Multiply(b("a"), b("b")),
        "sameterm" => Expression::SameTerm(b("a"), b("b")),
        "if" => Expression::If(b("c"), b("a"), b("b")),
        "coalesce" => Expression::Coalesce(v["args"].as_array().unwrap().iter().map(expr).collect()),
        "concat" => Expression::FunctionCall(spargebra::algebra::Function::Concat, v["args"].as_array().unwrap().iter().map(expr).collect()),
        "substr" => Expression::FunctionCall(spargebra::algebra::Function::SubStr, if v.get("c").is_some() { vec![expr(&v["a"]), expr(&v["b"]), expr(&v["c"])] } else { vec![expr(&v["a"]), expr(&v["b"])] }),
        f @ ("isblank" | "isliteral" | "isnumeric" | "str" | "lang" | "datatype" | "strlen" | "ucase" | "lcase") => {
            use spargebra::algebra::Function as F;
            let fun = match f { "isblank" => F::IsBlank, "isliteral" => F::IsLiteral, "isnumeric" => F::IsNumeric, "str" => F::Str, "lang" => F::Lang, "datatype" => F::Datatype, "strlen" => F::StrLen, "ucase" => F::UCase, _ => F::LCase };
            Expression::FunctionCall(fun, vec![expr(&v["a"])])
        }
        f @ ("strstarts" | "strends" | "contains") => {
            use spargebra::algebra::Function as F;
            let fun = match f { "strstarts" => F::StrStarts, "strends" => F::StrEnds, _ => F::Contains };
            Expression::FunctionCall(fun, vec![expr(&v["a"]), expr(&v["b"])])
        }
        "lt" => Expression::Less(b("a"), b("b")),
        "not" => Expression::Not(b("a")),
        "and" => Expression::And(b("a"), b("b")),
        "or" => Expression::Or(b("a"), b("b")),
        o => panic!("expr op {o}"),
    }
}
fn pattern(v: &Value) -> GraphPattern {
    let inner = || Box::new(pattern(&v["inner"]));
    match v["op"].as_str().unwrap() {
        "bgp" => GraphPattern::Bgp {
            patterns: v["tps"].as_array().unwrap().iter().map(|tp| TriplePattern { subject: term_pattern(&tp[0]), predicate: pred_pattern(&tp[1]), object: term_pattern(&tp[2]) }).collect(),
        },
        "union" => GraphPattern::Union { left: Box::new(pattern(&v["l"])), right: Box::new(pattern(&v["r"])) },
        "graphc" => GraphPattern::Graph { name: NamedNodePattern::NamedNode(nn(json_term(&v["g"]).iri().unwrap().as_str())), inner: inner() },
        "graphv" => GraphPattern::Graph { name: NamedNodePattern::Variable(Variable::new_unchecked(v["v"].as_str().unwrap())), inner: inner() },
        "filter" => GraphPattern::Filter { expr: expr(&v["e"]), inner: inner() },
        "extend" => GraphPattern::Extend { inner: inner(), variable: Variable::new_unchecked(v["v"].as_str().unwrap()), expression: expr(&v["e"]) },
        "distinct" => GraphPattern::Distinct { inner: inner() },
        "project" => GraphPattern::Project { inner: inner(), variables: v["vars"].as_array().unwrap().iter().map(|x| Variable::new_unchecked(x.as_str().unwrap())).collect() },
        "slice" => GraphPattern::Slice { inner: inner(), start: v["start"].as_u64().unwrap() as usize, length: if v["len"].as_i64().unwrap() < 0 { None } else { Some(v["len"].as_u64().unwrap() as usize) } },
        // operators the engine does not support: must answer NotImplemented
        "join" => GraphPattern::Join { left: Box::new(pattern(&v["l"])), right: Box::new(pattern(&v["r"])) },
        "leftjoin" => GraphPattern::LeftJoin { left: Box::new(pattern(&v["l"])), right: Box::new(pattern(&v["r"])), expression: None },
        "minus" => GraphPattern::Minus { left: Box::new(pattern(&v["l"])), right: Box::new(pattern(&v["r"])) },
        "values" => GraphPattern::Values { variables: vec![Variable::new_unchecked("x")], bindings: vec![vec![None]] },
        "reduced" => GraphPattern::Reduced { inner: inner() },
        "group" => GraphPattern::Group { inner: inner(), variables: vec![Variable::new_unchecked("x")], aggregates: vec![] },
        "service" => GraphPattern::Service { name: NamedNodePattern::NamedNode(nn("http://ex/service")), inner: inner(), silent: false },
        "path" => GraphPattern::Path {
            subject: TermPattern::Variable(Variable::new_unchecked("x")),
            path: spargebra::algebra::PropertyPathExpression::ZeroOrMore(Box::new(spargebra::algebra::PropertyPathExpression::NamedNode(nn("http://ex/p")))),
            object: TermPattern::Variable(Variable::new_unchecked("y")),
        },
        o => panic!("pattern op {o}"),
    }
}

// ---------------------------------------------------------------- random datasets and queries (in the spec's JSON shape)

fn data_terms() -> (Vec<ST>, Vec<ST>, Vec<ST>) {
    let iris = vec![iri("http://ex/a"), iri("http://ex/b"), iri("http://ex/c")];
    let preds = vec![iri("http://ex/p"), iri("http://ex/q")];
    let lits = vec![
        lit_dt("1", &format!("{XSD}integer")), lit_dt("2", &format!("{XSD}integer")), lit_dt("01", &format!("{XSD}integer")), lit_dt("10", &format!("{XSD}integer")),
        lit_dt("a", &format!("{XSD}string")), lit_dt("b", &format!("{XSD}string")), lit_dt("", &format!("{XSD}string")),
        lit_dt("true", &format!("{XSD}boolean")), lit_dt("false", &format!("{XSD}boolean")), lit_dt("x", "http://ex/dt"),
        lit_dt("-3", &format!("{XSD}integer")), lit_dt("0", &format!("{XSD}integer")), lit_dt("a\u{e9}\u{1F600}b", &format!("{XSD}string")), lit_dt("Ab", &format!("{XSD}string")),
        lit_lang("a", "en"), lit_lang("\u{e9}a", "fr"), lit_lang("ab", "en"),
        // dateTimes: other offsets than Z, no timezone (not ordered against a timezoned one within 14 hours), equal instants, ill-formed
        lit_dt("2020-01-01T10:00:00+05:00", &format!("{XSD}dateTime")), lit_dt("2020-01-01T08:00:00Z", &format!("{XSD}dateTime")), lit_dt("2020-01-01T09:00:00", &format!("{XSD}dateTime")),
        lit_dt("2019-01-01T00:00:00", &format!("{XSD}dateTime")), lit_dt("2020-01-01T03:00:00-05:00", &format!("{XSD}dateTime")),
        lit_dt("2020-02-30T00:00:00Z", &format!("{XSD}dateTime")), lit_dt("yesterday", &format!("{XSD}dateTime")),
    ];
    (iris, preds, lits)
}
/// quoted triples of the data: sharing components with each other and with the asserted triples, one nested, one with a blank node
fn quoted_terms() -> Vec<ST> {
    let (iris, preds, lits) = data_terms();
    let qt = |s: &ST, p: &ST, o: &ST| SimpleTerm::Triple(Box::new([s.clone(), p.clone(), o.clone()]));
    let inner = qt(&iris[0], &preds[0], &iris[1]);
    vec![
        inner.clone(),
        qt(&iris[0], &preds[0], &lits[0]),
        qt(&iris[1], &preds[1], &iris[1]),
        qt(&bn("b1"), &preds[0], &iris[0]),
        qt(&inner, &preds[1], &lits[0]),
        qt(&iris[0], &preds[1], &inner),
    ]
}
pub fn rand_data(rng: &mut Rng) -> Vec<Q> {
    let (iris, preds, lits) = data_terms();
    let gs: [GraphName<ST>; 4] = [None, None, Some(iri("http://ex/g1")), Some(iri("http://ex/g2"))];
    let n = rng.below(7);
    let mut d: Vec<Q> = vec![];
    for _ in 0..n {
        let quoted = quoted_terms();
        let s = if rng.chance(1, 6) { bn("b1") } else if rng.chance(1, 8) { rng.pick(&quoted).clone() } else { rng.pick(&iris).clone() };
        let o = match rng.below(6) {
            0 | 1 => rng.pick(&iris).clone(),
            2 => bn("b1"),
            3 if rng.chance(2, 3) => rng.pick(&quoted).clone(),
            _ => rng.pick(&lits).clone(),
        };
        let q: Q = ([s, rng.pick(&preds).clone(), o], rng.pick(&gs).clone());
        // the same triple often sits in several graphs
        if rng.chance(1, 3) {
            let q2: Q = (q.0.clone(), rng.pick(&gs).clone());
            if !d.iter().any(|x| crate::iso::same_quad(x, &q2)) {
                d.push(q2);
            }
        }
        if !d.iter().any(|x| crate::iso::same_quad(x, &q)) {
            d.push(q);
        }
    }
    d
}
const VARS: [&str; 4] = ["x", "y", "z", "g"];
fn rand_pos(rng: &mut Rng, object: bool) -> Value {
    rand_pos_at(rng, object, 0)
}
fn rand_pos_at(rng: &mut Rng, object: bool, depth: usize) -> Value {
    let (iris, preds, lits) = data_terms();
    if depth < 2 && rng.chance(1, 9) {
        // quoted-triple pattern (variables and placeholders inside are shared with the rest of the group), or a ground quoted triple
        if rng.chance(1, 4) {
            let ground: Vec<ST> = quoted_terms().into_iter().filter(|t| !has_bnode(t)).collect();
            return json!({"term": term_json(rng.pick(&ground))});
        }
        let p = if rng.chance(1, 3) { json!({"var": *rng.pick(&VARS[..3])}) } else { json!({"term": term_json(rng.pick(&preds))}) };
        return json!({"qt": [rand_pos_at(rng, false, depth + 1), p, rand_pos_at(rng, true, depth + 1)]});
    }
    match rng.below(10) {
        0..=4 => json!({"var": *rng.pick(&VARS[..3])}),
        5 => json!({"bn": *rng.pick(&["n", "m", "x"])}),
        6 if object => json!({"term": term_json(rng.pick(&lits))}),
        _ => json!({"term": term_json(rng.pick(&iris))}),
    }
}
fn rand_tp(rng: &mut Rng) -> Value {
    let (_, preds, _) = data_terms();
    let p = if rng.chance(1, 4) { json!({"var": *rng.pick(&VARS[..3])}) } else { json!({"term": term_json(rng.pick(&preds))}) };
    json!([rand_pos(rng, false), p, rand_pos(rng, true)])
}
/// integers beyond i64 / u64 (and one negative): operands that force the engine's BigInt representation
const BIGS: [&str; 4] = ["100000000000000000000", "-100000000000000000000", "9223372036854775808", "18446744073709551616"];
fn canonical_int(t: &ST) -> bool {
    match t {
        SimpleTerm::LiteralDatatype(l, dt) => dt.as_str() == format!("{XSD}integer") && l.parse::<i64>().map(|x| x.to_string() == l.as_ref()).unwrap_or(false),
        _ => false,
    }
}
fn rand_expr(rng: &mut Rng, depth: usize) -> Value {
    let (iris, _, lits) = data_terms();
    let leaf = |rng: &mut Rng| match rng.below(4) {
        0 | 1 => json!({"op":"var","name": *rng.pick(&VARS)}),
        2 => {
            let t = rng.pick(&lits);
            if canonical_int(t) && rng.chance(1, 3) { json!({"op":"const","term": term_json(t),"big": *rng.pick(&BIGS)}) } else { json!({"op":"const","term": term_json(t)}) }
        }
        _ => json!({"op":"const","term": term_json(rng.pick(&iris))}),
    };
    if depth >= 2 {
        return leaf(rng);
    }
    let sub = |rng: &mut Rng| rand_expr(rng, depth + 1);
    match rng.below(24) {
        0 => json!({"op":"bound","name": *rng.pick(&VARS)}),
        1 => json!({"op":"isiri","a": sub(rng)}),
        2 | 3 => json!({"op":"eq","a": sub(rng),"b": sub(rng)}),
        4 => json!({"op":"lt","a": sub(rng),"b": sub(rng)}),
        5 => json!({"op":"not","a": sub(rng)}),
        6 => json!({"op":"and","a": sub(rng),"b": sub(rng)}),
        7 => json!({"op":"or","a": sub(rng),"b": sub(rng)}),
        8 => json!({"op": *rng.pick(&["ne", "gt", "le", "ge", "sameterm"]),"a": sub(rng),"b": sub(rng)}),
        9 => if rng.chance(1, 4) { json!({"op": *rng.pick(&["neg", "pos"]),"a": sub(rng)}) } else { json!({"op": *rng.pick(&["add", "sub", "mul"]),"a": sub(rng),"b": sub(rng)}) },
        10 => json!({"op":"if","c": sub(rng),"a": sub(rng),"b": sub(rng)}),
        11 => json!({"op":"coalesce","args": (0..1 + rng.below(3)).map(|_| sub(rng)).collect::<Vec<_>>()}),
        12 | 13 => json!({"op": *rng.pick(&["isblank", "isliteral", "isnumeric", "str", "lang", "datatype"]),"a": sub(rng)}),
        14 | 15 => json!({"op": *rng.pick(&["strlen", "ucase", "lcase"]),"a": sub(rng)}),
        16 | 17 => json!({"op": *rng.pick(&["strstarts", "strends", "contains"]),"a": sub(rng),"b": sub(rng)}),
        18 | 19 => {
            // start / length: small integers around the ends of the string, or any expression
            let int = |rng: &mut Rng| if rng.chance(3, 4) { json!({"op":"const","term": term_json(&lit_dt(*rng.pick(&["0", "1", "2", "3", "-3", "10"]), &format!("{XSD}integer")))}) } else { rand_expr(rng, depth + 1) };
            if rng.chance(1, 2) { json!({"op":"substr","a": sub(rng),"b": int(rng)}) } else { json!({"op":"substr","a": sub(rng),"b": int(rng),"c": int(rng)}) }
        }
        20 => json!({"op":"concat","args": (0..rng.below(4)).map(|_| sub(rng)).collect::<Vec<_>>()}),
        _ => leaf(rng),
    }
}
/// DISTINCT over branches that bind DIFFERENT variables to the same terms (rows unbound in different columns)
fn distinct_of_disjoint_union(rng: &mut Rng) -> Value {
    let (iris, preds, _) = data_terms();
    let p = term_json(rng.pick(&preds));
    let o = if rng.chance(1, 2) { json!({"term": term_json(rng.pick(&iris))}) } else { json!({"var": "z"}) };
    let l = json!({"op":"bgp","tps":[[{"var":"x"},{"term":p},o]]});
    let r = json!({"op":"bgp","tps":[[{"var":"y"},{"term":p},o]]});
    let u = json!({"op":"union","l":l,"r":r});
    if rng.chance(1, 2) { json!({"op":"distinct","inner":u}) } else { json!({"op":"distinct","inner":{"op":"project","vars":["x","y"],"inner":u}}) }
}
/// a pattern position that matches the term `t`: the term itself, a variable, a placeholder or (for a quoted triple) a quoted-triple
/// pattern whose components are generalised the same way - queries aimed at the data, so that quoted-triple patterns have solutions
fn has_bnode(t: &ST) -> bool {
    match t {
        SimpleTerm::BlankNode(_) => true,
        SimpleTerm::Triple(tr) => tr.iter().any(has_bnode),
        _ => false,
    }
}
fn generalise(rng: &mut Rng, t: &ST, predicate: bool, depth: usize, used: &mut Vec<(String, ST)>) -> Value {
    if let SimpleTerm::Triple(tr) = t {
        // (a blank node of the data cannot be written as a constant: in a pattern it is a placeholder)
        if has_bnode(t) || (depth < 3 && rng.chance(2, 3)) {
            return json!({"qt": [generalise(rng, &tr[0], false, depth + 1, used), generalise(rng, &tr[1], true, depth + 1, used), generalise(rng, &tr[2], false, depth + 1, used)]});
        }
    }
    // a name already standing for another term would make the statement it was drawn from a non-solution: one time in ten only
    let mut name = |rng: &mut Rng, pool: &[&str], prefix: &str| -> Option<String> {
        let allow_clash = rng.chance(1, 10);
        for _ in 0..4 {
            let n = format!("{prefix}{}", rng.pick(pool));
            let clash = used.iter().any(|(k, v)| *k == n && !sophia_api::term::Term::eq(v, t.borrow_term()));
            if !clash || allow_clash {
                used.push((n.clone(), t.clone()));
                return Some(n[prefix.len()..].to_string());
            }
        }
        None
    };
    let chosen = match rng.below(6) {
        0 | 1 if !has_bnode(t) => None,
        2 if !predicate => name(rng, &["n", "m"], "_:").map(|n| json!({"bn": n})),
        _ => name(rng, &VARS[..3], "?").map(|n| json!({"var": n})),
    };
    match chosen {
        Some(c) => c,
        None if !has_bnode(t) => json!({"term": term_json(t)}),
        None => json!({"bn": format!("k{}", used.len())}),
    }
}
fn aimed_quoted(rng: &mut Rng, d: &[Q]) -> Value {
    let with_quoted: Vec<&Q> = d.iter().filter(|q| q.0[0].is_triple() || q.0[2].is_triple()).collect();
    let n = 1 + rng.below(2);
    let mut used: Vec<(String, ST)> = vec![];
    let tps: Vec<Value> = (0..n)
        .map(|i| {
            let q = if i == 0 && !with_quoted.is_empty() { *rng.pick(&with_quoted) } else { rng.pick(d) };
            json!([generalise(rng, &q.0[0], false, 0, &mut used), generalise(rng, &q.0[1], true, 0, &mut used), generalise(rng, &q.0[2], false, 0, &mut used)])
        })
        .collect();
    let bgp = json!({"op":"bgp","tps":tps});
    match rng.below(6) {
        0 => json!({"op":"graphv","v":"g","inner":bgp}),
        1 => json!({"op":"distinct","inner":bgp}),
        2 => json!({"op":"filter","e": rand_expr(rng, 0),"inner":bgp}),
        3 => json!({"op":"union","l":bgp,"r": rand_pattern(rng, 2)}),
        _ => bgp,
    }
}
pub fn rand_pattern(rng: &mut Rng, depth: usize) -> Value {
    if depth <= 1 && rng.chance(1, 25) {
        return distinct_of_disjoint_union(rng);
    }
    if depth >= 3 || rng.chance(1, 3) {
        let n = 1 + rng.below(2);
        return json!({"op":"bgp","tps": (0..n).map(|_| rand_tp(rng)).collect::<Vec<_>>()});
    }
    match rng.below(11) {
        0 | 1 => json!({"op":"union","l": rand_pattern(rng, depth + 1),"r": rand_pattern(rng, depth + 1)}),
        2 => json!({"op":"graphc","g": term_json(&iri(*rng.pick(&["http://ex/g1", "http://ex/g2", "http://ex/g3"]))),"inner": rand_pattern(rng, depth + 1)}),
        3 | 4 => json!({"op":"graphv","v": *rng.pick(&["g", "x"]),"inner": rand_pattern(rng, depth + 1)}),
        5 | 6 => json!({"op":"filter","e": rand_expr(rng, 0),"inner": rand_pattern(rng, depth + 1)}),
        7 => json!({"op":"extend","v": *rng.pick(&["w", "z"]),"e": rand_expr(rng, 0),"inner": rand_pattern(rng, depth + 1)}),
        8 => json!({"op":"distinct","inner": rand_pattern(rng, depth + 1)}),
        9 => {
            let n = 1 + rng.below(2);
            json!({"op":"project","vars": (0..n).map(|_| *rng.pick(&VARS)).collect::<std::collections::BTreeSet<_>>().into_iter().collect::<Vec<_>>(),"inner": rand_pattern(rng, depth + 1)})
        }
        _ if depth == 0 => json!({"op":"slice","start": rng.below(3),"len": rng.below(4) as i64 - 1,"inner": rand_pattern(rng, depth + 1)}),
        _ => json!({"op":"distinct","inner": rand_pattern(rng, depth + 1)}),
    }
}

fn run_query<D: sophia_api::dataset::Dataset>(ds: &D, q: Query) -> Value
where
    D::Error: 'static,
{
    let w = SparqlWrapper(ds);
    let sq: SparqlQuery<D> = SparqlQuery::from(q);
    match w.query(&sq) {
        Err(SparqlWrapperError::NotImplemented(what)) => json!({"k":"notimplemented","what":what,"vars":[],"rows":[],"b":false}),
        Err(SparqlWrapperError::Override(v)) => json!({"k":"override","what":v.to_string(),"vars":[],"rows":[],"b":false}),
        Err(e) => json!({"k":"error","what":e.to_string(),"vars":[],"rows":[],"b":false}),
        Ok(SparqlResult::Boolean(b)) => json!({"k":"bool","what":"","vars":[],"rows":[],"b":b}),
        Ok(SparqlResult::Bindings(bs)) => {
            use sophia_api::sparql::SparqlBindings;
            let vars: Vec<String> = bs.variables().iter().map(|s| s.to_string()).collect();
            let mut rows: Vec<Value> = vec![];
            for r in bs {
                match r {
                    Ok(row) => rows.push(Value::Array(row.into_iter().map(|c| c.map(|t| term_json(t)).unwrap_or(json!({"k":"unbound"}))).collect())),
                    Err(e) => return json!({"k":"error","what":e.to_string(),"vars":vars,"rows":[],"b":false}),
                }
            }
            json!({"k":"rows","what":"","vars":vars,"rows":rows,"b":false})
        }
        Ok(SparqlResult::Triples(_)) => json!({"k":"triples","what":"","vars":[],"rows":[],"b":false}),
    }
}
fn fill<D: sophia_api::dataset::MutableDataset + Default>(d: &[Q]) -> D {
    let mut x = D::default();
    for q in d {
        x.insert(&q.0[0], &q.0[1], &q.0[2], q.1.as_ref()).unwrap();
    }
    x
}
fn run_on(container: usize, d: &[Q], q: Query) -> (Value, &'static str) {
    match container % 3 {
        0 => (run_query(&d.to_vec(), q), "Vec"),
        1 => (run_query(&fill::<FastDataset>(d), q), "FastDataset"),
        _ => (run_query(&fill::<LightDataset>(d), q), "LightDataset"),
    }
}

pub fn main(args: &[String]) {
    quiet_panics();
    let seed = arg_u64(args, "--seed", 1);
    let out = arg(args, "--out").expect("--out");
    let n = arg_u64(args, "--n", 1000) as usize;
    let mode = arg(args, "--mode").unwrap_or("c13");
    let mut tr = Trace::create(out);
    let mut rng = Rng::new(seed ^ 0x13);
    if mode == "c13" {
        for i in 0..n {
            let mut d = rand_data(&mut rng);
            if i % 6 == 5 {
                // aimed at quoted triples: the data has one at least (as subject and / or object), the query generalises statements of the data
                let (iris, preds, _) = data_terms();
                let quoted = quoted_terms();
                for _ in 0..1 + rng.below(2) {
                    let (s, o) = match rng.below(3) { 0 => (rng.pick(&quoted).clone(), rng.pick(&iris).clone()), 1 => (rng.pick(&iris).clone(), rng.pick(&quoted).clone()), _ => (rng.pick(&quoted).clone(), rng.pick(&quoted).clone()) };
                    let q: Q = ([s, rng.pick(&preds).clone(), o], if rng.chance(1, 3) { Some(iri("http://ex/g1")) } else { None });
                    if !d.iter().any(|x| crate::iso::same_quad(x, &q)) {
                        d.push(q);
                    }
                }
            }
            let p = if i % 6 == 5 { aimed_quoted(&mut rng, &d) } else { rand_pattern(&mut rng, 0) };
            let ask = rng.chance(1, 8);
            let ev = guarded(|| {
                let pat = pattern(&p);
                let q = if ask { Query::Ask { dataset: None, pattern: pat, base_iri: None } } else { Query::Select { dataset: None, pattern: pat, base_iri: None } };
                let (res, cont) = run_on(i, &d, q);
                json!({"ev":"Query","ask":ask,"container":cont,"d":d.iter().map(q_json).collect::<Vec<_>>(),"p":p,"res":res})
            });
            match ev {
                Ok(e) => tr.emit(e),
                Err(m) => tr.emit(json!({"ev":"Panic","msg":m,"d":d.iter().map(q_json).collect::<Vec<_>>(),"p":p})),
            }
        }
        // every function / operator of the expression fragment on every tuple of constants of the universe:
        // SELECT ?r { BIND(f(c1, c2) AS ?r) } over the empty group (one solution), every `stride`-th application
        let stride = arg_u64(args, "--expr-stride", 4) as usize;
        let (iris, _, lits) = data_terms();
        let mut consts: Vec<Value> = vec![term_json(&iris[0])];
        consts.extend(lits.iter().map(term_json));
        let c = |t: &Value| json!({"op":"const","term":t});
        let mut apps: Vec<Value> = vec![];
        for a in &consts {
            for op in ["isiri", "isblank", "isliteral", "isnumeric", "str", "lang", "datatype", "strlen", "ucase", "lcase", "not"] {
                apps.push(json!({"op":op,"a":c(a)}));
            }
            apps.push(json!({"op":"if","c":c(a),"a":c(&consts[1]),"b":c(&consts[5])}));
            apps.push(json!({"op":"coalesce","args":[{"op":"lang","a":c(a)}, c(&consts[2])]}));
            for b in &consts {
                for op in ["eq", "ne", "lt", "gt", "le", "ge", "sameterm", "add", "sub", "mul", "and", "or", "strstarts", "strends", "contains"] {
                    apps.push(json!({"op":op,"a":c(a),"b":c(b)}));
                }
                apps.push(json!({"op":"concat","args":[c(a), c(b)]}));
            }
        }
        let int = |s: &str| json!({"op":"const","term": term_json(&lit_dt(s, &format!("{XSD}integer")))});
        for a in consts.iter().filter(|t| t["k"] == "lit") {
            for st in ["-3", "0", "1", "2", "3", "4", "10"] {
                apps.push(json!({"op":"substr","a":c(a),"b":int(st)}));
                for ln in ["-3", "0", "1", "2", "10"] {
                    apps.push(json!({"op":"substr","a":c(a),"b":int(st),"c":int(ln)}));
                }
            }
        }
        // the numeric tower (integer / decimal / float / double): every comparison on every pair of the universe of SparqlNum.tla
        if let Some(path) = arg(args, "--num-universe") {
            let nums: Vec<Value> = serde_json::from_str(&std::fs::read_to_string(path).expect("num universe")).expect("num universe json");
            let nums: Vec<Value> = nums.iter().map(|v| term_json(&lit_dt(v["lex"].as_str().unwrap(), v["dt"].as_str().unwrap()))).collect();
            for a in &nums {
                for b in &nums {
                    for op in ["eq", "ne", "lt", "gt", "le", "ge"] {
                        apps.push(json!({"op":op,"a":c(a),"b":c(b)}));
                    }
                }
            }
        }
        // small integers that went through arbitrary-precision arithmetic ((c + B) - B) against plain numbers: comparisons,
        // arithmetic and the term functions must not tell them from the constant c
        {
            let small = ["-3", "0", "1", "2", "10"];
            let others: Vec<Value> = ["-3", "0", "1", "2", "10"].iter().map(|l| term_json(&lit_dt(l, &format!("{XSD}integer")))).collect();
            // the numeric tower of SparqlNum.tla knows the integers 0 and 1: those are compared with every literal of its universe
            let tower: Vec<Value> = arg(args, "--num-universe")
                .map(|path| serde_json::from_str::<Vec<Value>>(&std::fs::read_to_string(path).expect("num universe")).expect("num universe json"))
                .unwrap_or_default()
                .iter().map(|v| term_json(&lit_dt(v["lex"].as_str().unwrap(), v["dt"].as_str().unwrap()))).collect();
            for (k, a) in small.iter().enumerate() {
                let big = BIGS[k % BIGS.len()];
                let ca = json!({"op":"const","term": term_json(&lit_dt(a, &format!("{XSD}integer"))),"big":big});
                for op in ["str", "datatype", "isnumeric", "not"] {
                    apps.push(json!({"op":op,"a":ca}));
                }
                for b in &others {
                    for op in ["eq", "ne", "lt", "gt", "le", "ge", "sameterm", "add", "sub", "mul"] {
                        apps.push(json!({"op":op,"a":ca,"b":c(b)}));
                        apps.push(json!({"op":op,"a":c(b),"b":ca}));
                    }
                }
                if *a == "0" || *a == "1" {
                    for b in &tower {
                        for op in ["eq", "ne", "lt", "gt", "le", "ge"] {
                            apps.push(json!({"op":op,"a":ca,"b":c(b)}));
                            apps.push(json!({"op":op,"a":c(b),"b":ca}));
                        }
                    }
                }
                for (j, b) in small.iter().enumerate() {
                    let cb = json!({"op":"const","term": term_json(&lit_dt(b, &format!("{XSD}integer"))),"big":BIGS[(j + 1) % BIGS.len()]});
                    for op in ["eq", "lt", "le", "sub", "sameterm"] {
                        apps.push(json!({"op":op,"a":ca,"b":cb}));
                    }
                }
            }
        }
        // unary minus / plus on every constant and on integers at the edges of the machine types (the lexical form is negated)
        for a in &consts {
            apps.push(json!({"op":"neg","a":c(a)}));
            apps.push(json!({"op":"pos","a":c(a)}));
        }
        // (these few run in every tier, whatever the stride)
        let mut always: Vec<Value> = vec![];
        for l in ["9223372036854775807", "-9223372036854775808", "9223372036854775808", "-9223372036854775809", "18446744073709551615", "-18446744073709551616", "2147483648", "-2147483648", "0", "7"] {
            let t = term_json(&lit_dt(l, &format!("{XSD}integer")));
            always.push(json!({"op":"neg","a":c(&t)}));
            always.push(json!({"op":"neg","a":{"op":"neg","a":c(&t)}}));
            always.push(json!({"op":"pos","a":c(&t)}));
        }
        let n_always = always.len();
        for (i, e) in always.into_iter().chain(apps.into_iter()).enumerate() {
            if i >= n_always && (i + seed as usize) % stride != 0 {
                continue;
            }
            let p = json!({"op":"extend","v":"r","e":e,"inner":{"op":"bgp","tps":[]}});
            let d: Vec<Q> = vec![];
            let ev = guarded(|| {
                let (res, cont) = run_on(0, &d, Query::Select { dataset: None, pattern: pattern(&p), base_iri: None });
                json!({"ev":"Query","ask":false,"container":cont,"d":[],"p":p,"res":res})
            });
            match ev {
                Ok(e) => tr.emit(e),
                Err(m) => tr.emit(json!({"ev":"Panic","msg":m,"d":[],"p":p})),
            }
        }
        // unsupported operators and dataset clauses: explicit NotImplemented, never a partial answer
        let base = json!({"op":"bgp","tps":[[{"var":"x"},{"var":"y"},{"var":"z"}]]});
        let d = rand_data(&mut rng);
        for op in ["join", "leftjoin", "minus", "values", "reduced", "group", "service", "path"] {
            for wrap in 0..3 {
                let mut p = json!({"op":op,"l":base,"r":base,"inner":base});
                if wrap == 1 {
                    p = json!({"op":"distinct","inner":p});
                }
                if wrap == 2 {
                    p = json!({"op":"union","l":base,"r":p});
                }
                let ev = guarded(|| {
                    let (res, cont) = run_on(wrap, &d, Query::Select { dataset: None, pattern: pattern(&p), base_iri: None });
                    json!({"ev":"Unsupported","what":op,"container":cont,"res":res})
                });
                match ev {
                    Ok(e) => tr.emit(e),
                    Err(m) => tr.emit(json!({"ev":"Panic","msg":m,"p":p})),
                }
            }
        }
        for (what, q) in [
            ("construct", Query::Construct { template: vec![], dataset: None, pattern: pattern(&base), base_iri: None }),
            ("describe", Query::Describe { dataset: None, pattern: pattern(&base), base_iri: None }),
            ("from-named", Query::Select { dataset: Some(QueryDataset { default: vec![nn("http://ex/g1")], named: Some(vec![nn("http://ex/g2")]) }), pattern: pattern(&base), base_iri: None }),
        ] {
            let ev = guarded(|| {
                let (res, cont) = run_on(0, &d, q);
                json!({"ev":"Unsupported","what":what,"container":cont,"res":res})
            });
            match ev {
                Ok(e) => tr.emit(e),
                Err(m) => tr.emit(json!({"ev":"Panic","msg":m,"p":what})),
            }
        }
    } else {
        crate::orderby::run(&mut rng, &mut tr, n);
    }
    let _ = OrderExpression::Asc(Expression::Variable(Variable::new_unchecked("x")));
    println!("events {}", tr.finish());
}
