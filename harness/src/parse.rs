//! C08 driver: every parser on arbitrary bytes.  Valid documents, every / sampled single-edit mutation of them (deletion,
//! insertion, byte flip, truncation), invalid UTF-8, deep nesting, very long tokens.  Each input is parsed in a child process
//! on a thread with a 2 MiB stack; the outcome (statements / error value / panic) and every DISTINCT term yielded are recorded,
//! together with the verdict of the toolkit's own validators; a child that dies leaves a `Died` event.
use crate::isolate::{Part, run_isolated};
use crate::util::*;
use serde_json::{Value, json};
use sophia_api::prelude::*;
use sophia_api::term::{BnodeId, LanguageTag, SimpleTerm, VarName};
use sophia_iri::{Iri, IriRef};
use std::collections::BTreeSet;

pub const PARSERS: [&str; 8] = ["nt", "nq", "turtle", "trig", "gnq", "gtrig", "xml", "jsonld"];

fn corpus(parser: &str) -> Vec<String> {
    let v: Vec<&str> = match parser {
        "nt" | "nq" | "gnq" => vec![
            "<http://ex/s> <http://ex/p> <http://ex/o> .\n",
            "_:b0 <http://ex/p> \"a\\\"b\\n\\u00e9\\U0001F600\"@fr-BE .\n_:0a.b-c <http://[::1]:80/p?q#f> \"1\"^^<http://www.w3.org/2001/XMLSchema#integer> . # c\n",
            "<http://a.example/%41//x/../y;p?q=1&r#f> <urn:x:y> _:\u{e9}\u{b7}x .\n<http://\u{e9}x.org/\u{1F600}> <http://ex/p> \"\"@en-x-a-1 .\n",
        ],
        "turtle" | "trig" | "gtrig" => vec![
            "@prefix ex: <http://ex/> .\n@base <http://base/a/b> .\nex:s ex:p ex:o , <rel> ; a ex:C .\n",
            "PREFIX : <http://ex/ns#>\nBASE <http://b/>\n:a\\~b :p%41 ( 1 2.5 -3e2 true \"x\"@en ( ) ) ; :q [ :r [ ] ; :s \"\"\"long \" \"\" \n text\"\"\"^^:dt ] .\n",
            "<http://[2001:db8::1]/> <http://ex/p> '''a'b''' , 'c\\'d' , \"\\u00e9\" .\n_:b.1 <http://ex/p> _:b-2 .\n[] <http://ex/p> <#frag> , <?q> , <//host/x> , <../up> .\n",
            "<http://[1:2:3:4:5::6:7]/> <http://[1:2:3:4:5:6::7]/p> <http://[::1.2.3.4]/> , <http://[1:2:3:4:5::1.2.3.4]/> , <http://[1::]/> , <http://[v1.a]/> , \"x\"@en-x-a , \"y\"@de-u-co-phonebk , \"z\"@a-1 .\n",
            "@prefix e\u{e9}: <http://ex/\u{e9}#> .\ne\u{e9}:x\u{b7}y e\u{e9}:p.q e\u{e9}:%C3%A9 .\n<< <http://ex/s> <http://ex/p> <http://ex/o> >> <http://ex/q> << _:b <http://ex/p> \"l\" >> .\n",
        ],
        "xml" => vec![
            "<?xml version=\"1.0\"?>\n<rdf:RDF xmlns:rdf=\"http://www.w3.org/1999/02/22-rdf-syntax-ns#\" xmlns:ex=\"http://ex/\" xml:base=\"http://base/a/b\">\n <rdf:Description rdf:about=\"s\" ex:attr=\"v\">\n  <ex:p rdf:resource=\"http://ex/o\"/>\n  <ex:q xml:lang=\"fr-BE\">chat</ex:q>\n  <ex:r rdf:datatype=\"http://www.w3.org/2001/XMLSchema#int\">5</ex:r>\n  <ex:s rdf:nodeID=\"b1\"/>\n  <ex:t rdf:parseType=\"Collection\"><rdf:Description rdf:about=\"a\"/><ex:C/></ex:t>\n  <ex:u rdf:parseType=\"Literal\"><b>x</b></ex:u>\n  <ex:v rdf:parseType=\"Resource\"><ex:w>1</ex:w></ex:v>\n  <rdf:li>i</rdf:li>\n </rdf:Description>\n <ex:T rdf:ID=\"id1\"><ex:p rdf:ID=\"st1\">r</ex:p></ex:T>\n</rdf:RDF>\n",
            "<rdf:RDF xmlns:rdf=\"http://www.w3.org/1999/02/22-rdf-syntax-ns#\" xmlns=\"http://[::1]/ns#\"><rdf:Description rdf:about=\"http://\u{e9}x/%41?q#f\"><p>\u{1F600}&amp;&lt;&#65;</p></rdf:Description></rdf:RDF>",
            // blank node identifiers that are XML names but unusual blank node labels (trailing / doubled dots, middle dot, leading underscore), IPv6 hosts with every count of groups
            "<rdf:RDF xmlns:rdf=\"http://www.w3.org/1999/02/22-rdf-syntax-ns#\" xmlns:e=\"http://ex/\"><rdf:Description rdf:nodeID=\"a.\"><e:p rdf:nodeID=\"a..b\"/><e:q rdf:nodeID=\"_x\"/><e:r rdf:nodeID=\"a\u{b7}-\"/><e:s rdf:resource=\"http://[1:2:3:4:5::6:7]/\"/><e:t xml:lang=\"en-x-a\">v</e:t></rdf:Description></rdf:RDF>",
        ],
        _ => vec![
            "{\"@context\":{\"ex\":\"http://ex/\",\"@base\":\"http://base/a/b\",\"@language\":\"fr-BE\"},\"@id\":\"s\",\"ex:p\":{\"@id\":\"ex:o\"},\"ex:q\":\"chat\",\"ex:r\":{\"@value\":\"5\",\"@type\":\"http://www.w3.org/2001/XMLSchema#int\"},\"ex:l\":{\"@list\":[1,2.5,true,{\"@list\":[]}]},\"@type\":\"ex:C\",\"ex:g\":{\"@graph\":[{\"@id\":\"_:b1\",\"ex:p\":{\"@id\":\"_:b-2.x\"}}]}}",
            "[{\"@id\":\"http://[::1]/%41?q#f\",\"http://ex/p\":[{\"@value\":\"x\",\"@language\":\"en-x-a-1\"},{\"@id\":\"_:\u{e9}\"},{\"@value\":{\"a\":[1,null]},\"@type\":\"@json\"}],\"@reverse\":{\"http://ex/r\":{\"@id\":\"http://\u{e9}x/\u{1F600}\"}}}]",
        ],
    };
    let mut out: Vec<String> = v.into_iter().map(String::from).collect();
    if matches!(parser, "nq" | "gnq") {
        out.push("<http://ex/s> <http://ex/p> \"o\" <http://ex/g> .\n_:s <http://ex/p> _:o _:g .\n".into());
    }
    if matches!(parser, "trig" | "gtrig") {
        out.push("@prefix ex: <http://ex/> .\nex:g { ex:s ex:p ex:o . [] ex:p ( ex:a ) }\nGRAPH _:g1 { _:s ex:p \"l\"@en }\n{ ex:d ex:p 1 }\n".into());
    }
    if matches!(parser, "gnq") {
        out.push("?s <rel> \"lit\" ?g .\n\"lit\" _:p <<?a <b> \"c\">> <g> .\n".into());
    }
    if matches!(parser, "gtrig") {
        out.push("?s ?p ?o . \"lit\" <rel> ?v\u{e9} .\n{ _:b \"p\" <x> }\n".into());
    }
    out
}

const INSERTS: [&[u8]; 24] = [b"<", b">", b"\"", b"'", b"\\", b"_:", b":", b"@", b"^^", b"#", b"?", b"%", b" ", b"\n", b"[", b"(", b"{", b"<<", b"\xff", b"\xc3", b"\xf0\x9f", b"\x00", b"\\u00", b"//"];

/// input number idx of a parser: (bytes, description)
fn input_of(parser: &str, idx: usize, seed: u64, budget: usize) -> (Vec<u8>, String) {
    let docs = corpus(parser);
    if idx < docs.len() {
        return (docs[idx].clone().into_bytes(), format!("valid document #{idx}"));
    }
    let mut rng = Rng::new(seed ^ (idx as u64).wrapping_mul(0x9E37_79B9) ^ 0x08);
    let k = idx - docs.len();
    // structured stress inputs first
    let deep = |open: &str, close: &str, pre: &str, post: &str, n: usize| format!("{pre}{}{}{post}", open.repeat(n), close.repeat(n));
    let depths = [10usize, 1000, 100_000];
    let stress: Vec<(String, String)> = match parser {
        "turtle" | "trig" | "gtrig" => depths.iter().flat_map(|n| vec![
            (deep("( ", ") ", "<http://ex/s> <http://ex/p> ", " .\n", *n), format!("collections nested {n} deep")),
            (deep("[ <http://ex/p> ", "] ", "<http://ex/s> <http://ex/p> ", " .\n", *n), format!("property lists nested {n} deep")),
            (deep("<< <http://ex/s> <http://ex/p> ", " >> ", "<http://ex/s> <http://ex/p> ", "<http://ex/o> .\n", *n), format!("quoted triples nested {n} deep")),
            (format!("<http://ex/{}> <http://ex/p> \"{}\" .\n", "a".repeat(*n * 10), "\\n".repeat(*n * 5)), format!("tokens of {} characters", n * 10)),
        ]).collect(),
        "nt" | "nq" | "gnq" => depths.iter().flat_map(|n| vec![
            (format!("<http://ex/{}> <http://ex/p> \"{}\"@en-{} .\n", "a/".repeat(*n * 5), "\\u00e9".repeat(*n), "a1".repeat((*n).min(2000))), format!("tokens of {} characters", n * 10)),
            (deep("<< <http://ex/s> <http://ex/p> ", " >> ", "<http://ex/s> <http://ex/p> ", "<http://ex/o> .\n", *n), format!("quoted triples nested {n} deep")),
        ]).collect(),
        "xml" => depths.iter().flat_map(|n| vec![
            (format!("<rdf:RDF xmlns:rdf=\"http://www.w3.org/1999/02/22-rdf-syntax-ns#\" xmlns:e=\"http://ex/\">{}{}</rdf:RDF>", "<e:C><e:p>".repeat(*n), "</e:p></e:C>".repeat(*n)), format!("elements nested {} deep", n * 2)),
            (format!("<rdf:RDF xmlns:rdf=\"http://www.w3.org/1999/02/22-rdf-syntax-ns#\" xmlns:e=\"http://ex/\"><e:C rdf:about=\"http://ex/{}\"><e:p>{}</e:p></e:C></rdf:RDF>", "a".repeat(*n * 10), "&amp;".repeat(*n * 2)), format!("tokens of {} characters", n * 10)),
            (format!("<rdf:RDF xmlns:rdf=\"http://www.w3.org/1999/02/22-rdf-syntax-ns#\" xmlns:e=\"http://ex/\"><e:C><e:p rdf:parseType=\"Literal\">{}{}</e:p></e:C></rdf:RDF>", "<b>".repeat(*n), "</b>".repeat(*n)), format!("XML literal nested {n} deep")),
        ]).collect(),
        _ => depths.iter().flat_map(|n| vec![
            (format!("{{\"@id\":\"http://ex/s\",\"http://ex/p\":{}1{}}}", "[".repeat(*n), "]".repeat(*n)), format!("arrays nested {n} deep")),
            (format!("{{\"@id\":\"http://ex/s\",\"http://ex/p\":{}1{}}}", "{\"@list\":[".repeat(*n), "]}".repeat(*n)), format!("lists nested {n} deep")),
            (format!("{{\"@id\":\"http://ex/s\",\"http://ex/p\":{}{{\"@id\":\"http://ex/o\"}}{}}}", "{\"http://ex/q\":".repeat(*n), "}".repeat(*n)), format!("node objects nested {n} deep")),
            (format!("{{\"@id\":\"http://ex/{}\",\"http://ex/p\":\"{}\"}}", "a".repeat(*n * 10), "\\n".repeat(*n * 5)), format!("tokens of {} characters", n * 10)),
        ]).collect(),
    };
    // aimed documents: places where a parser glues, resolves or reports strings
    let mut stress = stress;
    match parser {
        "turtle" | "trig" | "gtrig" => {
            for (pre, local) in [("x://h:8", "a"), ("x://h:", "80a"), ("http://[::1", "]/x"), ("http://ex/%4", "g"), ("http://ex/%", "41"), ("x:", "//[z"), ("http://a/", "\\u0020"), ("http://a/#", "b#c")] {
                stress.push((format!("@prefix p: <{pre}> .\n<x:s> <x:p> p:{local} .\np:{local} <x:p> <x:o> .\n"), format!("prefix <{pre}> glued to local name {local}")));
            }
            for iri in ["a b", " ", "http://ex/a b", "x:\u{9}y", "{}", "a|b", "^", "`"] {
                stress.push((format!("<{iri}> <{iri}> <{iri}> .\n"), format!("IRI reference <{iri}> with characters outside the IRI grammar")));
            }
        }
        "nt" | "nq" | "gnq" => {
            for iri in ["a b", " ", "http://ex/a b", "{}", "a|b"] {
                stress.push((format!("<{iri}> <{iri}> <{iri}> .\n"), format!("IRI reference <{iri}> with characters outside the IRI grammar")));
            }
        }
        "xml" => {}
        _ => {
            for base in ["http://[V1.a]/", "http://[v1.a]/", "x://h:8a/", "http://a b/", "relative/base", "http://ex/%zz"] {
                stress.push((format!("{{\"@context\":{{\"@base\":\"{base}\"}},\"@id\":\"x\",\"http://ex/p\":{{\"@id\":\"y\"}}}}"), format!("@base {base}")));
            }
            // error messages that quote a long string with multi-byte characters at every offset (a remote context is refused)
            for k in 0..90usize {
                stress.push((format!("{{\"@context\":\"http://ex/{}{}\",\"@id\":\"http://ex/s\"}}", "a".repeat(k), "\u{e9}\u{1F600}".repeat(60)), format!("remote context with a long non-ASCII IRI (offset {k})")));
            }
        }
    }
    if k < stress.len() {
        let (s, d) = stress[k].clone();
        return (s.into_bytes(), d);
    }
    // encodings: invalid UTF-8 at the first byte, byte-order marks, UTF-16, a sequence cut at the end, over-long and surrogate encodings
    let k = k - stress.len();
    let d0 = docs[0].as_bytes();
    let enc: Vec<(Vec<u8>, &str)> = vec![
        ([b"\xff", d0].concat(), "invalid UTF-8 byte 0xFF in front"),
        ([b"\x80", d0].concat(), "lone continuation byte in front"),
        ([b"\xfe\xff", d0].concat(), "UTF-16 BE byte-order mark in front"),
        ([b"\xef\xbb\xbf", d0].concat(), "UTF-8 byte-order mark in front"),
        (docs[0].encode_utf16().flat_map(|u| u.to_le_bytes()).collect(), "document #0 in UTF-16 LE"),
        ([d0, b"\xc3"].concat(), "truncated UTF-8 sequence at the end"),
        ([&d0[..d0.len() / 2], b"\xc0\xaf", &d0[d0.len() / 2..]].concat(), "over-long encoding in the middle"),
        ([&d0[..d0.len() / 2], b"\xed\xa0\x80", &d0[d0.len() / 2..]].concat(), "encoded surrogate in the middle"),
        (vec![], "empty input"),
        (vec![0u8; 64], "64 NUL bytes"),
        ({ let mut v = d0.to_vec(); v[0] |= 0x80; v }, "high bit of the first byte set"),
    ];
    if k < enc.len() {
        let (b, d) = enc[k].clone();
        return (b, d.to_string());
    }
    let k = k - enc.len();
    // single-edit mutations of the valid documents: exhaustive positions while the budget lasts, then seeded random ones
    let di = k % docs.len();
    let doc = docs[di].as_bytes();
    let slot = k / docs.len();
    let exhaustive = doc.len() * 3;
    let (pos, kind) = if slot < exhaustive.min(budget) { (slot / 3, slot % 3) } else { (rng.below(doc.len() + 1), 3 + rng.below(3)) };
    let mut v = doc.to_vec();
    let desc;
    match kind {
        0 if pos < v.len() => {
            v.remove(pos);
            desc = format!("document #{di} with byte {pos} deleted");
        }
        1 if pos < v.len() => {
            v.truncate(pos);
            desc = format!("document #{di} truncated at byte {pos}");
        }
        2 if pos < v.len() => {
            v[pos] ^= 1 << (slot % 8);
            desc = format!("document #{di} with bit {} of byte {pos} flipped", slot % 8);
        }
        3 if pos < v.len() => {
            v[pos] = rng.next() as u8;
            desc = format!("document #{di} with byte {pos} replaced by {:#04x}", v[pos]);
        }
        _ => {
            let ins = *rng.pick(&INSERTS);
            let p = pos.min(v.len());
            v.splice(p..p, ins.iter().cloned());
            desc = format!("document #{di} with {:?} inserted at byte {p}", String::from_utf8_lossy(ins));
        }
    }
    (v, desc)
}

fn collect<T: Term>(t: T, strict: bool, acc: &mut BTreeSet<(String, String, bool)>) {
    match t.kind() {
        TermKind::Iri => {
            acc.insert(("iri".into(), t.iri().unwrap().to_string(), strict));
        }
        TermKind::BlankNode => {
            acc.insert(("bnode".into(), t.bnode_id().unwrap().to_string(), strict));
        }
        TermKind::Variable => {
            acc.insert(("var".into(), t.variable().unwrap().to_string(), strict));
        }
        TermKind::Literal => {
            let _ = t.lexical_form().unwrap().len();
            if let Some(tag) = t.language_tag() {
                acc.insert(("lang".into(), tag.to_string(), strict));
            } else {
                acc.insert(("iri".into(), t.datatype().unwrap().to_string(), true));
            }
        }
        TermKind::Triple => {
            for x in t.triple().unwrap() {
                collect(x, strict, acc);
            }
        }
    }
}

/// parse `bytes` with `parser`: (Ok(statements) or Err(error value), terms of the statements yielded - also of those yielded before an error)
fn parse(parser: &str, bytes: &[u8]) -> (Result<usize, String>, BTreeSet<(String, String, bool)>) {
    use sophia_api::parser::{QuadParser, TripleParser};
    use sophia_api::source::{QuadSource, TripleSource};
    let mut acc = BTreeSet::new();
    let mut n = 0usize;
    let rd = std::io::BufReader::new(bytes);
    let strict = !parser.starts_with('g');
    macro_rules! triples {
        ($p:expr) => {
            $p.parse(rd).for_each_triple(|t| {
                n += 1;
                for x in t.spo() {
                    collect(x, strict, &mut acc);
                }
            }).map_err(|e| e.to_string())
        };
    }
    macro_rules! quads {
        ($p:expr) => {
            $p.parse(rd).for_each_quad(|q| {
                n += 1;
                let (spo, g) = q.spog();
                for x in spo {
                    collect(x, strict, &mut acc);
                }
                if let Some(g) = g {
                    collect(g, strict, &mut acc);
                }
            }).map_err(|e| e.to_string())
        };
    }
    let base = Some(Iri::new_unchecked("http://doc.example/dir/file".to_string()));
    let r = match parser {
        "nt" => triples!(sophia_turtle::parser::nt::NTriplesParser {}),
        "nq" => quads!(sophia_turtle::parser::nq::NQuadsParser {}),
        "gnq" => quads!(sophia_turtle::parser::gnq::GNQuadsParser {}),
        "turtle" => triples!(sophia_turtle::parser::turtle::TurtleParser { base }),
        "trig" => quads!(sophia_turtle::parser::trig::TriGParser { base }),
        "gtrig" => quads!(sophia_turtle::parser::gtrig::GTriGParser { base }),
        "xml" => triples!(sophia_xml::parser::RdfXmlParser { base }),
        _ => quads!(sophia_jsonld::JsonLdParser::new()),
    };
    (r.map(|_| n), acc)
}

fn on_small_stack<R: Send + 'static>(f: impl FnOnce() -> R + Send + 'static) -> R {
    std::thread::Builder::new().stack_size(2 * 1024 * 1024).spawn(f).expect("spawn").join().expect("join")
}

pub fn main(args: &[String]) {
    quiet_panics();
    let profile = if cfg!(debug_assertions) { "dev" } else { "release" };
    let seed = arg_u64(args, "--seed", 1);
    let per = arg_u64(args, "--per-parser", 1500) as usize;
    let total = PARSERS.len() * per;
    let describe = move |idx: usize| {
        let parser = PARSERS[idx / per];
        let (bytes, desc) = input_of(parser, idx % per, seed, per / 2);
        (parser, bytes, desc)
    };
    if args.iter().any(|a| a == "--child") {
        let from = arg_u64(args, "--from", 0) as usize;
        let to = arg_u64(args, "--to", 0) as usize;
        let mut part = Part::create(arg(args, "--part").expect("--part"));
        for idx in from..to {
            let (parser, bytes, desc) = describe(idx);
            part.begin(idx);
            let b2 = bytes.clone();
            let r = on_small_stack(move || guarded(|| parse(parser, &b2)));
            let short = bytes.len() <= 400;
            let (out, n, msg, terms) = match r {
                Err(p) => ("panic", 0, p, BTreeSet::new()),
                Ok((Err(e), t)) => ("err", 0, e.chars().take(120).collect(), t),
                Ok((Ok(n), t)) => ("ok", n, String::new(), t),
            };
            let terms: Vec<Value> = terms
                .into_iter()
                .map(|(kind, v, strict)| {
                    let ok = match kind.as_str() {
                        "iri" => if strict { Iri::new(v.as_str()).is_ok() } else { IriRef::new(v.as_str()).is_ok() },
                        "bnode" => BnodeId::new(v.as_str()).is_ok(),
                        "lang" => LanguageTag::new(v.as_str()).is_ok(),
                        _ => VarName::new(v.as_str()).is_ok(),
                    };
                    let long = v.chars().count() > 120;
                    json!({"kind":kind,"strict":strict,"v": if long { json!([]) } else { cps(&v) },"long":long,"toolkit_ok":ok})
                })
                .collect();
            part.result(&json!({"ev":"Parse","parser":parser,"profile":profile,"idx":idx,"desc":desc,"len":bytes.len(),"input": if short { bytes_json(&bytes) } else { json!([]) },
                "out":out,"n":n,"msg":msg,"terms":terms}));
        }
        return;
    }
    let mut tr = Trace::create(arg(args, "--out").expect("--out"));
    let child_args: Vec<String> = vec!["parse".into(), "--seed".into(), seed.to_string(), "--per-parser".into(), per.to_string()];
    run_isolated(&child_args, total, 250, 4_000_000, 30, &mut tr, &move |idx| {
        let (parser, bytes, desc) = describe(idx);
        json!({"parser":parser,"profile":profile,"idx":idx,"desc":desc,"len":bytes.len(),"input": if bytes.len() <= 400 { bytes_json(&bytes) } else { json!([]) }})
    });
    let _: Option<SimpleTerm> = None;
    println!("events {}", tr.finish());
}
