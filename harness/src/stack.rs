//! C16 driver: peak stack use of querying, mutating, serialising, parsing and SPARQL-querying, as a function of the AMOUNT of data
//! (never of its nesting).  Every (operation, size) runs in a child process, on a thread with a 2 MiB stack whose unused part has been
//! painted with a pattern; the high-water mark read back afterwards is the peak stack use of the operation.  A child that dies
//! (stack overflow = SIGSEGV/abort) leaves a `Died` event.
use crate::isolate::{Part, run_isolated};
use crate::util::*;
use serde_json::{Value, json};
use sophia_api::prelude::*;
use sophia_api::term::SimpleTerm;
use sophia_inmem::dataset::{FastDataset, LightDataset};
use sophia_inmem::graph::{FastGraph, LightGraph};

const STACK: usize = 2 * 1024 * 1024;
const PATTERN: u64 = 0xA5A5_5A5A_C3C3_3C3C;

/// runs f on a fresh thread with a 2 MiB stack and returns (result, peak stack use in bytes)
fn measured<R: Send + 'static>(f: impl FnOnce() -> R + Send + 'static) -> (R, usize) {
    std::thread::Builder::new()
        .stack_size(STACK)
        .spawn(move || {
            let marker = 0u8;
            let top = (&marker as *const u8 as usize) & !7;
            // stay 64 KiB above the lowest address of the stack (guard page, rounding)
            let bottom = top - (STACK - 64 * 1024);
            let painted_top = top - 2048;
            unsafe {
                let mut p = bottom;
                while p < painted_top {
                    std::ptr::write_volatile(p as *mut u64, PATTERN);
                    p += 8;
                }
            }
            let r = run_here(f);
            let mut p = bottom;
            unsafe {
                while p < painted_top && std::ptr::read_volatile(p as *const u64) == PATTERN {
                    p += 8;
                }
            }
            (r, top - p)
        })
        .expect("spawn")
        .join()
        .expect("join")
}
#[inline(never)]
fn run_here<R>(f: impl FnOnce() -> R) -> R {
    f()
}

fn ex(s: &str, i: usize) -> ST {
    iri(&format!("http://ex/{s}{i}"))
}
fn quads(n: usize, graphs: bool) -> Vec<([ST; 3], Option<ST>)> {
    (0..n).map(|i| ([ex("s", i), ex("p", i % 7), ex("o", i)], if graphs { Some(ex("g", i)) } else { None })).collect()
}
fn nt_doc(n: usize, quads: bool) -> String {
    let mut s = String::new();
    for i in 0..n {
        s.push_str(&format!("<http://ex/s{i}> <http://ex/p{}> \"v{i}\" {}.\n", i % 7, if quads { format!("<http://ex/g{}> ", i % 5) } else { String::new() }));
    }
    s
}
fn list_graph(n: usize) -> Vec<[ST; 3]> {
    let mut g = vec![[ex("a", 0), ex("p", 0), bn("c0")]];
    for i in 0..n {
        g.push([bn(&format!("c{i}")), iri(&format!("{RDF}first")), ex("item", i)]);
        g.push([bn(&format!("c{i}")), iri(&format!("{RDF}rest")), if i + 1 == n { iri(&format!("{RDF}nil")) } else { bn(&format!("c{}", i + 1)) }]);
    }
    g
}

pub const OPS: [&str; 60] = [
    "fast-ds-match-all", "fast-ds-match-g", "fast-ds-match-gs", "fast-ds-match-o", "fast-ds-match-po", "fast-ds-match-closure", "light-ds-match-closure", "light-ds-match-g", "light-ds-match-o",
    "fast-g-match-closure", "fast-g-match-s", "fast-g-match-o", "light-g-match-closure", "light-g-match-s",
    "fast-ds-insert-remove", "light-ds-insert-remove", "fast-g-insert-remove",
    "nt-ser-escapes", "turtle-ser-escapes", "turtle-pretty-ser-escapes", "nt-ser-doc", "nq-ser-doc", "turtle-ser-doc", "turtle-pretty-ser-doc", "trig-pretty-ser-doc", "xml-ser-doc", "jsonld-ser-doc",
    "nt-parse-doc", "nq-parse-doc", "turtle-parse-doc", "trig-parse-doc", "xml-parse-doc", "jsonld-parse-doc",
    "jsonld-ser-list", "turtle-pretty-ser-list", "turtle-parse-list", "jsonld-ser-graphs", "trig-pretty-ser-graphs",
    "nt-parse-comments", "nq-parse-blank-lines", "turtle-parse-prefixes", "trig-parse-prefixes", "xml-parse-comments", "gtrig-parse-prefixes",
    "source-filter-iter", "source-filter-map-iter", "source-map-iter", "parser-filter-map-iter", "sparql-bgp-join", "sparql-bgp-join3",
    "sparql-graph-var", "sparql-bgp-filter", "sparql-order-by", "sparql-distinct-union", "c14n-doc", "iso-doc",
    // one subject (in one graph) carrying every statement
    "turtle-pretty-ser-hub", "trig-pretty-ser-hub", "xml-ser-hub", "jsonld-ser-hub",
];

/// one operation at one size: Ok(number of results) or Err(error value) - both are fine for C16; only the stack matters
fn run_op(op: &str, n: usize) -> (Result<usize, String>, usize) {
    use sophia_api::serializer::{QuadSerializer, Stringifier, TripleSerializer};
    use sophia_api::source::{QuadSource, TripleSource};
    let last = n - 1;
    // a matcher that is a closure defeats the index: every row is visited and all but the last are skipped
    macro_rules! ds_match {
        ($ty:ty, $s:expr, $p:expr, $o:expr, $g:expr) => {{
            let d: $ty = quads(n, true).into_iter().map(Ok::<_, std::convert::Infallible>).collect_quads().map_err(|e| e.to_string()).unwrap();
            measured(move || Ok(d.quads_matching($s, $p, $o, $g).filter(|q| q.is_ok()).count()))
        }};
    }
    macro_rules! g_match {
        ($ty:ty, $s:expr, $p:expr, $o:expr) => {{
            let g: $ty = quads(n, false).into_iter().map(|q| Ok::<_, std::convert::Infallible>(q.0)).collect_triples().map_err(|e| e.to_string()).unwrap();
            measured(move || Ok(g.triples_matching($s, $p, $o).filter(|q| q.is_ok()).count()))
        }};
    }
    let tl = ex("o", last);
    let is_last = move |t: SimpleTerm| Term::eq(&t, &tl);
    let gl = ex("g", last);
    let g_is_last = move |g: Option<SimpleTerm>| g.is_some_and(|g| Term::eq(&g, &gl));
    match op {
        "fast-ds-match-all" => ds_match!(FastDataset, Any, Any, is_last, Any),
        "fast-ds-match-g" => ds_match!(FastDataset, Any, Any, is_last, [Some(ex("g", last))]),
        "fast-ds-match-gs" => ds_match!(FastDataset, [ex("s", last)], Any, is_last, [Some(ex("g", last))]),
        "fast-ds-match-o" => ds_match!(FastDataset, is_last_s(last), Any, [ex("o", last)], Any),
        "fast-ds-match-po" => ds_match!(FastDataset, is_last_s(last), [ex("p", last % 7)], Any, Any),
        "fast-ds-match-closure" => ds_match!(FastDataset, Any, Any, Any, g_is_last),
        "light-ds-match-closure" => ds_match!(LightDataset, Any, Any, is_last, Any),
        "light-ds-match-g" => ds_match!(LightDataset, Any, Any, Any, g_is_last),
        "light-ds-match-o" => ds_match!(LightDataset, is_last_s(last), [ex("p", last % 7)], Any, Any),
        "fast-g-match-closure" => g_match!(FastGraph, Any, Any, is_last),
        "fast-g-match-s" => g_match!(FastGraph, is_last_s(last), [ex("p", last % 7)], Any),
        "fast-g-match-o" => g_match!(FastGraph, is_last_s(last), Any, Any),
        "light-g-match-closure" => g_match!(LightGraph, Any, Any, is_last),
        "light-g-match-s" => g_match!(LightGraph, is_last_s(last), [ex("p", last % 7)], Any),
        "fast-ds-insert-remove" | "light-ds-insert-remove" => {
            let qs = quads(n, true);
            let fast = op.starts_with("fast");
            measured(move || {
                let mut k = 0;
                if fast {
                    let mut d = FastDataset::new();
                    for q in &qs {
                        k += MutableDataset::insert(&mut d, &q.0[0], &q.0[1], &q.0[2], q.1.as_ref()).map_err(|e| e.to_string())? as usize;
                    }
                    k += MutableDataset::remove_matching(&mut d, Any, [ex("p", 3)], Any, Any).map_err(|e| e.to_string())?;
                    MutableDataset::retain_matching(&mut d, Any, [ex("p", 1)], Any, Any).map_err(|e| e.to_string())?;
                    k += d.quads().count();
                } else {
                    let mut d = LightDataset::new();
                    for q in &qs {
                        k += MutableDataset::insert(&mut d, &q.0[0], &q.0[1], &q.0[2], q.1.as_ref()).map_err(|e| e.to_string())? as usize;
                    }
                    k += MutableDataset::remove_matching(&mut d, Any, [ex("p", 3)], Any, Any).map_err(|e| e.to_string())?;
                    MutableDataset::retain_matching(&mut d, Any, [ex("p", 1)], Any, Any).map_err(|e| e.to_string())?;
                    k += d.quads().count();
                }
                Ok(k)
            })
        }
        "fast-g-insert-remove" => {
            let qs = quads(n, false);
            measured(move || {
                let mut g = FastGraph::new();
                let mut k = 0;
                for q in &qs {
                    k += MutableGraph::insert(&mut g, &q.0[0], &q.0[1], &q.0[2]).map_err(|e| e.to_string())? as usize;
                }
                k += MutableGraph::remove_matching(&mut g, Any, [ex("p", 3)], Any).map_err(|e| e.to_string())?;
                Ok(k + g.triples().count())
            })
        }
        "nt-ser-escapes" | "turtle-ser-escapes" | "turtle-pretty-ser-escapes" => {
            // every escaped character alone, doubled, and in the pairs a serializer might treat as one unit (CR LF, backslash + quote ...)
            let lit = lit_dt(&"\"\\\n\r\r\n\n\n\"\"\\\\\r\r\\\"".repeat(n / 16 + 1), &format!("{XSD}string"));
            let g = vec![[ex("s", 0), ex("p", 0), lit]];
            let op = op.to_string();
            measured(move || {
                let src = g.iter().cloned().map(Ok::<_, std::convert::Infallible>);
                Ok(match op.as_str() {
                    "nt-ser-escapes" => sophia_turtle::serializer::nt::NtSerializer::new_stringifier().serialize_triples(src).map_err(|e| e.to_string())?.as_utf8().len(),
                    "turtle-ser-escapes" => sophia_turtle::serializer::turtle::TurtleSerializer::new_stringifier().serialize_triples(src).map_err(|e| e.to_string())?.as_utf8().len(),
                    _ => sophia_turtle::serializer::turtle::TurtleSerializer::new_stringifier_with_config(sophia_turtle::serializer::turtle::TurtleConfig::new().with_pretty(true))
                        .serialize_triples(src)
                        .map_err(|e| e.to_string())?
                        .as_utf8()
                        .len(),
                })
            })
        }
        "nt-ser-doc" | "nq-ser-doc" | "turtle-ser-doc" | "turtle-pretty-ser-doc" | "trig-pretty-ser-doc" | "xml-ser-doc" | "jsonld-ser-doc" | "jsonld-ser-graphs" | "trig-pretty-ser-graphs"
        | "turtle-pretty-ser-hub" | "trig-pretty-ser-hub" | "xml-ser-hub" | "jsonld-ser-hub" => {
            let many_graphs = op.ends_with("graphs");
            let hub = op.ends_with("hub");
            let qs: Vec<([ST; 3], Option<ST>)> = if hub {
                (0..n).map(|i| ([ex("hub", 0), ex("p", i % 3), ex("o", i)], if op.starts_with("trig") { Some(ex("g", 0)) } else { None })).collect()
            } else {
                quads(n, many_graphs).into_iter().enumerate().map(|(i, q)| if many_graphs { q } else { (q.0, if i % 3 == 0 { Some(ex("g", i % 5)) } else { None }) }).collect()
            };
            let op = op.to_string();
            measured(move || {
                let ts = qs.iter().map(|q| Ok::<_, std::convert::Infallible>(q.0.clone()));
                let qsrc = qs.iter().cloned().map(Ok::<_, std::convert::Infallible>);
                Ok(match op.as_str() {
                    "nt-ser-doc" => sophia_turtle::serializer::nt::NtSerializer::new_stringifier().serialize_triples(ts).map_err(|e| e.to_string())?.as_utf8().len(),
                    "nq-ser-doc" => sophia_turtle::serializer::nq::NqSerializer::new_stringifier().serialize_quads(qsrc).map_err(|e| e.to_string())?.as_utf8().len(),
                    "turtle-ser-doc" => sophia_turtle::serializer::turtle::TurtleSerializer::new_stringifier().serialize_triples(ts).map_err(|e| e.to_string())?.as_utf8().len(),
                    "turtle-pretty-ser-doc" | "turtle-pretty-ser-hub" => sophia_turtle::serializer::turtle::TurtleSerializer::new_stringifier_with_config(sophia_turtle::serializer::turtle::TurtleConfig::new().with_pretty(true))
                        .serialize_triples(ts)
                        .map_err(|e| e.to_string())?
                        .as_utf8()
                        .len(),
                    "trig-pretty-ser-doc" | "trig-pretty-ser-graphs" | "trig-pretty-ser-hub" => sophia_turtle::serializer::trig::TrigSerializer::new_stringifier_with_config(sophia_turtle::serializer::trig::TrigConfig::new().with_pretty(true))
                        .serialize_quads(qsrc)
                        .map_err(|e| e.to_string())?
                        .as_utf8()
                        .len(),
                    "xml-ser-doc" | "xml-ser-hub" => sophia_xml::serializer::RdfXmlSerializer::new_stringifier().serialize_triples(ts).map_err(|e| e.to_string())?.as_utf8().len(),
                    _ => sophia_jsonld::JsonLdSerializer::new_stringifier().serialize_quads(qsrc).map_err(|e| e.to_string())?.as_utf8().len(),
                })
            })
        }
        "nt-parse-doc" | "nq-parse-doc" | "turtle-parse-doc" | "trig-parse-doc" => {
            let doc = nt_doc(n, op.starts_with("nq") || op.starts_with("trig"));
            let doc = if op.starts_with("trig") { nt_doc(n, false).lines().enumerate().map(|(i, l)| format!("<http://ex/g{}> {{ {l} }}\n", i % 5)).collect() } else { doc };
            let op = op.to_string();
            measured(move || {
                let mut k = 0usize;
                match op.as_str() {
                    "nt-parse-doc" => sophia_turtle::parser::nt::parse_str(&doc).for_each_triple(|_| k += 1).map_err(|e| e.to_string())?,
                    "nq-parse-doc" => sophia_turtle::parser::nq::parse_str(&doc).for_each_quad(|_| k += 1).map_err(|e| e.to_string())?,
                    "turtle-parse-doc" => sophia_turtle::parser::turtle::parse_str(&doc).for_each_triple(|_| k += 1).map_err(|e| e.to_string())?,
                    _ => sophia_turtle::parser::trig::parse_str(&doc).for_each_quad(|_| k += 1).map_err(|e| e.to_string())?,
                };
                Ok(k)
            })
        }
        // long runs of parse steps that yield no statement: comment lines, blank lines, directives, XML comments
        "nt-parse-comments" | "nq-parse-blank-lines" | "turtle-parse-prefixes" | "trig-parse-prefixes" | "gtrig-parse-prefixes" | "xml-parse-comments" => {
            let mut doc = String::new();
            let op = op.to_string();
            if op.starts_with("xml") {
                doc.push_str("<?xml version=\"1.0\"?>\n<rdf:RDF xmlns:rdf=\"http://www.w3.org/1999/02/22-rdf-syntax-ns#\">\n");
            }
            for i in 0..n {
                match op.as_str() {
                    "nt-parse-comments" => doc.push_str(&format!("# <http://ex/s{i}> <http://ex/p> <http://ex/o> .\n")),
                    "nq-parse-blank-lines" => doc.push_str(if i % 2 == 0 { "\n" } else { "   \n" }),
                    "xml-parse-comments" => doc.push_str(&format!("<!-- {i} -->\n")),
                    _ => doc.push_str(&if i % 2 == 0 { format!("@prefix p{i}: <http://ex/ns{i}#> .\n") } else { format!("PREFIX q{i}: <http://ex/ns{i}/>\n") }),
                }
            }
            if op.starts_with("xml") {
                doc.push_str("<rdf:Description rdf:about=\"http://ex/s\"><p xmlns=\"http://ex/\">v</p></rdf:Description>\n</rdf:RDF>\n");
            } else {
                doc.push_str("<http://ex/s> <http://ex/p> <http://ex/o> .\n");
            }
            measured(move || {
                let mut k = 0usize;
                match op.as_str() {
                    "nt-parse-comments" => sophia_turtle::parser::nt::parse_str(&doc).for_each_triple(|_| k += 1).map_err(|e| e.to_string())?,
                    "nq-parse-blank-lines" => sophia_turtle::parser::nq::parse_str(&doc).for_each_quad(|_| k += 1).map_err(|e| e.to_string())?,
                    "turtle-parse-prefixes" => sophia_turtle::parser::turtle::parse_str(&doc).for_each_triple(|_| k += 1).map_err(|e| e.to_string())?,
                    "trig-parse-prefixes" => sophia_turtle::parser::trig::parse_str(&doc).for_each_quad(|_| k += 1).map_err(|e| e.to_string())?,
                    "gtrig-parse-prefixes" => sophia_turtle::parser::gtrig::parse_str(&doc).for_each_quad(|_| k += 1).map_err(|e| e.to_string())?,
                    _ => sophia_xml::parser::parse_str(&doc).for_each_triple(|_| k += 1).map_err(|e| e.to_string())?,
                };
                Ok(k)
            })
        }
        "xml-parse-doc" | "jsonld-parse-doc" => {
            let g: Vec<[ST; 3]> = quads(n, false).into_iter().map(|q| q.0).collect();
            let xml = op.starts_with("xml");
            let doc = if xml {
                sophia_xml::serializer::RdfXmlSerializer::new_stringifier().serialize_triples(g.iter().cloned().map(Ok::<_, std::convert::Infallible>)).unwrap().to_string()
            } else {
                sophia_jsonld::JsonLdSerializer::new_stringifier().serialize_quads(g.iter().cloned().map(|t| Ok::<_, std::convert::Infallible>((t, None::<ST>)))).unwrap().to_string()
            };
            measured(move || {
                let mut k = 0usize;
                if xml {
                    sophia_xml::parser::parse_str(&doc).for_each_triple(|_| k += 1).map_err(|e| e.to_string())?;
                } else {
                    sophia_jsonld::JsonLdParser::new().parse_str(&doc).for_each_quad(|_| k += 1).map_err(|e| e.to_string())?;
                }
                Ok(k)
            })
        }
        "jsonld-ser-list" | "turtle-pretty-ser-list" => {
            let g = list_graph(n);
            let jl = op.starts_with("jsonld");
            measured(move || {
                Ok(if jl {
                    sophia_jsonld::JsonLdSerializer::new_stringifier().serialize_quads(g.iter().cloned().map(|t| Ok::<_, std::convert::Infallible>((t, None::<ST>)))).map_err(|e| e.to_string())?.as_utf8().len()
                } else {
                    sophia_turtle::serializer::turtle::TurtleSerializer::new_stringifier_with_config(sophia_turtle::serializer::turtle::TurtleConfig::new().with_pretty(true))
                        .serialize_triples(g.iter().cloned().map(Ok::<_, std::convert::Infallible>))
                        .map_err(|e| e.to_string())?
                        .as_utf8()
                        .len()
                })
            })
        }
        "turtle-parse-list" => {
            let mut doc = String::from("<http://ex/a> <http://ex/p> (");
            for i in 0..n {
                doc.push_str(&format!(" <http://ex/item{i}>"));
            }
            doc.push_str(" ) .\n");
            measured(move || {
                let mut k = 0usize;
                sophia_turtle::parser::turtle::parse_str(&doc).for_each_triple(|_| k += 1).map_err(|e| e.to_string())?;
                Ok(k)
            })
        }
        // Source adapters bridged to iterators: long runs of rejected items
        "source-filter-iter" | "source-filter-map-iter" | "source-map-iter" | "parser-filter-map-iter" => {
            let op = op.to_string();
            let qs: Vec<[ST; 3]> = quads(n, false).into_iter().map(|q| q.0).collect();
            let doc = nt_doc(n, false);
            let lastp = ex("s", last);
            measured(move || {
                let src = qs.iter().cloned().map(Ok::<_, std::convert::Infallible>);
                let keep = |t: &[ST; 3]| Term::eq(&t[0], &lastp);
                Ok(match op.as_str() {
                    "source-filter-iter" => {
                        // (a filtered source is not an iterator: it is drained through the Source API)
                        let mut k = 0;
                        src.filter_triples(|t| keep(t)).for_each_triple(|_| k += 1).map_err(|e| e.to_string())?;
                        k
                    }
                    "source-filter-map-iter" => src.filter_map_triples(|t| if keep(&t) { Some(t) } else { None }).into_iter().filter(|r| r.is_ok()).count(),
                    "source-map-iter" => src.map_triples(|t| t[0].clone()).into_iter().filter(|r| r.is_ok()).count(),
                    _ => sophia_turtle::parser::nt::parse_str(&doc)
                        .filter_map_triples(|t| if Term::eq(&t.s(), &lastp) { Some(t.s().into_term::<ST>()) } else { None })
                        .into_iter()
                        .filter(|r| r.is_ok())
                        .count(),
                })
            })
        }
        "sparql-graph-var" | "sparql-bgp-filter" | "sparql-order-by" | "sparql-distinct-union" | "sparql-bgp-join" | "sparql-bgp-join3" => {
            use sophia_api::sparql::{SparqlDataset, SparqlResult};
            let qs = quads(n, op == "sparql-graph-var");
            let q = match op {
                "sparql-graph-var" => format!("SELECT ?g ?s {{ GRAPH ?g {{ ?s ?p <http://ex/o{last}> }} }}"),
                "sparql-bgp-filter" => format!("SELECT ?s {{ ?s ?p ?o FILTER(?o = <http://ex/o{last}>) }}"),
                "sparql-order-by" => "SELECT ?s { ?s ?p ?o } ORDER BY DESC(?o) ?s".to_string(),
                // many matches of the first pattern(s), few solutions of the join
                "sparql-bgp-join" => format!("SELECT ?s {{ ?s ?p ?o . ?s <http://ex/p{}> <http://ex/o{last}> }}", last % 7),
                "sparql-bgp-join3" => format!("ASK {{ ?s ?p ?o . ?s ?q ?o2 . ?s <http://ex/p{}> <http://ex/nothing> }}", last % 7),
                _ => "SELECT DISTINCT ?p { { ?s ?p ?o } UNION { ?o ?p ?s } }".to_string(),
            };
            measured(move || {
                let w = sophia_sparql::SparqlWrapper(&qs);
                let query = w.prepare_query(q.as_str()).map_err(|e| e.to_string())?;
                match w.query(&query).map_err(|e| e.to_string())? {
                    SparqlResult::Bindings(b) => {
                        let mut k = 0;
                        for r in b {
                            r.map_err(|e| e.to_string())?;
                            k += 1;
                        }
                        Ok(k)
                    }
                    SparqlResult::Boolean(b) => Ok(b as usize),
                    _ => Err("not bindings".into()),
                }
            })
        }
        "c14n-doc" => {
            let qs: LightDataset = quads(n, false).into_iter().map(Ok::<_, std::convert::Infallible>).collect_quads().map_err(|e| e.to_string()).unwrap();
            measured(move || {
                let mut out = Vec::<u8>::new();
                sophia_c14n::rdfc10::normalize(&qs, &mut out).map_err(|e| e.to_string())?;
                Ok(out.len())
            })
        }
        "iso-doc" => {
            let g1: Vec<[ST; 3]> = quads(n, false).into_iter().map(|q| q.0).collect();
            let mut g2 = g1.clone();
            g2.reverse();
            measured(move || Ok(sophia_isomorphism::isomorphic_graphs(&g1, &g2).map_err(|e| e.to_string())? as usize))
        }
        _ => (Err(format!("unknown op {op}")), 0),
    }
}
fn is_last_s(last: usize) -> impl Fn(SimpleTerm) -> bool {
    let t = ex("s", last);
    move |x: SimpleTerm| Term::eq(&x, &t)
}

/// operations whose running time is quadratic in the amount of data (pretty serializers, GRAPH ?g over a Vec) run at a tenth of the size
fn describe_idx(idx: usize, sizes: &[usize]) -> (String, usize) {
    let op = OPS[idx / sizes.len()];
    let n = sizes[idx % sizes.len()];
    let slow = op.contains("pretty-ser-doc") || op.contains("pretty-ser-list") || op.contains("pretty-ser-graphs") || op.contains("pretty-ser-hub") || op == "sparql-graph-var" || op.starts_with("sparql-bgp-join");
    // (capped: 2,000 elements already take them tens of seconds in a dev build)
    (op.to_string(), if slow { (n / 10).clamp(50, 2000) } else { n })
}

pub fn main(args: &[String]) {
    quiet_panics();
    let profile = if cfg!(debug_assertions) { "dev" } else { "release" };
    let sizes: Vec<usize> = arg(args, "--sizes").unwrap_or("2000,20000").split(',').map(|x| x.parse().expect("size")).collect();
    let total = OPS.len() * sizes.len();
    if args.iter().any(|a| a == "--child") {
        let from = arg_u64(args, "--from", 0) as usize;
        let to = arg_u64(args, "--to", 0) as usize;
        let mut part = Part::create(arg(args, "--part").expect("--part"));
        for idx in from..to {
            let (op, n) = describe_idx(idx, &sizes);
            part.begin(idx);
            let t0 = std::time::Instant::now();
            let (r, peak) = run_op(&op, n);
            part.result(&json!({"ev":"Stack","op":op,"profile":profile,"n":n,"out": if r.is_ok() { "ok" } else { "err" },"msg": r.as_ref().err().cloned().unwrap_or_default(),
                "count": r.unwrap_or(0),"peak":peak,"ms":t0.elapsed().as_millis() as u64}));
        }
        return;
    }
    let mut tr = Trace::create(arg(args, "--out").expect("--out"));
    let child_args: Vec<String> = vec!["stack".into(), "--sizes".into(), sizes.iter().map(|x| x.to_string()).collect::<Vec<_>>().join(",")];
    let sz = sizes.clone();
    run_isolated(&child_args, total, 1, 24_000_000, 120, &mut tr, &move |idx| {
        let (op, n) = describe_idx(idx, &sz);
        json!({"op":op,"profile":profile,"n":n})
    });
    println!("events {}", tr.finish());
}
