//! C01 / C11 drivers: operation histories on every shipped graph/dataset implementation,
//! one ndjson event per API call (args, result, projected state where needed).
use crate::matchers::*;
use crate::util::*;
use serde_json::{Value, json};
use sophia_api::dataset::{CollectibleDataset, MutableDataset};
use sophia_api::graph::{CollectibleGraph, MutableGraph};
use sophia_api::quad::{Gspo, Quad, Spog};
use sophia_api::source::{IntoSource, StreamError};
use sophia_api::term::matcher::Any;
use sophia_api::term::GraphName;
use sophia_api::triple::Triple;
use sophia_inmem::index::{Index, SimpleTermIndex};
use std::collections::{BTreeSet, HashSet};

pub type Q = Spog<ST>;

pub fn q_json(q: &Q) -> Value {
    quad_json(&q.0[0], &q.0[1], &q.0[2], q.1.as_ref())
}
pub fn json_q(v: &Value) -> Q {
    ([json_term(&v[0]), json_term(&v[1]), json_term(&v[2])], json_gn(&v[3]))
}

/// outcome of a mutation
pub enum Res<T> {
    Ok(T),
    Err(String),
}
fn res_json<T: Into<Value>>(r: Res<T>) -> Value {
    match r {
        Res::Ok(x) => json!({ "ok": x.into() }),
        Res::Err(e) => json!({ "err": e }),
    }
}

/// Uniform facade over datasets and graphs (graphs only ever see default-graph quads).
pub trait Store: Sized {
    fn new_empty() -> Self;
    fn insert(&mut self, q: &Q) -> Res<bool>;
    fn remove(&mut self, q: &Q) -> Res<bool>;
    fn contains(&self, q: &Q) -> bool;
    fn quads(&self) -> Vec<Value>;
    fn count(&self) -> usize;
    fn matching(&self, ms: &[TM; 3], g: &GM) -> Vec<Value>;
    fn remove_matching(&mut self, ms: &[TM; 3], g: &GM) -> Res<u64>;
    fn retain_matching(&mut self, ms: &[TM; 3], g: &GM) -> Res<bool>;
    fn insert_all(&mut self, qs: &[Q]) -> Res<u64>;
    fn remove_all(&mut self, qs: &[Q]) -> Res<u64>;
    fn from_source(qs: &[Q]) -> Result<Self, String>;
    fn terms(&self, which: &str) -> Vec<Value>;
}

pub struct DS<D>(pub D);
pub struct GS<G>(pub G);

fn serr<A: std::error::Error, B: std::error::Error>(e: StreamError<A, B>) -> String {
    match e {
        StreamError::SourceError(_) => "SourceError".into(),
        StreamError::SinkError(e) => format!("SinkError:{e}"),
    }
}

impl<D> Store for DS<D>
where
    D: MutableDataset + CollectibleDataset + Default + 'static,
    D::MutationError: From<D::Error>,
    for<'x> sophia_api::dataset::DTerm<'x, D>: Clone,
{
    fn new_empty() -> Self {
        DS(D::default())
    }
    fn insert(&mut self, q: &Q) -> Res<bool> {
        match self.0.insert(&q.0[0], &q.0[1], &q.0[2], q.1.as_ref()) {
            Ok(b) => Res::Ok(b),
            Err(e) => Res::Err(e.to_string()),
        }
    }
    fn remove(&mut self, q: &Q) -> Res<bool> {
        match self.0.remove(&q.0[0], &q.0[1], &q.0[2], q.1.as_ref()) {
            Ok(b) => Res::Ok(b),
            Err(e) => Res::Err(e.to_string()),
        }
    }
    fn contains(&self, q: &Q) -> bool {
        self.0.contains(&q.0[0], &q.0[1], &q.0[2], q.1.as_ref()).unwrap()
    }
    fn quads(&self) -> Vec<Value> {
        self.0.quads().map(|q| q.unwrap()).map(|q| quad_json(q.s(), q.p(), q.o(), q.g())).collect()
    }
    fn count(&self) -> usize {
        self.0.quads().count()
    }
    fn matching(&self, ms: &[TM; 3], g: &GM) -> Vec<Value> {
        self.0
            .quads_matching(ms[0].clone(), ms[1].clone(), ms[2].clone(), g.clone())
            .map(|q| q.unwrap())
            .map(|q| quad_json(q.s(), q.p(), q.o(), q.g()))
            .collect()
    }
    fn remove_matching(&mut self, ms: &[TM; 3], g: &GM) -> Res<u64> {
        match self.0.remove_matching(ms[0].clone(), ms[1].clone(), ms[2].clone(), g.clone()) {
            Ok(n) => Res::Ok(n as u64),
            Err(e) => Res::Err(e.to_string()),
        }
    }
    fn retain_matching(&mut self, ms: &[TM; 3], g: &GM) -> Res<bool> {
        match self.0.retain_matching(ms[0].clone(), ms[1].clone(), ms[2].clone(), g.clone()) {
            Ok(()) => Res::Ok(true),
            Err(e) => Res::Err(e.to_string()),
        }
    }
    fn insert_all(&mut self, qs: &[Q]) -> Res<u64> {
        match self.0.insert_all(qs.iter().cloned().map(Ok::<_, std::convert::Infallible>)) {
            Ok(n) => Res::Ok(n as u64),
            Err(e) => Res::Err(serr(e)),
        }
    }
    fn remove_all(&mut self, qs: &[Q]) -> Res<u64> {
        match self.0.remove_all(qs.iter().cloned().map(Ok::<_, std::convert::Infallible>)) {
            Ok(n) => Res::Ok(n as u64),
            Err(e) => Res::Err(serr(e)),
        }
    }
    fn from_source(qs: &[Q]) -> Result<Self, String> {
        D::from_quad_source(qs.iter().cloned().into_source()).map(DS).map_err(serr)
    }
    fn terms(&self, which: &str) -> Vec<Value> {
        let d = &self.0;
        match which {
            "subjects" => d.subjects().map(|t| term_json(t.unwrap())).collect(),
            "predicates" => d.predicates().map(|t| term_json(t.unwrap())).collect(),
            "objects" => d.objects().map(|t| term_json(t.unwrap())).collect(),
            "graph_names" => d.graph_names().map(|t| term_json(t.unwrap())).collect(),
            "iris" => d.iris().map(|t| term_json(t.unwrap())).collect(),
            "blank_nodes" => d.blank_nodes().map(|t| term_json(t.unwrap())).collect(),
            "literals" => d.literals().map(|t| term_json(t.unwrap())).collect(),
            "quoted_triples" => d.quoted_triples().map(|t| term_json(t.unwrap())).collect(),
            "variables" => d.variables().map(|t| term_json(t.unwrap())).collect(),
            w => panic!("terms {w}"),
        }
    }
}

fn tj<T: Triple>(t: T) -> Value {
    quad_json(t.s(), t.p(), t.o(), None::<ST>)
}

impl<G> Store for GS<G>
where
    G: MutableGraph + CollectibleGraph + Default + 'static,
    G::MutationError: From<G::Error>,
    for<'x> sophia_api::graph::GTerm<'x, G>: Clone,
{
    fn new_empty() -> Self {
        GS(G::default())
    }
    fn insert(&mut self, q: &Q) -> Res<bool> {
        match self.0.insert(&q.0[0], &q.0[1], &q.0[2]) {
            Ok(b) => Res::Ok(b),
            Err(e) => Res::Err(e.to_string()),
        }
    }
    fn remove(&mut self, q: &Q) -> Res<bool> {
        match self.0.remove(&q.0[0], &q.0[1], &q.0[2]) {
            Ok(b) => Res::Ok(b),
            Err(e) => Res::Err(e.to_string()),
        }
    }
    fn contains(&self, q: &Q) -> bool {
        self.0.contains(&q.0[0], &q.0[1], &q.0[2]).unwrap()
    }
    fn quads(&self) -> Vec<Value> {
        self.0.triples().map(|t| tj(t.unwrap())).collect()
    }
    fn count(&self) -> usize {
        self.0.triples().count()
    }
    fn matching(&self, ms: &[TM; 3], _g: &GM) -> Vec<Value> {
        self.0.triples_matching(ms[0].clone(), ms[1].clone(), ms[2].clone()).map(|t| tj(t.unwrap())).collect()
    }
    fn remove_matching(&mut self, ms: &[TM; 3], _g: &GM) -> Res<u64> {
        match self.0.remove_matching(ms[0].clone(), ms[1].clone(), ms[2].clone()) {
            Ok(n) => Res::Ok(n as u64),
            Err(e) => Res::Err(e.to_string()),
        }
    }
    fn retain_matching(&mut self, ms: &[TM; 3], _g: &GM) -> Res<bool> {
        match self.0.retain_matching(ms[0].clone(), ms[1].clone(), ms[2].clone()) {
            Ok(()) => Res::Ok(true),
            Err(e) => Res::Err(e.to_string()),
        }
    }
    fn insert_all(&mut self, qs: &[Q]) -> Res<u64> {
        match self.0.insert_all(qs.iter().map(|q| q.0.clone()).map(Ok::<_, std::convert::Infallible>)) {
            Ok(n) => Res::Ok(n as u64),
            Err(e) => Res::Err(serr(e)),
        }
    }
    fn remove_all(&mut self, qs: &[Q]) -> Res<u64> {
        match self.0.remove_all(qs.iter().map(|q| q.0.clone()).map(Ok::<_, std::convert::Infallible>)) {
            Ok(n) => Res::Ok(n as u64),
            Err(e) => Res::Err(serr(e)),
        }
    }
    fn from_source(qs: &[Q]) -> Result<Self, String> {
        G::from_triple_source(qs.iter().map(|q| q.0.clone()).into_source()).map(GS).map_err(serr)
    }
    fn terms(&self, which: &str) -> Vec<Value> {
        let d = &self.0;
        match which {
            "subjects" => d.subjects().map(|t| term_json(t.unwrap())).collect(),
            "predicates" => d.predicates().map(|t| term_json(t.unwrap())).collect(),
            "objects" => d.objects().map(|t| term_json(t.unwrap())).collect(),
            "graph_names" => vec![],
            "iris" => d.iris().map(|t| term_json(t.unwrap())).collect(),
            "blank_nodes" => d.blank_nodes().map(|t| term_json(t.unwrap())).collect(),
            "literals" => d.literals().map(|t| term_json(t.unwrap())).collect(),
            "quoted_triples" => d.quoted_triples().map(|t| term_json(t.unwrap())).collect(),
            "variables" => d.variables().map(|t| term_json(t.unwrap())).collect(),
            w => panic!("terms {w}"),
        }
    }
}

/// A term index type with a tiny capacity, so that `TermIndexFullError` happens inside short histories.
macro_rules! tiny_index {
    ($name:ident, $max:expr) => {
        #[derive(Clone, Copy, Debug, PartialEq, Eq, PartialOrd, Ord, Hash, Default)]
        pub struct $name(pub u8);
        impl Index for $name {
            const ZERO: Self = $name(0);
            const MAX: Self = $name($max);
            fn from_usize(other: usize) -> Self {
                $name(other.try_into().expect("usize too big for tiny index"))
            }
            fn into_usize(self) -> usize {
                self.0 as usize
            }
        }
    };
}
tiny_index!(Tiny2, 2);
tiny_index!(Tiny3, 3);
tiny_index!(Tiny5, 5);

pub const WHICH: [&str; 9] =
    ["subjects", "predicates", "objects", "graph_names", "iris", "blank_nodes", "literals", "quoted_triples", "variables"];

/// Alphabet for random histories: all kinds, case-variant tags, nested quoted triples, non-BMP text.
pub fn alphabet() -> Vec<ST> {
    let a = iri("http://ex/a");
    let b = iri("http://ex/b");
    let p = iri("http://ex/p");
    let b1 = bn("b1");
    let b2 = bn("b2");
    let l_en = lit_lang("l", "en");
    let l_en2 = lit_lang("l", "EN");
    let l_str = lit_dt("l", &format!("{XSD}string"));
    let l_int = lit_dt("1", &format!("{XSD}integer"));
    let l_u = lit_dt("\u{1F600}é", &format!("{XSD}string"));
    let v = var("x");
    let t1 = quoted(a.clone(), p.clone(), b1.clone());
    let t2 = quoted(a.clone(), p.clone(), l_en.clone());
    let t3 = quoted(t1.clone(), p.clone(), l_en2.clone());
    // (the same tag / datatype with another lexical form: ordered containers tell them apart by the text only)
    let m_en = lit_lang("m", "en");
    let l_int2 = lit_dt("2", &format!("{XSD}integer"));
    vec![a, b, p, b1, b2, l_en, l_en2, l_str, l_int, l_u, v, t1, t2, t3, m_en, l_int2]
}

pub struct Cfg {
    pub name: &'static str,
    pub isset: bool,
    pub graph: bool,
    /// term capacity (0 = unbounded for the purposes of the run)
    pub cap: u64,
}

fn rand_quad(rng: &mut Rng, terms: &[ST], gnames: &[GraphName<ST>], graph: bool) -> Q {
    let g = if graph { None } else { rng.pick(gnames).clone() };
    ([rng.pick(terms).clone(), rng.pick(terms).clone(), rng.pick(terms).clone()], g)
}
fn rand_ms(rng: &mut Rng, terms: &[ST], gnames: &[GraphName<ST>], graph: bool) -> ([TM; 3], GM) {
    let ms = [TM::random(rng, terms, 0), TM::random(rng, terms, 0), TM::random(rng, terms, 0)];
    let g = if graph { GM::Any } else { GM::random(rng, terms, gnames, 0) };
    (ms, g)
}
/// pattern aimed at a quad that IS in the store: a random subset of positions bound to its terms through a
/// constant-exposing matcher, the others through random (often selective, non-constant) matchers
pub fn aimed_ms(rng: &mut Rng, rows: &[Value], terms: &[ST], gnames: &[GraphName<ST>], graph: bool) -> Option<([TM; 3], GM)> {
    if rows.is_empty() {
        return None;
    }
    let q = json_q(rng.pick(rows));
    let shape = rng.below(16);
    let bound = |rng: &mut Rng, t: &ST| match rng.below(4) {
        0 => TM::Opt(Some(t.clone())),
        1 => TM::Arr1([t.clone()]),
        2 => TM::Slice(vec![t.clone()]),
        _ => TM::Ref(Box::new(TM::Arr1([t.clone()]))),
    };
    let free = |rng: &mut Rng, t: &ST| match rng.below(5) {
        0 => TM::Any,
        1 => TM::Arr2([t.clone(), rng.pick(terms).clone()]),
        2 => TM::Not(Box::new(TM::Opt(Some(rng.pick(terms).clone())))),
        3 => TM::Closure(vec![t.clone(), rng.pick(terms).clone()], rng.chance(1, 3)),
        _ => TM::random(rng, terms, 1),
    };
    let mut pos = |rng: &mut Rng, i: usize| if shape & (1 << i) != 0 { bound(rng, &q.0[i]) } else { free(rng, &q.0[i]) };
    let ms = [pos(rng, 0), pos(rng, 1), pos(rng, 2)];
    let g = if graph {
        GM::Any
    } else if shape & 8 != 0 {
        match rng.below(3) {
            0 => GM::Opt(Some(q.1.clone())),
            1 => GM::Arr1([q.1.clone()]),
            _ => match &q.1 { Some(t) => GM::Gn(TM::Opt(Some(t.clone()))), None => GM::Slice(vec![None]) },
        }
    } else {
        match rng.below(5) {
            0 => GM::Any,
            1 => GM::Arr2([q.1.clone(), rng.pick(gnames).clone()]),
            2 => GM::Not(Box::new(GM::Opt(Some(rng.pick(gnames).clone())))),
            3 => GM::Closure(vec![rng.pick(gnames).clone()], rng.chance(1, 2)),
            _ => GM::random(rng, terms, gnames, 1),
        }
    };
    Some((ms, g))
}
fn ms_json(ms: &[TM; 3], g: &GM) -> Value {
    json!([ms[0].json(), ms[1].json(), ms[2].json(), g.json()])
}

/// One random history on one implementation.
pub fn random_history<S: Store>(cfg: &Cfg, rng: &mut Rng, tr: &mut Trace, len: usize, nterms: usize) {
    let all = alphabet();
    // sub-alphabet for this history so that collisions are frequent
    let mut terms = all.clone();
    rng.shuffle(&mut terms);
    terms.truncate(nterms.max(2));
    let mut gnames: Vec<GraphName<ST>> = vec![None, None];
    for _ in 0..3 {
        gnames.push(Some(rng.pick(&terms).clone()));
    }
    let mut s = S::new_empty();
    tr.emit(json!({"ev":"Reset","impl":cfg.name,"isset":cfg.isset,"graph":cfg.graph,"cap":cfg.cap,"rows":[]}));
    for _ in 0..len {
        let k = rng.below(100);
        let r = guarded(|| {
        if k < 30 {
            let q = rand_quad(rng, &terms, &gnames, cfg.graph);
            let r = s.insert(&q);
            let mut e = json!({"ev":"Insert","q":q_json(&q),"res":res_json(r)});
            if !cfg.isset || e["res"].is_object() {
                e["rows"] = sorted(s.quads());
            }
            tr.emit(e);
        } else if k < 45 {
            let q = rand_quad(rng, &terms, &gnames, cfg.graph);
            let r = s.remove(&q);
            let mut e = json!({"ev":"Remove","q":q_json(&q),"res":res_json(r)});
            if !cfg.isset {
                e["rows"] = sorted(s.quads());
            }
            tr.emit(e);
        } else if k < 52 {
            let q = rand_quad(rng, &terms, &gnames, cfg.graph);
            let r = s.contains(&q);
            tr.emit(json!({"ev":"Contains","q":q_json(&q),"res":r}));
        } else if k < 58 {
            tr.emit(json!({"ev":"Quads","rows":sorted(s.quads())}));
        } else if k < 80 {
            let (ms, g) = if rng.chance(1, 2) {
                aimed_ms(rng, &s.quads(), &terms, &gnames, cfg.graph).unwrap_or_else(|| rand_ms(rng, &terms, &gnames, cfg.graph))
            } else {
                rand_ms(rng, &terms, &gnames, cfg.graph)
            };
            let rows = s.matching(&ms, &g);
            tr.emit(json!({"ev":"Match","ms":ms_json(&ms,&g),"rows":sorted(rows)}));
        } else if k < 84 {
            let (ms, g) = rand_ms(rng, &terms, &gnames, cfg.graph);
            let r = s.remove_matching(&ms, &g);
            tr.emit(json!({"ev":"RemoveMatching","ms":ms_json(&ms,&g),"res":res_json(r),"rows":sorted(s.quads())}));
        } else if k < 87 {
            let (ms, g) = rand_ms(rng, &terms, &gnames, cfg.graph);
            let r = s.retain_matching(&ms, &g);
            tr.emit(json!({"ev":"RetainMatching","ms":ms_json(&ms,&g),"res":res_json(r),"rows":sorted(s.quads())}));
        } else if k < 91 {
            let n = rng.below(5);
            let qs: Vec<Q> = (0..n).map(|_| rand_quad(rng, &terms, &gnames, cfg.graph)).collect();
            let r = s.insert_all(&qs);
            tr.emit(json!({"ev":"InsertAll","qs":qs.iter().map(q_json).collect::<Vec<_>>(),"res":res_json(r),"rows":sorted(s.quads())}));
        } else if k < 94 {
            let n = rng.below(5);
            let qs: Vec<Q> = (0..n).map(|_| rand_quad(rng, &terms, &gnames, cfg.graph)).collect();
            let r = s.remove_all(&qs);
            tr.emit(json!({"ev":"RemoveAll","qs":qs.iter().map(q_json).collect::<Vec<_>>(),"res":res_json(r),"rows":sorted(s.quads())}));
        } else if k < 96 {
            let n = rng.below(6);
            let qs: Vec<Q> = (0..n).map(|_| rand_quad(rng, &terms, &gnames, cfg.graph)).collect();
            match S::from_source(&qs) {
                Ok(s2) => {
                    s = s2;
                    tr.emit(json!({"ev":"FromSource","qs":qs.iter().map(q_json).collect::<Vec<_>>(),"res":{"ok":true},"rows":sorted(s.quads())}));
                }
                Err(e) => {
                    tr.emit(json!({"ev":"FromSource","qs":qs.iter().map(q_json).collect::<Vec<_>>(),"res":{"err":e},"rows":sorted(s.quads())}));
                }
            }
        } else {
            let w = *rng.pick(&WHICH);
            tr.emit(json!({"ev":"Terms","which":w,"rows":sorted(s.terms(w))}));
        }
        });
        if let Err(msg) = r {
            tr.emit(json!({"ev":"Panic","op":k,"msg":msg}));
            return;
        }
    }
    if let Err(msg) = guarded(|| tr.emit(json!({"ev":"Quads","rows":sorted(s.quads())}))) {
        tr.emit(json!({"ev":"Panic","op":"Quads","msg":msg}));
    }
}

/// Replay one specification-generated history (sequence of {op,q} / {op,ms}) on one implementation.
pub fn replay_history<S: Store>(cfg: &Cfg, hist: &Value, tr: &mut Trace) {
    let mut s = S::new_empty();
    tr.emit(json!({"ev":"Reset","impl":cfg.name,"isset":cfg.isset,"graph":cfg.graph,"cap":cfg.cap,"rows":[]}));
    if let Err(msg) = guarded(|| replay_body(cfg, hist, tr, &mut s)) {
        tr.emit(json!({"ev":"Panic","op":"replay","msg":msg}));
    }
}
fn replay_body<S: Store>(cfg: &Cfg, hist: &Value, tr: &mut Trace, s: &mut S) {
    for step in hist.as_array().unwrap() {
        match step["op"].as_str().unwrap() {
            "Insert" => {
                let q = json_q(&step["q"]);
                if cfg.graph && q.1.is_some() {
                    continue;
                }
                let r = s.insert(&q);
                let mut e = json!({"ev":"Insert","q":q_json(&q),"res":res_json(r)});
                if !cfg.isset || e["res"].is_object() {
                    e["rows"] = sorted(s.quads());
                }
                tr.emit(e);
            }
            "Remove" => {
                let q = json_q(&step["q"]);
                if cfg.graph && q.1.is_some() {
                    continue;
                }
                let r = s.remove(&q);
                let mut e = json!({"ev":"Remove","q":q_json(&q),"res":res_json(r)});
                if !cfg.isset {
                    e["rows"] = sorted(s.quads());
                }
                tr.emit(e);
            }
            "Match" => {
                let m = &step["ms"];
                let ms = [tm_from_json(&m[0]), tm_from_json(&m[1]), tm_from_json(&m[2])];
                let g = if cfg.graph { GM::Any } else { gm_from_json(&m[3]) };
                let rows = s.matching(&ms, &g);
                tr.emit(json!({"ev":"Match","ms":ms_json(&ms,&g),"rows":sorted(rows)}));
            }
            op => panic!("replay op {op}"),
        }
    }
    // observe the whole state, then a rotating battery of pattern queries whose constants are the history's terms
    tr.emit(json!({"ev":"Quads","rows":sorted(s.quads())}));
    let mut terms: Vec<ST> = vec![];
    let mut gnames: Vec<GraphName<ST>> = vec![None];
    for step in hist.as_array().unwrap() {
        if let Some(q) = step.get("q") {
            let q = json_q(q);
            for t in q.0.iter().chain(q.1.iter()) {
                if !terms.iter().any(|x| x == t) {
                    terms.push(t.clone());
                }
            }
            if !gnames.iter().any(|g| *g == q.1) {
                gnames.push(q.1.clone());
            }
        }
    }
    if terms.is_empty() {
        return;
    }
    let mut rng = Rng::new(tr.n as u64);
    let shape0 = tr.n;
    for k in 0..4 {
        // shape = which of s,p,o,g are bound to a constant; the other positions get Any or a multi-valued matcher
        let shape = (shape0 + k * 5) % 16;
        let pos = |rng: &mut Rng, bound: bool| -> TM {
            if bound {
                match rng.below(3) { 0 => TM::Opt(Some(rng.pick(&terms).clone())), 1 => TM::Arr1([rng.pick(&terms).clone()]), _ => TM::Ref(Box::new(TM::Slice(vec![rng.pick(&terms).clone()]))) }
            } else {
                match rng.below(4) { 0 | 1 => TM::Any, 2 => TM::Arr2([rng.pick(&terms).clone(), rng.pick(&terms).clone()]), _ => TM::Not(Box::new(TM::Opt(Some(rng.pick(&terms).clone())))) }
            }
        };
        let ms = [pos(&mut rng, shape & 1 != 0), pos(&mut rng, shape & 2 != 0), pos(&mut rng, shape & 4 != 0)];
        let g = if cfg.graph { GM::Any } else if shape & 8 != 0 {
            match rng.below(3) { 0 => GM::Opt(Some(rng.pick(&gnames).clone())), 1 => GM::Arr1([rng.pick(&gnames).clone()]), _ => GM::Gn(TM::Opt(Some(rng.pick(&terms).clone()))) }
        } else {
            match rng.below(3) { 0 | 1 => GM::Any, _ => GM::Not(Box::new(GM::Opt(Some(rng.pick(&gnames).clone())))) }
        };
        let rows = s.matching(&ms, &g);
        tr.emit(json!({"ev":"Match","ms":ms_json(&ms,&g),"rows":sorted(rows)}));
    }
}

macro_rules! for_each_impl {
    ($filter:expr, $f:ident, $($args:expr),*) => {{
        let want = |n: &str| -> bool { let f: &str = $filter; f == "all" || f.split(',').any(|x| x == n) };
        use sophia_inmem::dataset::{FastDataset, LightDataset, GenericFastDataset, GenericLightDataset};
        use sophia_inmem::graph::{FastGraph, LightGraph, GenericFastGraph, GenericLightGraph};
        if want("FastDataset") { $f::<DS<FastDataset>>(&Cfg{name:"FastDataset",isset:true,graph:false,cap:0}, $($args),*); }
        if want("LightDataset") { $f::<DS<LightDataset>>(&Cfg{name:"LightDataset",isset:true,graph:false,cap:0}, $($args),*); }
        if want("small::FastDataset") { $f::<DS<sophia_inmem::dataset::small::FastDataset>>(&Cfg{name:"small::FastDataset",isset:true,graph:false,cap:65535}, $($args),*); }
        if want("small::LightDataset") { $f::<DS<sophia_inmem::dataset::small::LightDataset>>(&Cfg{name:"small::LightDataset",isset:true,graph:false,cap:65535}, $($args),*); }
        if want("FastDataset<Tiny3>") { $f::<DS<GenericFastDataset<SimpleTermIndex<Tiny3>>>>(&Cfg{name:"FastDataset<Tiny3>",isset:true,graph:false,cap:3}, $($args),*); }
        if want("LightDataset<Tiny3>") { $f::<DS<GenericLightDataset<SimpleTermIndex<Tiny3>>>>(&Cfg{name:"LightDataset<Tiny3>",isset:true,graph:false,cap:3}, $($args),*); }
        if want("FastDataset<Tiny5>") { $f::<DS<GenericFastDataset<SimpleTermIndex<Tiny5>>>>(&Cfg{name:"FastDataset<Tiny5>",isset:true,graph:false,cap:5}, $($args),*); }
        if want("LightDataset<Tiny5>") { $f::<DS<GenericLightDataset<SimpleTermIndex<Tiny5>>>>(&Cfg{name:"LightDataset<Tiny5>",isset:true,graph:false,cap:5}, $($args),*); }
        if want("FastDataset<Tiny2>") { $f::<DS<GenericFastDataset<SimpleTermIndex<Tiny2>>>>(&Cfg{name:"FastDataset<Tiny2>",isset:true,graph:false,cap:2}, $($args),*); }
        if want("HashSet<Spog>") { $f::<DS<HashSet<Spog<ST>>>>(&Cfg{name:"HashSet<Spog>",isset:true,graph:false,cap:0}, $($args),*); }
        if want("HashSet<Gspo>") { $f::<DS<HashSet<Gspo<ST>>>>(&Cfg{name:"HashSet<Gspo>",isset:true,graph:false,cap:0}, $($args),*); }
        if want("BTreeSet<Spog>") { $f::<DS<BTreeSet<Spog<ST>>>>(&Cfg{name:"BTreeSet<Spog>",isset:true,graph:false,cap:0}, $($args),*); }
        if want("BTreeSet<Gspo>") { $f::<DS<BTreeSet<Gspo<ST>>>>(&Cfg{name:"BTreeSet<Gspo>",isset:true,graph:false,cap:0}, $($args),*); }
        if want("Vec<Spog>") { $f::<DS<Vec<Spog<ST>>>>(&Cfg{name:"Vec<Spog>",isset:false,graph:false,cap:0}, $($args),*); }
        if want("Vec<Gspo>") { $f::<DS<Vec<Gspo<ST>>>>(&Cfg{name:"Vec<Gspo>",isset:false,graph:false,cap:0}, $($args),*); }
        if want("FastGraph") { $f::<GS<FastGraph>>(&Cfg{name:"FastGraph",isset:true,graph:true,cap:0}, $($args),*); }
        if want("LightGraph") { $f::<GS<LightGraph>>(&Cfg{name:"LightGraph",isset:true,graph:true,cap:0}, $($args),*); }
        if want("small::FastGraph") { $f::<GS<sophia_inmem::graph::small::FastGraph>>(&Cfg{name:"small::FastGraph",isset:true,graph:true,cap:65535}, $($args),*); }
        if want("small::LightGraph") { $f::<GS<sophia_inmem::graph::small::LightGraph>>(&Cfg{name:"small::LightGraph",isset:true,graph:true,cap:65535}, $($args),*); }
        if want("FastGraph<Tiny3>") { $f::<GS<GenericFastGraph<SimpleTermIndex<Tiny3>>>>(&Cfg{name:"FastGraph<Tiny3>",isset:true,graph:true,cap:3}, $($args),*); }
        if want("LightGraph<Tiny3>") { $f::<GS<GenericLightGraph<SimpleTermIndex<Tiny3>>>>(&Cfg{name:"LightGraph<Tiny3>",isset:true,graph:true,cap:3}, $($args),*); }
        if want("HashSet<[T;3]>") { $f::<GS<HashSet<[ST;3]>>>(&Cfg{name:"HashSet<[T;3]>",isset:true,graph:true,cap:0}, $($args),*); }
        if want("BTreeSet<[T;3]>") { $f::<GS<BTreeSet<[ST;3]>>>(&Cfg{name:"BTreeSet<[T;3]>",isset:true,graph:true,cap:0}, $($args),*); }
        if want("Vec<[T;3]>") { $f::<GS<Vec<[ST;3]>>>(&Cfg{name:"Vec<[T;3]>",isset:false,graph:true,cap:0}, $($args),*); }
    }};
}

fn rand_many<S: Store>(cfg: &Cfg, rng: &mut Rng, tr: &mut Trace, nhist: usize, len: usize) {
    for _ in 0..nhist {
        let nterms = if cfg.cap > 0 && cfg.cap < 100 { 2 + rng.below(cfg.cap as usize + 2) } else { 3 + rng.below(10) };
        random_history::<S>(cfg, rng, tr, len, nterms);
    }
}
fn replay_many<S: Store>(cfg: &Cfg, hists: &[Value], tr: &mut Trace) {
    for h in hists {
        replay_history::<S>(cfg, h, tr);
    }
}

/// 16-bit exhaustion: fill a u16 index, then inserts whose 1st/2nd/3rd/4th component is a new term.
fn exhaust16<S: Store>(cfg: &Cfg, tr: &mut Trace) {
    tr.emit(json!({"ev":"Reset","impl":cfg.name,"isset":cfg.isset,"graph":cfg.graph,"cap":cfg.cap,"rows":[]}));
    if let Err(msg) = guarded(|| exhaust16_body::<S>(cfg, tr)) {
        tr.emit(json!({"ev":"Panic","op":"exhaust","msg":msg}));
    }
}
fn exhaust16_body<S: Store>(cfg: &Cfg, tr: &mut Trace) {
    let mut s = S::new_empty();
    let p = iri("http://ex/p");
    let o = iri("http://ex/o");
    // 65533 subjects + p + o = 65535 terms: the index is exactly full
    let qs: Vec<Q> = (0..65533).map(|i| ([iri(&format!("http://ex/s{i}")), p.clone(), o.clone()], None)).collect();
    let r = s.insert_all(&qs);
    let n = s.count();
    tr.emit(json!({"ev":"Bulk","n":qs.len(),"res":res_json(r),"count":n}));
    let fresh = |k: usize| iri(&format!("http://ex/new{k}"));
    let known = iri("http://ex/s7");
    let g = if cfg.graph { None } else { Some(fresh(3)) };
    // (quad, mentions a never-seen term)
    let probes: Vec<(Q, bool)> = vec![
        (([fresh(0), p.clone(), o.clone()], None), true),
        (([known.clone(), fresh(1), o.clone()], None), true),
        (([known.clone(), p.clone(), fresh(2)], None), true),
        (([known.clone(), p.clone(), o.clone()], g), !cfg.graph),
        (([known.clone(), p.clone(), known.clone()], None), false),
        (([known.clone(), p.clone(), known.clone()], None), false),
    ];
    let mut distinct = 65535u64;
    for (q, is_fresh) in &probes {
        let was = s.contains(q);
        let r = s.insert(q);
        let c = s.contains(q);
        if *is_fresh {
            distinct += 1;
        }
        tr.emit(json!({"ev":"Probe","q":q_json(q),"res":res_json(r),"was":was,"contains":c,"count":s.count(),"fresh":is_fresh,"distinct":distinct}));
    }
    // queries must still be exact after the failed inserts
    let ms = [TM::Opt(Some(known.clone())), TM::Any, TM::Any];
    let rows = s.matching(&ms, &GM::Any);
    let base: Q = ([known.clone(), p.clone(), o.clone()], None);
    tr.emit(json!({"ev":"ProbeMatch","ms":ms_json(&ms,&GM::Any),"base":[q_json(&base)],"rows":sorted(rows)}));
}

pub fn main(args: &[String]) {
    quiet_panics();
    let seed = arg_u64(args, "--seed", 1);
    let out = arg(args, "--out").expect("--out");
    let nhist = arg_u64(args, "--hist", 20) as usize;
    let len = arg_u64(args, "--len", 60) as usize;
    let mut tr = Trace::create(out);
    let impls = arg(args, "--impls").unwrap_or("all");
    match arg(args, "--mode").unwrap_or("random") {
        "random" => {
            let mut rng = Rng::new(seed);
            for_each_impl!(impls, rand_many, &mut rng, &mut tr, nhist, len);
        }
        "replay" => {
            let gen_path = arg(args, "--gen").expect("--gen");
            let txt = std::fs::read_to_string(gen_path).expect("gen file");
            let hists: Vec<Value> = txt.lines().filter(|l| !l.trim().is_empty()).map(|l| serde_json::from_str(l).unwrap()).collect();
            for_each_impl!(impls, replay_many, &hists, &mut tr);
        }
        "exhaust" => {
            exhaust16::<DS<sophia_inmem::dataset::small::FastDataset>>(&Cfg { name: "small::FastDataset", isset: true, graph: false, cap: 65535 }, &mut tr);
            exhaust16::<DS<sophia_inmem::dataset::small::LightDataset>>(&Cfg { name: "small::LightDataset", isset: true, graph: false, cap: 65535 }, &mut tr);
            exhaust16::<GS<sophia_inmem::graph::small::FastGraph>>(&Cfg { name: "small::FastGraph", isset: true, graph: true, cap: 65535 }, &mut tr);
            exhaust16::<GS<sophia_inmem::graph::small::LightGraph>>(&Cfg { name: "small::LightGraph", isset: true, graph: true, cap: 65535 }, &mut tr);
        }
        m => panic!("store mode {m}"),
    }
    let n = tr.finish();
    println!("events {n}");
    let _ = Any;
}
