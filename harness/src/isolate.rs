//! Begin/End child-process scheme: inputs that may kill the process (stack overflow, out of memory, endless loop)
//! are executed in child processes under an address-space and a wall-clock limit.  The child writes `Begin idx` before
//! and the result event after each input, flushing every line; a missing result is the evidence of the death.
use crate::util::*;
use serde_json::{Value, json};
use std::io::{BufRead, Write};
use std::process::{Command, Stdio};
use std::time::{Duration, Instant};

/// Parent side. `child_args` are the arguments that make `sv` run the same family in child mode;
/// the child must honour `--child --from a --to b --part <file>`.
/// `describe(idx)` gives the input of index idx (for the Died event).
pub fn run_isolated(child_args: &[String], total: usize, batch: usize, mem_kib: u64, secs_per_input: u64, tr: &mut Trace, describe: &dyn Fn(usize) -> Value) {
    let exe = std::env::current_exe().expect("current_exe");
    let mut start = 0usize;
    let part = format!("{}/sv_part_{}.ndjson", std::env::temp_dir().display(), std::process::id());
    while start < total {
        let end = (start + batch).min(total);
        let _ = std::fs::remove_file(&part);
        let cmdline = format!(
            "ulimit -v {mem_kib}; exec {} {} --child --from {start} --to {end} --part {part}",
            shell_quote(&exe.display().to_string()),
            child_args.iter().map(|a| shell_quote(a)).collect::<Vec<_>>().join(" ")
        );
        let errf = format!("{part}.stderr");
        let mut child = Command::new("sh").arg("-c").arg(&cmdline).stdout(Stdio::null()).stderr(std::fs::File::create(&errf).map(Stdio::from).unwrap_or_else(|_| Stdio::null())).spawn().expect("spawn child");
        let deadline = Instant::now() + Duration::from_secs(secs_per_input * (end - start) as u64 + 20);
        let mut last_progress = Instant::now();
        let mut last_size = 0u64;
        let status = loop {
            match child.try_wait().expect("try_wait") {
                Some(st) => break Some(st),
                None => {
                    // hang detection: no new output for secs_per_input seconds
                    let size = std::fs::metadata(&part).map(|m| m.len()).unwrap_or(0);
                    if size != last_size {
                        last_size = size;
                        last_progress = Instant::now();
                    }
                    if Instant::now() > deadline || last_progress.elapsed() > Duration::from_secs(secs_per_input + 10) {
                        let _ = child.kill();
                        let _ = child.wait();
                        break None;
                    }
                    std::thread::sleep(Duration::from_millis(20));
                }
            }
        };
        // copy complete results; find the input in flight, if any
        let mut begun: Option<usize> = None;
        let mut finished_upto = start;
        if let Ok(f) = std::fs::File::open(&part) {
            for line in std::io::BufReader::new(f).lines().map_while(Result::ok) {
                if let Some(rest) = line.strip_prefix("BEGIN ") {
                    begun = rest.trim().parse().ok();
                } else if line.starts_with('{') {
                    if let Ok(v) = serde_json::from_str::<Value>(&line) {
                        tr.emit(v);
                        if let Some(b) = begun.take() {
                            finished_upto = b + 1;
                        }
                    }
                }
            }
        }
        let ok = matches!(status, Some(st) if st.success());
        if ok && begun.is_none() {
            start = end;
        } else {
            let idx = begun.unwrap_or(finished_upto);
            let why = match status {
                None => "hang (killed by the watchdog)".to_string(),
                Some(st) => format!("child died: {st}"),
            };
            if idx < total {
                // a death or a stall is only believed when the input, run ALONE with a generous time limit, does it again
                // (a loaded machine can starve a child for longer than the watchdog's patience)
                match run_alone(&exe, child_args, idx, mem_kib, (secs_per_input * 6).max(180), &part) {
                    Some(v) => tr.emit(v),
                    None => {
                        // running out of the address-space limit is not a property of the code under test: the input "does not fit in memory"
                        let oom = std::fs::read_to_string(format!("{part}.stderr")).map(|t| t.contains("memory allocation of")).unwrap_or(false);
                        if oom {
                            tr.emit(json!({"ev":"OutOfMemory","idx":idx,"why":"memory allocation failed under the address-space limit","input":describe(idx)}));
                        } else {
                            tr.emit(json!({"ev":"Died","idx":idx,"why":why,"input":describe(idx)}));
                        }
                    }
                }
            }
            start = idx + 1;
        }
    }
    let _ = std::fs::remove_file(&part);
    let _ = std::fs::remove_file(format!("{part}.stderr"));
}

/// one input in a child of its own; Some(result event) when it completes normally
fn run_alone(exe: &std::path::Path, child_args: &[String], idx: usize, mem_kib: u64, secs: u64, part: &str) -> Option<Value> {
    let _ = std::fs::remove_file(part);
    let cmdline = format!(
        "ulimit -v {mem_kib}; exec {} {} --child --from {idx} --to {} --part {part}",
        shell_quote(&exe.display().to_string()),
        child_args.iter().map(|a| shell_quote(a)).collect::<Vec<_>>().join(" "),
        idx + 1
    );
    let mut child = Command::new("sh").arg("-c").arg(&cmdline).stdout(Stdio::null()).stderr(std::fs::File::create(format!("{part}.stderr")).map(Stdio::from).unwrap_or_else(|_| Stdio::null())).spawn().ok()?;
    let deadline = Instant::now() + Duration::from_secs(secs);
    let ok = loop {
        match child.try_wait().ok()? {
            Some(st) => break st.success(),
            None => {
                if Instant::now() > deadline {
                    let _ = child.kill();
                    let _ = child.wait();
                    break false;
                }
                std::thread::sleep(Duration::from_millis(20));
            }
        }
    };
    if !ok {
        return None;
    }
    let f = std::fs::File::open(part).ok()?;
    std::io::BufReader::new(f).lines().map_while(Result::ok).filter(|l| l.starts_with('{')).find_map(|l| serde_json::from_str::<Value>(&l).ok())
}

fn shell_quote(s: &str) -> String {
    format!("'{}'", s.replace('\'', "'\\''"))
}

/// Child side: writer for the part file
pub struct Part(std::fs::File);
impl Part {
    pub fn create(path: &str) -> Self {
        Part(std::fs::File::create(path).expect("part file"))
    }
    pub fn begin(&mut self, idx: usize) {
        writeln!(self.0, "BEGIN {idx}").unwrap();
        self.0.flush().unwrap();
    }
    pub fn result(&mut self, v: &Value) {
        writeln!(self.0, "{}", v).unwrap();
        self.0.flush().unwrap();
    }
}
