SPECIFICATION Spec
CONSTANTS
  Seed = 0
  Multi = FALSE
  Wide = FALSE
  Quick = TRUE
INVARIANT TwinsLabelIndependent
CHECK_DEADLOCK FALSE
