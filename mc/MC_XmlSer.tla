---- MODULE MC_XmlSer ----
\* Laws of XmlSer.tla on every string of <= MaxLen characters over an alphabet that has a member of every class
\* (letter, digit, '_', '-', '.', ':', '/', '#', e-acute, a non-name character beyond ASCII)
EXTENDS XmlSer, TLC
CONSTANT MaxLen
VARIABLES s, t
Alphabet == {97, 49, 95, 45, 46, 58, 47, 35, 233, 215}
Init == s = <<>> /\ t = <<>>
Next == \/ Len(s) < MaxLen /\ (t = <<>> \/ Len(s) < 3) /\ \E c \in Alphabet : s' = Append(s, c) /\ t' = t
        \/ Len(t) < 3 /\ \E c \in {97, 49, 95, 46} : t' = Append(t, c) /\ s' = s /\ Len(s) <= 3
Spec == Init /\ [][Next]_<<s, t>>
Laws == /\ GuardIsExpressibility(s) /\ SplitIsSound(s)
        /\ NodeIdIsName(s) /\ NodeIdIsName(t) /\ NodeIdInjective(s, t)
====
