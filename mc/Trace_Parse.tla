---- MODULE Trace_Parse ----
\* Judges every recorded run of a parser on arbitrary bytes (C08): the run ends with statements or an error value (no panic,
\* no dead process), and every term handed out - also before an error - satisfies the toolkit's validity rules: both the
\* specification's (Validity.tla) and the verdict of the toolkit's own validator recorded by the harness.
EXTENDS Validity, Json, IOUtils, TLC
VARIABLE l
Rec == ndJsonDeserialize(IOEnv.TRACE)
FirstBad(n, Ok(_)) == IF \A i \in 1..n : Ok(i) THEN 0 ELSE CHOOSE i \in 1..n : ~Ok(i) /\ \A j \in 1..(i - 1) : Ok(j)
TermOk(t) == t.toolkit_ok /\ (t.long \/ ValidTerm(t.kind, t.strict, t.v))
Judge(e) ==
  IF e.ev = "Died" THEN <<"process-died-or-hung", 0>>
  ELSE IF e.ev # "Parse" THEN <<"panic", 0>>
  ELSE IF e.out = "panic" THEN <<"panic", 0>>
  ELSE LET bad == FirstBad(Len(e.terms), LAMBDA i : TermOk(e.terms[i])) IN
       IF bad = 0 THEN <<"ok", 0>>
       ELSE IF ~e.terms[bad].toolkit_ok THEN <<"yields-a-term-its-own-validator-rejects", bad>>
       ELSE <<"yields-a-term-invalid-per-specification", bad>>
Init == l = 1
Next == /\ l <= Len(Rec) /\ l' = l + 1
        /\ LET v == Judge(Rec[l]) IN IF v[1] = "ok" THEN TRUE ELSE PrintT(<<"MISMATCH", l, v[1], v[2]>>)
Spec == Init /\ [][Next]_l
PostCond == IF TLCGet("stats").diameter - 1 = Len(Rec) THEN TRUE
            ELSE PrintT(<<"UNMATCHED", TLCGet("stats").diameter, Len(Rec)>>) /\ FALSE
====
