---- MODULE Trace_Stack ----
\* Judges the measured peak stack use of the real operations (one event per operation x profile x size, sizes ascending):
\* every operation completes (a value or an error value - never a dead process) on a 2 MiB stack, and its peak at a larger
\* size exceeds its peak at the smallest size by at most Slack bytes.  With sizes at least 10 x apart (thousands of elements)
\* one frame per element (>= 16 bytes) is far above Slack, so this is Stack.tla's StackIndependentOfSize on measurements.
EXTENDS Naturals, Sequences, Json, IOUtils, TLC
VARIABLES l, base   \* base[<<op, profile>>] = peak at the first (smallest) size seen
Rec == ndJsonDeserialize(IOEnv.TRACE)
Slack == 16384
Key(e) == <<e.op, e.profile>>
Judge(e) ==
  IF e.ev = "OutOfMemory" THEN "ok"        \* the input did not fit in the memory the child was allowed: outside the property's quantifier
  ELSE IF e.ev = "Died" THEN "process-died-or-hung"
  ELSE IF e.ev # "Stack" THEN "panic"
  ELSE IF e.out \notin {"ok", "err"} THEN "panic"
  ELSE IF Key(e) \in DOMAIN base /\ e.peak > base[Key(e)] + Slack THEN "stack-grows-with-the-amount-of-data"
  ELSE "ok"
Init == l = 1 /\ base = <<>>
Next == /\ l <= Len(Rec) /\ l' = l + 1
        /\ LET e == Rec[l] IN
           /\ base' = IF e.ev = "Stack" /\ Key(e) \notin DOMAIN base THEN base @@ (Key(e) :> e.peak) ELSE base
           /\ LET v == Judge(e) IN IF v = "ok" THEN TRUE ELSE PrintT(<<"MISMATCH", l, v>>)
Spec == Init /\ [][Next]_<<l, base>>
PostCond == IF TLCGet("stats").diameter - 1 = Len(Rec) THEN TRUE
            ELSE PrintT(<<"UNMATCHED", TLCGet("stats").diameter, Len(Rec)>>) /\ FALSE
====
