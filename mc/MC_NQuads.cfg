SPECIFICATION Spec
INVARIANT SelfCheck
CHECK_DEADLOCK FALSE
