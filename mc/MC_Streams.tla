---- MODULE MC_Streams ----
\* Exhaustive over all small pipelines: the pipeline is chosen in Init, then fixed.
EXTENDS Streams
====
