---- MODULE Trace_Mem ----
\* Trace specification for C10: a family of instances (slots 0..2) of one store type; every step of a history
\* (new, insert, remove, clone, drop, swap, move, grow, read) is followed by an observation of EVERY live
\* instance: its self-containment audit and, if that passes, its content.  Required at every step:
\*   SelfContained: the audit of every live instance passes (no pointer into memory another instance owns);
\*   Independent:   the content of every live instance is exactly what the abstract machine says, i.e. an
\*                  action on one instance never changes what another returns; a clone starts equal to its original.
EXTENDS QuadStore, Json, IOUtils
Rec == ndJsonDeserialize(IOEnv.TRACE)
VARIABLES l, content       \* content: slot -> set of normalised terms (live slots only)
vars == <<l, content>>
Init == l = 1 /\ content = [x \in {} |-> {}]
Set(x, S) == [y \in (DOMAIN content) \cup {x} |-> IF y = x THEN S ELSE content[y]]
Unset(x) == [y \in (DOMAIN content) \ {x} |-> content[y]]
Post(e) ==
  CASE e.ev = "Reset"   -> [x \in {} |-> {}]
    [] e.ev = "NewInst" -> Set(e.x, {})
    [] e.ev = "Ensure"  -> IF e.ok THEN Set(e.x, content[e.x] \cup {Norm(e.t)}) ELSE content
    [] e.ev = "Del"     -> IF e.removes THEN Set(e.x, content[e.x] \ {Norm(e.t)}) ELSE content
    [] e.ev = "Clone"   -> Set(e.y, content[e.x])
    [] e.ev = "CloneFrom" -> IF e.x \in DOMAIN content /\ e.y \in DOMAIN content THEN Set(e.y, content[e.x]) ELSE content
    [] e.ev = "Drop"    -> Unset(e.x)
    [] e.ev = "Swap"    -> IF e.x \in DOMAIN content /\ e.y \in DOMAIN content
                           THEN [z \in DOMAIN content |-> IF z = e.x THEN content[e.y] ELSE IF z = e.y THEN content[e.x] ELSE content[z]]
                           ELSE content
    [] e.ev = "Grow"    -> Set(e.x, content[e.x] \cup {Norm(e.ts[i]) : i \in 1..Len(e.ts)})
    [] OTHER -> content      \* Move, Read: nothing changes
\* first problem in the observation, as a short code
Judge(e, c) ==
  IF e.ev = "Panic" THEN "panic"
  \* an index the term index never issued (the precondition of get_term is violated: "may panic"): safe code gets a panic, the default
  \* graph, or one of the index's own terms - anything else is memory the index does not own
  \* a safe but inconsistent Term implementation (its lexical form changes between two reads): the index may file it under any of the
  \* values it showed (or refuse it with a panic), but stays self-contained and holds nothing else
  ELSE IF e.ev = "Adversary" THEN (IF ~e.audit THEN "not-self-contained"
                                   ELSE IF \E i \in 1..Len(e.content) : \A j \in 1..Len(e.allowed) : e.content[i] # e.allowed[j] THEN "content" ELSE "ok")
  ELSE IF e.ev = "ForeignIndex" THEN (IF e.out.k \in {"panic", "own-term", "default-graph"} THEN "ok" ELSE "foreign-index-reads-foreign-memory")
  ELSE IF {e.obs[i].id : i \in 1..Len(e.obs)} # DOMAIN c THEN "live-set"
  ELSE IF \E i \in 1..Len(e.obs) : ~e.obs[i].audit THEN "not-self-contained"
  ELSE IF \E i \in 1..Len(e.obs) : {Norm(e.obs[i].content[j]) : j \in 1..Len(e.obs[i].content)} # c[e.obs[i].id] THEN "content"
  ELSE IF \E i \in 1..Len(e.obs) : Len(e.obs[i].content) # Cardinality(c[e.obs[i].id]) THEN "duplicates"
  ELSE IF \E i \in 1..Len(e.obs) : \E k \in 1..Len(e.obs[i].alt) : e.obs[i].alt[k] # e.obs[i].content THEN "index-arms-disagree"
  ELSE "ok"
Next == /\ l <= Len(Rec) /\ l' = l + 1
        /\ LET e == Rec[l] IN
           /\ content' = Post(e)
           /\ LET v == Judge(e, content') IN IF v = "ok" THEN TRUE ELSE PrintT(<<"MISMATCH", l, v>>)
Spec == Init /\ [][Next]_vars
PostCond == IF TLCGet("stats").diameter - 1 = Len(Rec) THEN TRUE
            ELSE PrintT(<<"TRACE-INCOMPLETE", TLCGet("stats").diameter - 1, Len(Rec)>>)
====
