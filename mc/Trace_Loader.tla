---- MODULE Trace_Loader ----
\* Judges every recorded call of the real LocalLoader (directly, or through Resource::get_resource following a link found in
\* loaded data) against the confinement property of Loader.tla, in the world of LoaderWorld.tla.
EXTENDS LoaderWorld, Json, IOUtils, TLC
VARIABLES l, acc   \* acc[c]: which registrations of attempt list c the real loader accepted (Config events)
Rec == ndJsonDeserialize(IOEnv.TRACE)
L(c, flags) == INSTANCE Loader WITH Dirs <- DirsC, Files <- FilesC, Caches <- Configured(c, flags), DotNames <- DotNamesC
Judge(e) ==
  IF e.ev = "Died" THEN "process-died-or-hung"
  ELSE IF e.ev = "Config" THEN "ok"
  ELSE IF e.ev # "Get" THEN "panic"
  \* a loader that accepted a mapping the specification calls invalid is outside the model: its calls are not judged
  ELSE IF \E i \in 1..Len(acc[e.cfg]) : acc[e.cfg][i] /\ ~Valid(Attempts[e.cfg][i]) THEN "ok"
  ELSE IF e.out.k = "panic" THEN "panic"
  ELSE IF e.out.k = "foreign" THEN "returns-a-file-outside-the-sandbox"
  ELSE IF e.out.k = "file" /\ e.out.path \notin FilesC THEN "returns-an-unknown-file"
  ELSE IF ~L(e.cfg, acc[e.cfg])!Confined(e.iri, [k |-> e.out.k, path |-> e.out.path]) THEN "returns-a-file-outside-its-directories"
  ELSE "ok"
Init == l = 1 /\ acc = [c \in 1..Len(Attempts) |-> [i \in 1..Len(Attempts[c]) |-> FALSE]]
Next == /\ l <= Len(Rec) /\ l' = l + 1
        /\ acc' = IF Rec[l].ev = "Config" THEN [acc EXCEPT ![Rec[l].cfg] = Rec[l].accepted] ELSE acc
        /\ LET v == Judge(Rec[l]) IN IF v = "ok" THEN TRUE ELSE PrintT(<<"MISMATCH", l, v>>)
Spec == Init /\ [][Next]_<<l, acc>>
PostCond == IF TLCGet("stats").diameter - 1 = Len(Rec) THEN TRUE
            ELSE PrintT(<<"UNMATCHED", TLCGet("stats").diameter, Len(Rec)>>) /\ FALSE
====
