SPECIFICATION Spec
CONSTANTS Shape = "general"
  MaxQuads = 2
  Mode11C = TRUE
  AlgoC = "fixed"
INVARIANT Emit
CHECK_DEADLOCK FALSE
