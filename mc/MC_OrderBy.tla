---- MODULE MC_OrderBy ----
\* Self-consistency of the C14 oracle: on the value universe MustPrecede is a strict partial order (irreflexive,
\* asymmetric, transitive) for ASC and DESC, so "no inversion" can always be satisfied and never contradicts itself.
EXTENDS OrderBy
Xs(n) == XsdNs \o n
L(lex, dt) == [k |-> "lit", lex |-> lex, dt |-> dt, lang |-> <<>>]
IntT == Xs(<<105,110,116,101,103,101,114>>)
DblT == Xs(<<100,111,117,98,108,101>>)
U == { L(<<53>>, IntT), L(<<49,48>>, IntT), L(<<48,48,55>>, IntT), L(<<45,51>>, IntT), L(<<55>>, Xs(<<98,121,116,101>>)), L(<<51,48,48>>, Xs(<<98,121,116,101>>)),
       L(<<50,46,53>>, DecimalType), L(<<49,48,46,48>>, DecimalType), L(<<49,101,49>>, DblT), L(<<45,48,46,48>>, DblT), L(<<48>>, DblT), L(NaN, DblT), L(INF, DblT), L(<<45>> \o INF, DblT),
       L(<<97,98,99>>, IntT), L(<<53>>, Xs(<<102,111>>)), L(<<53>>, StringType), L(<<97,98,99>>, StringType), L(<<>>, StringType),
       L(<<116,114,117,101>>, BooleanType), L(<<102,97,108,115,101>>, BooleanType), L(<<48>>, Xs(<<110,111,110,80,111,115,105,116,105,118,101,73,110,116,101,103,101,114>>)),
       [k |-> "lit", lex |-> <<97>>, dt |-> <<>>, lang |-> <<101,110>>], [k |-> "iri", v |-> <<97>>], [k |-> "bnode", v |-> <<98>>], [k |-> "unbound"] }
VARIABLE done
Init == done = FALSE
Next == done' = TRUE
Spec == Init /\ [][Next]_done
StrictPartialOrder ==
  \A desc \in BOOLEAN :
    /\ \A a \in U : ~MustPrecede(a, a, desc)
    /\ \A a, b \in U : ~(MustPrecede(a, b, desc) /\ MustPrecede(b, a, desc))
    /\ \A a, b, c \in U : MustPrecede(a, b, desc) /\ MustPrecede(b, c, desc) => MustPrecede(a, c, desc)
    /\ \E a, b \in U : MustPrecede(a, b, desc)
====
