SPECIFICATION Spec
INVARIANT StrictPartialOrder
CHECK_DEADLOCK FALSE
