---- MODULE Gen_Loader ----
\* Prints the world (once) and every IRI of up to MaxLen segments for every cache configuration: the inputs replayed into the real loader.
EXTENDS LoaderWorld, TLC, Json
CONSTANT MaxLen
VARIABLES cfg, iri
SetSeq(S) == LET RECURSIVE F(_) F(T) == IF T = {} THEN <<>> ELSE LET x == CHOOSE x \in T : TRUE IN <<x>> \o F(T \ {x}) IN F(S)
Init == /\ cfg \in 0..Len(Configs) /\ iri = <<>>
Next == /\ cfg > 0 /\ Len(iri) < MaxLen /\ cfg' = cfg /\ \E s \in Alphabet : iri' = Append(iri, s)
Spec == Init /\ [][Next]_<<cfg, iri>>
Emit == IF cfg = 0 THEN PrintT(ToJson([world |-> TRUE, alphabet |-> SetSeq(Alphabet), dirs |-> SetSeq(DirsC), files |-> SetSeq(FilesC), attempts |-> Attempts]))
        ELSE IF iri # <<>> THEN PrintT(ToJson([world |-> FALSE, cfg |-> cfg, iri |-> iri])) ELSE TRUE
====
