---- MODULE Gen_Store ----
\* Behaviour generation for C01: TLC explores the complete state graph of StoreImpl under the small
\* constants and prints every transition (pre-state, operation, post-state) once; tools/tour.py turns
\* the edges into operation histories covering every (state, operation) pair, which the harness replays
\* on the real implementations.
EXTENDS StoreImpl, Json
St == [quads |-> quads, t2i |-> t2i]
StP == [quads |-> quads', t2i |-> t2i']
GNext == \E q \in AllQuads :
           \/ Insert(q) /\ PrintT(ToJson([tag |-> "EDGE", pre |-> St, op |-> "Insert", q |-> q, post |-> StP]))
           \/ Remove(q) /\ PrintT(ToJson([tag |-> "EDGE", pre |-> St, op |-> "Remove", q |-> q, post |-> StP]))
GSpec == Init /\ [][GNext]_vars
====
