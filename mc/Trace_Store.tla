---- MODULE Trace_Store ----
\* Trace specification for C01 (and the store part of C11): every recorded API call of every shipped
\* graph/dataset implementation must be explained by the abstract machine of QuadStore.
EXTENDS QuadStore, Json, IOUtils
Rec == ndJsonDeserialize(IOEnv.TRACE)
VARIABLES l,        \* next trace line
          b,        \* abstract state: bag of normalised quads (all counts 1 for set-backed stores)
          cfg,      \* [isset, graph, cap] from the last Reset
          seen,     \* every term mentioned in any call since the index was created (superset of what is interned)
          big       \* exhaustion scenario: [count, extra]
vars == <<l, b, cfg, seen, big>>
Init == l = 1 /\ b = EmptyBag /\ cfg = [isset |-> TRUE, graph |-> FALSE, cap |-> 0, asds |-> FALSE] /\ seen = {} /\ big = [count |-> 0, extra |-> {}]

Q == DOMAIN b
NQs(s) == [i \in 1..Len(s) |-> NormQ(s[i])]
RowsBag(e) == BagOf(NQs(e.rows))
HasRows(e) == "rows" \in DOMAIN e
IsErr(e) == "err" \in DOMAIN e.res
TermsOfQs(qs) == UNION {TermsOfQ(qs[i]) : i \in 1..Len(qs)}
\* an index-full error is justified only if the index could really be full
Justified(ts) == cfg.cap > 0 /\ Cardinality(seen \cup ts) > cfg.cap
Matching(ms) == {q \in Q : MatchesQ(ms, q)}
Restrict(bag, S) == [x \in S |-> bag[x]]
RECURSIVE AddAll(_, _, _)
AddAll(bag, s, i) == IF i > Len(s) THEN bag ELSE AddAll(BagAdd(bag, s[i]), s, i + 1)
\* occurrences of x anywhere inside term t (upper bound for the multiplicity of term enumerations)
RECURSIVE OccIn(_, _)
OccIn(t, x) == (IF t = x THEN 1 ELSE 0) + (IF t.k = "triple" THEN OccIn(t.s, x) + OccIn(t.p, x) + OccIn(t.o, x) ELSE 0)
OccQ(q, x) == OccIn(q[1], x) + OccIn(q[2], x) + OccIn(q[3], x) + OccIn(q[4], x)
RECURSIVE SumB(_)
SumB(S) == IF S = {} THEN 0 ELSE LET q == CHOOSE q \in S : TRUE IN b[q] + SumB(S \ {q})
RECURSIVE SumOcc(_, _)
SumOcc(S, x) == IF S = {} THEN 0 ELSE LET q == CHOOSE q \in S : TRUE IN b[q] * OccQ(q, x) + SumOcc(S \ {q}, x)

\* ---- is the event explained by the abstract machine? ----
Ok(e) ==
  CASE e.ev = "Reset"   -> TRUE
    [] e.ev = "Insert"  ->
         LET q == NormQ(e.q) IN
         IF IsErr(e) THEN (Justified(TermsOfQ(q)) \/ (cfg.asds /\ q[4] # DG)) /\ HasRows(e) /\ RowsBag(e) = b
         ELSE IF cfg.asds /\ q[4] # DG THEN FALSE        \* a graph seen as a dataset has only a default graph
         ELSE IF cfg.isset THEN e.res.ok = (q \notin Q) /\ (HasRows(e) => RowsBag(e) = BagAdd(BagDel(b, {q}), q))
         ELSE HasRows(e) /\ RowsBag(e) = BagAdd(b, q)
    [] e.ev = "Remove"  ->
         LET q == NormQ(e.q) IN
         IF IsErr(e) THEN FALSE
         ELSE IF cfg.isset THEN e.res.ok = (q \in Q) /\ (HasRows(e) => RowsBag(e) = BagDel(b, {q}))
         ELSE /\ HasRows(e)
              /\ LET r == RowsBag(e) IN
                 /\ \A x \in (Q \cup DOMAIN r) \ {q} : BagCount(r, x) = BagCount(b, x)
                 /\ IF q \in Q THEN BagCount(r, q) < b[q] ELSE q \notin DOMAIN r
    [] e.ev = "Contains" -> e.res = (NormQ(e.q) \in Q)
    [] e.ev = "Quads"   -> RowsBag(e) = b
    [] e.ev = "Match"   -> RowsBag(e) = Restrict(b, Matching(e.ms))
    [] e.ev = "RemoveMatching" ->
         /\ ~IsErr(e) /\ RowsBag(e) = BagDel(b, Matching(e.ms))
         /\ cfg.isset => e.res.ok = Cardinality(Matching(e.ms))
    [] e.ev = "RetainMatching" -> ~IsErr(e) /\ RowsBag(e) = Restrict(b, Matching(e.ms))
    [] e.ev = "InsertAll" ->
         LET qs == NQs(e.qs) IN
         IF IsErr(e) THEN
              IF cfg.asds THEN \E j \in 0..(Len(qs) - 1) : /\ qs[j + 1][4] # DG /\ \A i \in 1..j : qs[i][4] = DG
                                                            /\ RowsBag(e) = (IF cfg.isset THEN SetBag(Q \cup SeqToSet(Prefix(qs, j))) ELSE AddAll(b, Prefix(qs, j), 1))
              ELSE /\ Justified(TermsOfQs(qs)) /\ cfg.isset
                   /\ \E j \in 0..(Len(qs) - 1) : DOMAIN RowsBag(e) = Q \cup SeqToSet(Prefix(qs, j))
                   /\ \A x \in DOMAIN RowsBag(e) : RowsBag(e)[x] = 1
         ELSE IF cfg.asds /\ \E i \in 1..Len(qs) : qs[i][4] # DG THEN FALSE
         ELSE IF cfg.isset THEN e.res.ok = CountIns(qs, 1, Q).n /\ RowsBag(e) = SetBag(Q \cup SeqToSet(qs))
         ELSE RowsBag(e) = AddAll(b, qs, 1)
    [] e.ev = "RemoveAll" ->
         LET qs == NQs(e.qs) IN
         IF IsErr(e) THEN FALSE
         ELSE IF cfg.isset THEN e.res.ok = CountDel(qs, 1, Q).n /\ RowsBag(e) = SetBag(Q \ SeqToSet(qs))
         ELSE LET r == RowsBag(e) IN
              /\ \A x \in (Q \cup DOMAIN r) \ SeqToSet(qs) : BagCount(r, x) = BagCount(b, x)
              /\ \A x \in SeqToSet(qs) : IF x \in Q THEN BagCount(r, x) < b[x] ELSE x \notin DOMAIN r
    [] e.ev = "FromSource" ->
         LET qs == NQs(e.qs) IN
         IF IsErr(e) THEN cfg.cap > 0 /\ Cardinality(TermsOfQs(qs)) > cfg.cap /\ RowsBag(e) = b
         ELSE IF cfg.isset THEN RowsBag(e) = SetBag(SeqToSet(qs)) ELSE RowsBag(e) = AddAll(EmptyBag, qs, 1)
    [] e.ev = "Terms" ->
         LET r == BagOf([i \in 1..Len(e.rows) |-> Norm(e.rows[i])])
             exp == IF cfg.graph /\ e.which = "graph_names" THEN {} ELSE Projection(e.which, Q) IN
         /\ DOMAIN r = exp
         /\ \A x \in exp : r[x] >= 1 /\ r[x] <= SumOcc(Q, x)
    \* ---- views (C11) ----
    [] e.ev = "View" ->
         LET r == BagOf([i \in 1..Len(e.rows) |-> <<Norm(e.rows[i][1]), Norm(e.rows[i][2]), Norm(e.rows[i][3])>>])
             sel == {q \in Q : Matches(e.sel, q[4]) /\ Matches(e.ms[1], q[1]) /\ Matches(e.ms[2], q[2]) /\ Matches(e.ms[3], q[3])}
             Tr(q) == <<q[1], q[2], q[3]>>
             mult(t) == LET S == {q \in sel : Tr(q) = t} IN SumB(S)
         IN /\ DOMAIN r = {Tr(q) : q \in sel}
            /\ \A t \in DOMAIN r : r[t] >= 1 /\ r[t] <= mult(t)
            /\ (cfg.isset /\ e.kind \in {"graph", "graph_mut"}) => \A t \in DOMAIN r : r[t] = 1
    [] e.ev = "ViewTerms" ->
         LET r == BagOf([i \in 1..Len(e.rows) |-> Norm(e.rows[i])])
             selq == {x \in Q : Matches(e.sel, x[4])}
             sel == {<<q[1], q[2], q[3], DG>> : q \in selq} IN
         \* at least the terms of the view's triples; at most those of the selected quads (the union view forwards
         \* to the dataset's enumeration, which also lists graph names: observed, not judged - see DESIGN C11 L)
         /\ Projection(e.which, sel) \subseteq DOMAIN r
         /\ DOMAIN r \subseteq Projection(e.which, selq)
    [] e.ev = "RetainIn" -> ~IsErr(e) /\ RowsBag(e) = Restrict(b, {q \in Q : ~Matches(e.ms[4], q[4]) \/ MatchesQ(e.ms, q)})
    [] e.ev = "Panic" -> FALSE            \* the specification has no such action
    \* ---- 16-bit exhaustion scenario ----
    [] e.ev = "Bulk" -> ~IsErr(e) /\ e.res.ok = e.n /\ e.count = e.n
    [] e.ev = "Probe" ->
         IF IsErr(e) THEN cfg.cap > 0 /\ e.fresh /\ e.distinct >= cfg.cap /\ ~e.contains /\ e.count = big.count
         ELSE e.contains /\ e.res.ok = ~e.was /\ e.count = big.count + (IF e.was THEN 0 ELSE 1)
    [] e.ev = "ProbeMatch" ->
         RowsBag(e) = SetBag(SeqToSet(NQs(e.base)) \cup {q \in big.extra : MatchesQ(e.ms, q)})

\* ---- state after the event (re-synchronised from the logged projection when there is one) ----
PostB(e) ==
  CASE e.ev = "Reset" -> EmptyBag
    [] e.ev \in {"Insert", "Remove", "RemoveMatching", "RetainMatching", "RetainIn", "InsertAll", "RemoveAll", "FromSource"} ->
         IF HasRows(e) THEN RowsBag(e)
         ELSE IF e.ev = "Insert" THEN (IF IsErr(e) THEN b ELSE BagAdd(BagDel(b, {NormQ(e.q)}), NormQ(e.q)))
         ELSE BagDel(b, {NormQ(e.q)})
    [] e.ev = "Quads" -> RowsBag(e)
    [] OTHER -> b
Mentioned(e) ==
  CASE e.ev \in {"Insert", "Remove", "Contains"} -> TermsOfQ(NormQ(e.q))
    [] e.ev \in {"InsertAll", "RemoveAll", "FromSource"} -> TermsOfQs(NQs(e.qs))
    [] OTHER -> {}
PostSeen(e) ==
  IF e.ev = "Reset" THEN {}
  ELSE IF cfg.cap = 0 THEN {}
  ELSE IF e.ev = "FromSource" THEN (IF IsErr(e) THEN seen ELSE Mentioned(e))
  ELSE seen \cup Mentioned(e)
PostBig(e) ==
  CASE e.ev = "Bulk" -> [count |-> e.count, extra |-> {}]
    [] e.ev = "Probe" -> [count |-> e.count, extra |-> IF IsErr(e) THEN big.extra ELSE big.extra \cup {NormQ(e.q)}]
    [] OTHER -> big

Next == /\ l <= Len(Rec) /\ l' = l + 1
        /\ LET e == Rec[l] IN
             /\ b' = PostB(e)
             /\ cfg' = IF e.ev = "Reset" THEN [isset |-> e.isset, graph |-> e.graph, cap |-> e.cap, asds |-> ("asds" \in DOMAIN e)] ELSE cfg
             /\ seen' = PostSeen(e)
             /\ big' = PostBig(e)
             /\ IF Ok(e) THEN TRUE ELSE PrintT(<<"MISMATCH", l, e.ev>>)
Spec == Init /\ [][Next]_vars
PostCond == IF TLCGet("stats").diameter - 1 = Len(Rec) THEN TRUE
            ELSE PrintT(<<"TRACE-INCOMPLETE", TLCGet("stats").diameter - 1, Len(Rec)>>)
====
