---- MODULE MC_Mem ----
EXTENDS TermIndexMem
====
