SPECIFICATION Spec
CONSTANTS
  Seed = 0
  Multi = FALSE
  Quick = FALSE
INVARIANT LabelIndependent
CHECK_DEADLOCK FALSE
