---- MODULE Trace_Streams ----
\* Trace specification for C15: every executed pipeline (source, fault position, adapter chain, sink,
\* driver) must deliver exactly what the Streams state machine (closed form Run) delivers, stop where it
\* stops, and blame the side it blames, with the injected payload.
EXTENDS Streams, Json, IOUtils
Rec == ndJsonDeserialize(IOEnv.TRACE)
VARIABLE l
SetOf(s) == {s[i] : i \in 1..Len(s)}
Judge(e) ==
  LET pl0 == [src |-> e.src, k |-> e.k, chain |-> e.chain, j |-> e.j]
      j == IF e.sink = "store" THEN StoreJ(pl0, e.cap) ELSE e.j
      pl == [pl0 EXCEPT !.j = j]
      r == Run(pl, 0, <<>>, <<>>, "running")
      iterForm == \E i \in 1..Len(e.chain) : e.chain[i] \in {"mapi", "fmapi"}
      kept == IF r.result = "sink" /\ e.sink = "store" THEN SubSeq(r.delivered, 1, Len(r.delivered) - 1) ELSE r.delivered
  IN
  IF e.result # r.result THEN "result"
  ELSE IF r.result = "source" /\ e.payload # (IF e.srckind = "iter" THEN 1000 + e.k ELSE -1) THEN "payload"
  ELSE IF r.result = "sink" /\ e.payload # (IF e.sink = "store" THEN -2 ELSE 2000 + j) THEN "payload"
  ELSE IF e.dknown /\ e.sink \in {"closure", "collect", "serializer"} /\ e.delivered # r.delivered THEN "delivered"
  ELSE IF e.dknown /\ e.sink \in {"collect_set", "store"} /\ SetOf(e.delivered) # SetOf(kept) THEN "delivered"
  ELSE IF e.dknown /\ e.sink \in {"collect_set", "store"} /\ Len(e.delivered) # Cardinality(SetOf(kept)) THEN "duplicates"
  ELSE IF e.dknown /\ \E i \in 1..Len(e.alt) : e.alt[i] # e.delivered THEN "index-arms"
  ELSE IF e.sink = "store" /\ r.result = "ok" /\ e.count # Cardinality(SetOf(r.delivered)) THEN "count"
  \* the source must have been pulled at least as far as the consumer got; pulling further (a step that hands over several items,
  \* an iterator bridge that buffers a batch) is not observable by the consumer and is allowed by Source::try_for_some_item's contract
  ELSE IF e.pulled >= 0 /\ e.pulled < r.pos THEN "pulled"
  \* step-wise driving: "some items (possibly zero)" per step - every step but the last reports more to come, the last one
  \* reports the end exactly when the stream ended without error
  ELSE IF e.sknown /\
          ~(/\ \A i \in 1..(Len(e.steps) - 1) : e.steps[i]
            /\ (r.result = "ok" => Len(e.steps) >= 1 /\ ~e.steps[Len(e.steps)])
            /\ (r.result # "ok" => \A i \in 1..Len(e.steps) : e.steps[i])) THEN "steps"
  ELSE "ok"
\* ---- quad pipelines into datasets (insert_all / remove_all): items whose id is a multiple of 5 sit in a named graph ----
\* GraphAsDataset refuses (SinkError, OnlyDefaultGraph) the first such item on insertion and ignores them on removal; FastDataset and
\* LightDataset take everything.  Judged on what the consumer holds afterwards (init = what it held before), the count it reports, the
\* side it blames and how far the source was pulled.
RECURSIVE FirstNamed(_, _)
FirstNamed(d, i) == IF i > Len(d) THEN 0 ELSE IF d[i] % 5 = 0 THEN i ELSE FirstNamed(d, i + 1)
JudgeQ(e) ==
  LET upto == IF e.k = 0 THEN Len(e.src) ELSE e.k - 1
      all == Filtered(e.src, upto, e.chain)
      j == IF e.sink = "gasd_insert" THEN FirstNamed(all, 1) ELSE 0
      r == Run([src |-> e.src, k |-> e.k, chain |-> e.chain, j |-> j], 0, <<>>, <<>>, "running")
      got == IF r.result = "sink" THEN SetOf(SubSeq(r.delivered, 1, Len(r.delivered) - 1)) ELSE SetOf(r.delivered)
      init == SetOf(e.init)
      inserting == e.sink \in {"gasd_insert", "fast_insert", "light_insert"}
      seen == IF e.sink = "gasd_remove" THEN {x \in got : x % 5 # 0} ELSE got
      after == IF inserting THEN init \cup got ELSE init \ seen
      changed == IF inserting THEN got \ init ELSE init \cap seen
  IN
  IF e.result # r.result THEN "result"
  ELSE IF r.result = "source" /\ e.payload # (IF e.srckind = "iter" THEN 1000 + e.k ELSE -1) THEN "payload"
  ELSE IF r.result = "sink" /\ e.payload # -4 THEN "payload"
  ELSE IF SetOf(e.contents) # after THEN "contents"
  ELSE IF Len(e.contents) # Cardinality(after) THEN "duplicates"
  ELSE IF r.result = "ok" /\ e.count # Cardinality(changed) THEN "count"
  ELSE IF e.pulled >= 0 /\ e.pulled < r.pos THEN "pulled"
  ELSE "ok"
\* the state machine's own variables are idle here: every event is judged by the closed form Run (AgreeInv in MC_Streams)
TInit == l = 1 /\ Src = <<>> /\ K = 0 /\ Chain = <<>> /\ J = 0 /\ pos = 0 /\ delivered = <<>> /\ steps = <<>> /\ result = ""
TNext == /\ l <= Len(Rec) /\ l' = l + 1 /\ UNCHANGED vars
        /\ LET e == Rec[l]
               v == IF e.ev = "Pipe" THEN Judge(e) ELSE IF e.ev = "QPipe" THEN JudgeQ(e) ELSE "panic" IN
           IF v = "ok" THEN TRUE ELSE PrintT(<<"MISMATCH", l, v>>)
TSpec == TInit /\ [][TNext]_<<l, vars>>
PostCond == IF TLCGet("stats").diameter - 1 = Len(Rec) THEN TRUE
            ELSE PrintT(<<"TRACE-INCOMPLETE", TLCGet("stats").diameter - 1, Len(Rec)>>)
====
