---- MODULE Trace_Streams ----
\* Trace specification for C15: every executed pipeline (source, fault position, adapter chain, sink,
\* driver) must deliver exactly what the Streams state machine (closed form Run) delivers, stop where it
\* stops, and blame the side it blames, with the injected payload.
EXTENDS Streams, Json, IOUtils
Rec == ndJsonDeserialize(IOEnv.TRACE)
VARIABLE l
SetOf(s) == {s[i] : i \in 1..Len(s)}
Judge(e) ==
  LET pl0 == [src |-> e.src, k |-> e.k, chain |-> e.chain, j |-> e.j]
      j == IF e.sink = "store" THEN StoreJ(pl0, e.cap) ELSE e.j
      pl == [pl0 EXCEPT !.j = j]
      r == Run(pl, 0, <<>>, <<>>, "running")
      iterForm == \E i \in 1..Len(e.chain) : e.chain[i] \in {"mapi", "fmapi"}
      kept == IF r.result = "sink" /\ e.sink = "store" THEN SubSeq(r.delivered, 1, Len(r.delivered) - 1) ELSE r.delivered
  IN
  IF e.result # r.result THEN "result"
  ELSE IF r.result = "source" /\ e.payload # (IF e.srckind = "iter" THEN 1000 + e.k ELSE -1) THEN "payload"
  ELSE IF r.result = "sink" /\ e.payload # (IF e.sink = "store" THEN -2 ELSE 2000 + j) THEN "payload"
  ELSE IF e.dknown /\ e.sink \in {"closure", "collect", "serializer"} /\ e.delivered # r.delivered THEN "delivered"
  ELSE IF e.dknown /\ e.sink \in {"collect_set", "store"} /\ SetOf(e.delivered) # SetOf(kept) THEN "delivered"
  ELSE IF e.dknown /\ e.sink \in {"collect_set", "store"} /\ Len(e.delivered) # Cardinality(SetOf(kept)) THEN "duplicates"
  ELSE IF e.dknown /\ \E i \in 1..Len(e.alt) : e.alt[i] # e.delivered THEN "index-arms"
  ELSE IF e.sink = "store" /\ r.result = "ok" /\ e.count # Cardinality(SetOf(r.delivered)) THEN "count"
  \* the source must have been pulled at least as far as the consumer got; pulling further (a step that hands over several items,
  \* an iterator bridge that buffers a batch) is not observable by the consumer and is allowed by Source::try_for_some_item's contract
  ELSE IF e.pulled >= 0 /\ e.pulled < r.pos THEN "pulled"
  \* step-wise driving: "some items (possibly zero)" per step - every step but the last reports more to come, the last one
  \* reports the end exactly when the stream ended without error
  ELSE IF e.sknown /\
          ~(/\ \A i \in 1..(Len(e.steps) - 1) : e.steps[i]
            /\ (r.result = "ok" => Len(e.steps) >= 1 /\ ~e.steps[Len(e.steps)])
            /\ (r.result # "ok" => \A i \in 1..Len(e.steps) : e.steps[i])) THEN "steps"
  ELSE "ok"
\* the state machine's own variables are idle here: every event is judged by the closed form Run (AgreeInv in MC_Streams)
TInit == l = 1 /\ Src = <<>> /\ K = 0 /\ Chain = <<>> /\ J = 0 /\ pos = 0 /\ delivered = <<>> /\ steps = <<>> /\ result = ""
TNext == /\ l <= Len(Rec) /\ l' = l + 1 /\ UNCHANGED vars
        /\ LET e == Rec[l]
               v == IF e.ev = "Pipe" THEN Judge(e) ELSE "panic" IN
           IF v = "ok" THEN TRUE ELSE PrintT(<<"MISMATCH", l, v>>)
TSpec == TInit /\ [][TNext]_<<l, vars>>
PostCond == IF TLCGet("stats").diameter - 1 = Len(Rec) THEN TRUE
            ELSE PrintT(<<"TRACE-INCOMPLETE", TLCGet("stats").diameter - 1, Len(Rec)>>)
====
