---- MODULE JsonLdSerConsts ----
EXTENDS Naturals, Sequences, FiniteSets
CONSTANTS Mode11C, AlgoC
BnC == {"b1", "b2", "b3"}
====
