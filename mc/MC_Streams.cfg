SPECIFICATION Spec
CONSTANTS
  MaxLen = 3
  MaxDepth = 3
INVARIANTS PrefixInv StopInv AgreeInv
CHECK_DEADLOCK FALSE
