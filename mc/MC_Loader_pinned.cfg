SPECIFICATION Spec
CONSTANTS MaxLen = 4
  Pinned = TRUE
INVARIANT Confinement
CHECK_DEADLOCK FALSE
