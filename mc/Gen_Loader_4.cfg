SPECIFICATION Spec
CONSTANTS MaxLen = 4
INVARIANT Emit
CHECK_DEADLOCK FALSE
