---- MODULE Gen_JsonLdSer ----
\* Prints every dataset of MC_JsonLdSer's state space (one JSON line each): the inputs replayed into the real JSON-LD
\* serializer and parser.  Same growth rule as MC_JsonLdSer, so the replayed universe IS the model-checked one.
EXTENDS JsonLdSerConsts, TLC, Json
CONSTANTS Shape, MaxQuads
VARIABLE d
Universe == IF Shape = "general"
            THEN {"b1", "b2", "a"} \X {"p", "first", "rest", "type"} \X {"b1", "b2", "a", "nil", "List"} \X {"dg", "g", "b1"}
            ELSE {"b1", "b2", "b3"} \X {"first", "rest"} \X {"b1", "b2", "b3", "nil", "a"} \X {"dg"}
Init == d = {}
Next == Cardinality(d) < MaxQuads /\ \E q \in Universe \ d : d' = d \cup {q}
Spec == Init /\ [][Next]_d
SetSeq(S) == LET RECURSIVE F(_) F(T) == IF T = {} THEN <<>> ELSE LET x == CHOOSE x \in T : TRUE IN <<x>> \o F(T \ {x}) IN F(S)
Emit == d = {} \/ PrintT(ToJson([d |-> SetSeq(d)]))
====
