SPECIFICATION Spec
INVARIANT LawsHold
CHECK_DEADLOCK FALSE
