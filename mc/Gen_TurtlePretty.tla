---- MODULE Gen_TurtlePretty ----
\* Prints every graph of the MC_TurtlePretty universe once; the harness serialises each with the real pretty
\* serializer (Turtle and TriG) and parses it back: the model's verdict ("every triple written once") must be the code's.
EXTENDS MC_TurtlePretty, Json
Emit == PrintT(ToJson([tag |-> "GRAPH", d |-> D]))
====
