SPECIFICATION Spec
INVARIANTS AgreesWithIntegers TotalOrder FacetsNested
CHECK_DEADLOCK FALSE
