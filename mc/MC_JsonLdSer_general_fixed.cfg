SPECIFICATION Spec
CONSTANTS Shape = "general"
  MaxQuads = 3
  Mode11C = TRUE
  AlgoC = "fixed"
INVARIANT RoundTrips
CHECK_DEADLOCK FALSE
