SPECIFICATION GSpec
CONSTANTS
  MaxLen = 3
  MaxDepth = 3
CHECK_DEADLOCK FALSE
