---- MODULE MC_Terms ----
\* The specification's own lawfulness (C02): on the universe U shared with the harness (one JSON file),
\* TermEq is an equivalence, TermCmp a total order that is Equal exactly for equal terms and ranks the kinds.
EXTENDS Terms, Json, IOUtils
USeq == ndJsonDeserialize(IOEnv.UNIVERSE)
U == {USeq[i] : i \in 1..Len(USeq)}
VARIABLE done
Init == done = FALSE
Next == done' = TRUE
Spec == Init /\ [][Next]_done
KindOrder == \A a, b \in U : KindRank(a) < KindRank(b) => TermCmp(a, b) = 0
HashKey(t) == Norm(t)           \* what Term::hash may depend on: equal terms, equal keys
HashLaw == \A a, b \in U : TermEq(a, b) => HashKey(a) = HashKey(b)
LawsHold == Laws(U) /\ KindOrder /\ HashLaw /\ Cardinality(U) >= 20
====
