---- MODULE Trace_Iso ----
\* Trace specification for C07: the contract of isomorphic_graphs / isomorphic_datasets.
\*   MustBeTrue:  the datasets are isomorphic (brute force over all blank-node bijections)  => every answer is true
\*   MustBeFalse: sizes differ, or blank-node counts differ, or they differ once blank nodes are blanked out => every answer is false
\*   the answer is symmetric in its arguments (answers are logged in (d1,d2),(d2,d1) pairs)
\* Nothing is demanded of non-isomorphic pairs that pass the cheap filters (documented incompleteness).
EXTENDS Iso, Json, IOUtils
Rec == ndJsonDeserialize(IOEnv.TRACE)
VARIABLE l
SetOfSeq(s) == {s[i] : i \in 1..Len(s)}
FirstBad(n, P(_)) == IF \E i \in 1..n : ~P(i) THEN CHOOSE i \in 1..n : ~P(i) /\ \A j \in 1..(i - 1) : P(j) ELSE 0
Judge(e) ==
  IF e.ev # "Iso" THEN <<"panic", 0>>
  ELSE LET D1 == SetOfSeq(e.d1)  D2 == SetOfSeq(e.d2)
           t == MustBeTrue(D1, D2)
           f == MustBeFalse(D1, D2)
           b1 == FirstBad(Len(e.res), LAMBDA i : t => e.res[i])
           b2 == FirstBad(Len(e.res), LAMBDA i : f => ~e.res[i])
           b3 == FirstBad(Len(e.res) \div 2, LAMBDA k : e.res[2 * k - 1] = e.res[2 * k])
       IN IF t /\ f THEN <<"oracle-inconsistent", 0>>
          ELSE IF b1 # 0 THEN <<"false-negative", b1>>
          ELSE IF b2 # 0 THEN <<"blind-to-difference", b2>>
          ELSE IF b3 # 0 THEN <<"asymmetric", 2 * b3>>
          ELSE <<"ok", 0>>
Init == l = 1
Next == /\ l <= Len(Rec) /\ l' = l + 1
        /\ LET v == Judge(Rec[l]) IN IF v[1] = "ok" THEN TRUE ELSE PrintT(<<"MISMATCH", l, v[1], v[2]>>)
Spec == Init /\ [][Next]_l
PostCond == IF TLCGet("stats").diameter - 1 = Len(Rec) THEN TRUE
            ELSE PrintT(<<"TRACE-INCOMPLETE", TLCGet("stats").diameter - 1, Len(Rec)>>)
====
