SPECIFICATION Spec
POSTCONDITION PostCond
CONSTANTS
  Seed = 1
  Multi = FALSE
CHECK_DEADLOCK FALSE
