SPECIFICATION Spec
POSTCONDITION PostCond
CONSTANTS
  Seed = 1
  Multi = FALSE
  Wide = FALSE
CHECK_DEADLOCK FALSE
