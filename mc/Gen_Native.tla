---- MODULE Gen_Native ----
\* Prints the universe of literals offered to T::try_from_term (one JSON line each)
EXTENDS NativeWorld, Naturals, Sequences, TLC, Json
VARIABLE i
Init == i = 1
Next == i < Len(Universe) /\ i' = i + 1
Spec == Init /\ [][Next]_i
Emit == PrintT(ToJson(Universe[i]))
====
