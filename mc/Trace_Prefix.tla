---- MODULE Trace_Prefix ----
\* Every recorded call of the real PrefixMap implementation for slices must return what Prefix.tla defines.
EXTENDS Prefix, Json, IOUtils, TLC
VARIABLE l
Rec == ndJsonDeserialize(IOEnv.TRACE)
AnySuffix(s) == TRUE
NonEmptyNoSlash(s) == Len(s) > 0 /\ \A i \in 1..Len(s) : s[i] # 47
Judge(e) ==
  IF e.ev # "PrefixPair" \/ e.out.k = "panic" THEN "panic"
  ELSE LET want == IF e.chk = "any" THEN GetPair(e.map, e.iri, AnySuffix) ELSE GetPair(e.map, e.iri, NonEmptyNoSlash)
           pairOk == IF want.found THEN e.out.k = "some" /\ e.out.p = want.p /\ e.out.suffix = want.suffix ELSE e.out.k = "none"
           nsOk == \A i \in 1..Len(e.nsq) : LET w == GetNamespace(e.map, e.nsq[i].p) IN e.nsq[i].found = w.found /\ (w.found => e.nsq[i].ns = w.ns)
       IN IF ~pairOk THEN "get_checked_prefixed_pair" ELSE IF ~nsOk THEN "get_namespace" ELSE "ok"
Init == l = 1
Next == /\ l <= Len(Rec) /\ l' = l + 1
        /\ LET v == Judge(Rec[l]) IN IF v = "ok" THEN TRUE ELSE PrintT(<<"MISMATCH", l, v>>)
Spec == Init /\ [][Next]_l
PostCond == IF TLCGet("stats").diameter - 1 = Len(Rec) THEN TRUE
            ELSE PrintT(<<"UNMATCHED", TLCGet("stats").diameter, Len(Rec)>>) /\ FALSE
====
