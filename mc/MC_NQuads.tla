---- MODULE MC_NQuads ----
\* Self-check of the independent reader (C03 oracle): the W3C grammar and the minimal escaping (only LF, CR, '"', '\')
\* are mutually inverse for all lexical forms of length <= 3 over the escape-relevant character classes, and for
\* blank node labels with dots, leading digits and the middle dot; inputs that need an escape and lack it are rejected.
EXTENDS NQuads
Chars == {34, 92, 10, 13, 9, 0, 127, 97, 233, 128512, 769, 60, 62, 64, 94, 46, 32}
RECURSIVE Strs(_)
Strs(n) == IF n = 0 THEN {<<>>} ELSE LET P == Strs(n - 1) IN P \cup {Append(s, c) : s \in {x \in P : Len(x) = n - 1}, c \in Chars}
EscC(c) == IF c = 34 THEN <<92, 34>> ELSE IF c = 92 THEN <<92, 92>> ELSE IF c = 10 THEN <<92, 110>> ELSE IF c = 13 THEN <<92, 114>> ELSE <<c>>
RECURSIVE Esc(_, _)
Esc(s, i) == IF i > Len(s) THEN <<>> ELSE EscC(s[i]) \o Esc(s, i + 1)
S == <<60, 115, 58, 115, 62>>        \* <s:s>
P == <<60, 115, 58, 112, 62>>        \* <s:p>
LineOfLit(lex) == S \o <<32>> \o P \o <<32, 34>> \o Esc(lex, 1) \o <<34, 46>>
LitOk(lex) == LET r == ReadLine(LineOfLit(lex)) IN r.ok /\ r.q[3] = [k |-> "lit", lex |-> lex, dt |-> XsdString, lang |-> <<>>]
\* raw (unescaped) text containing LF / CR / '"' / lone '\' must NOT read back as the same literal
RawLine(lex) == S \o <<32>> \o P \o <<32, 34>> \o lex \o <<34, 46>>
NeedsEsc(lex) == \E i \in 1..Len(lex) : lex[i] \in {34, 92, 10, 13}
RawRejected(lex) == LET r == ReadLine(RawLine(lex)) IN ~r.ok \/ r.q[3].lex # lex
Labels == { <<98>>, <<98, 49>>, <<97, 46, 98>>, <<48, 46, 97, 46, 48>>, <<97, 183>>, <<233>>, <<95, 120>>, <<49>> }
LineOfBn(b) == <<95, 58>> \o b \o <<32>> \o P \o <<32, 95, 58>> \o b \o <<46>>
BnOk(b) == LET r == ReadLine(LineOfBn(b)) IN r.ok /\ r.q[1] = [k |-> "bnode", v |-> b] /\ r.q[3] = [k |-> "bnode", v |-> b]
VARIABLE done
Init == done = FALSE
Next == done' = TRUE
Spec == Init /\ [][Next]_done
SelfCheck == /\ \A lex \in Strs(3) : LitOk(lex) /\ (NeedsEsc(lex) => RawRejected(lex))
             /\ \A b \in Labels : BnOk(b)
====
