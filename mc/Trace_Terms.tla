---- MODULE Trace_Terms ----
\* Trace specification for C02: every logged cell (Term::eq, Term::cmp, hash equality, std traits, conversions)
\* of every ordered pair of (value, implementation) must equal the structural definition in Terms.tla.
EXTENDS Terms, Json, IOUtils
Rec == ndJsonDeserialize(IOEnv.TRACE)
VARIABLE l
FirstBad(n, P(_)) == IF \E i \in 1..n : ~P(i) THEN CHOOSE i \in 1..n : ~P(i) /\ \A j \in 1..(i - 1) : P(j) ELSE 0
Judge(e) ==
  IF e.ev = "Pair" THEN
    LET eqv == TermEq(e.a, e.b)
        c == TermCmp(e.a, e.b)
        b1 == FirstBad(Len(e.eq), LAMBDA i : e.eq[i] = eqv)
        b2 == FirstBad(Len(e.cmp), LAMBDA i : e.cmp[i] = c)
        b3 == FirstBad(Len(e.heq), LAMBDA i : eqv => e.heq[i])
        b4 == FirstBad(Len(e.seq), LAMBDA i : e.seq[i] = eqv)
        b5 == FirstBad(Len(e.scmp), LAMBDA i : e.scmp[i] = c)
        b6 == FirstBad(Len(e.sheq), LAMBDA i : eqv => e.sheq[i])
        b7 == FirstBad(Len(e.xeq), LAMBDA i : e.xeq[i] = eqv)
    IN IF b1 # 0 THEN <<"eq", b1>> ELSE IF b2 # 0 THEN <<"cmp", b2>> ELSE IF b3 # 0 THEN <<"hash", b3>>
       ELSE IF b4 # 0 THEN <<"std-eq", b4>> ELSE IF b5 # 0 THEN <<"std-cmp", b5>> ELSE IF b6 # 0 THEN <<"std-hash", b6>>
       ELSE IF b7 # 0 THEN <<"partial-eq", b7>> ELSE <<"ok", 0>>
  ELSE IF e.ev = "Conv" THEN
    LET b == FirstBad(Len(e.outs), LAMBDA i : TermEq(e.a, e.outs[i])) IN IF b # 0 THEN <<"conv", b>> ELSE <<"ok", 0>>
  ELSE <<"panic", 0>>
Init == l = 1
Next == /\ l <= Len(Rec) /\ l' = l + 1
        /\ LET v == Judge(Rec[l]) IN IF v[1] = "ok" THEN TRUE ELSE PrintT(<<"MISMATCH", l, v[1], v[2]>>)
Spec == Init /\ [][Next]_l
PostCond == IF TLCGet("stats").diameter - 1 = Len(Rec) THEN TRUE
            ELSE PrintT(<<"TRACE-INCOMPLETE", TLCGet("stats").diameter - 1, Len(Rec)>>)
====
