---- MODULE MC_Iso ----
\* Self-consistency of the C07/C05 oracle on a small universe: isomorphism is an equivalence relation, is invariant under
\* relabelling, and the two clauses of the contract never contradict each other (no pair is both required true and false).
EXTENDS Iso
B(x) == [k |-> "bnode", v |-> x]
I(x) == [k |-> "iri", v |-> x]
TermsU == {B(<<1>>), B(<<2>>), [k |-> "triple", s |-> B(<<1>>), p |-> I(<<112>>), o |-> I(<<97>>)]}
Quads == {<<s, I(<<112>>), o, g>> : s \in TermsU, o \in TermsU, g \in {DG, B(<<1>>)}}
Datasets == {D \in SUBSET Quads : Cardinality(D) <= 2}
VARIABLE done
Init == done = FALSE
Next == done' = TRUE
Spec == Init /\ [][Next]_done
Swap == [x \in {<<1>>, <<2>>} |-> IF x = <<1>> THEN <<2>> ELSE <<1>>]
OracleOk ==
  /\ \A D \in Datasets : Isomorphic(D, D) /\ ~MustBeFalse(D, D)
  /\ \A D \in Datasets : BnodesOf(D) \subseteq {<<1>>, <<2>>} => Isomorphic(D, RenD(D, [x \in BnodesOf(D) |-> Swap[x]]))
  /\ \A D1, D2 \in Datasets : (Isomorphic(D1, D2) <=> Isomorphic(D2, D1)) /\ ~(MustBeTrue(D1, D2) /\ MustBeFalse(D1, D2))
====
