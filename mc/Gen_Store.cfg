SPECIFICATION GSpec
CONSTANTS
  Terms = {"t1", "t2"}
  DG = "dg"
  MAXI = 2
CONSTRAINT Bound
CHECK_DEADLOCK FALSE
