---- MODULE MC_JsonLdSer ----
\* Every small dataset through the transcription of the JSON-LD serializer's list handling (JsonLdSer.tla).
\* Shape "general": <= MaxQuads quads over 2 blank nodes + 1 IRI, predicates p / rdf:first / rdf:rest / rdf:type,
\*   objects incl. rdf:nil and rdf:List, graphs: default, an IRI-named one, one named by a blank node.
\* Shape "lists": <= MaxQuads quads over 3 blank nodes, rdf:first / rdf:rest only, default graph (long chains and loops).
EXTENDS JsonLdSerConsts, TLC
CONSTANTS Shape, MaxQuads
VARIABLE d
J == INSTANCE JsonLdSer WITH Bn <- BnC, NIL <- "nil", LIST <- "List", FIRST <- "first", REST <- "rest", TYPE <- "type", DG <- "dg",
                             Mode11 <- Mode11C, Algo <- AlgoC
Universe == IF Shape = "general"
            THEN {"b1", "b2", "a"} \X {"p", "first", "rest", "type"} \X {"b1", "b2", "a", "nil", "List"} \X {"dg", "g", "b1"}
            ELSE {"b1", "b2", "b3"} \X {"first", "rest"} \X {"b1", "b2", "b3", "nil", "a"} \X {"dg"}
\* datasets grow one quad at a time; TLC identifies equal sets, so every dataset of <= MaxQuads quads is one state
Init == d = {}
Next == Cardinality(d) < MaxQuads /\ \E q \in Universe \ d : d' = d \cup {q}
Spec == Init /\ [][Next]_d
RoundTrips == J!Correct(d)
====
