---- MODULE Trace_Rdfc10 ----
\* Trace specification for C06: the canonical document (and identifier map) produced by normalize_with / relabel_with
\* instantiated with the toy hash must be exactly what the transcription of W3C RDFC-1.0 in Rdfc10.tla computes with
\* the same hash.  Errors: unsupported input must be reported as such; ToxicGraph only if a configured limit is
\* really exceeded in the specification's own run.
EXTENDS Rdfc10, Json, IOUtils
Rec == ndJsonDeserialize(IOEnv.TRACE)
VARIABLE l
Conv(t) == IF t.k = "iri" THEN [k |-> "i", v |-> t.v]
           ELSE IF t.k = "bnode" THEN [k |-> "b", v |-> t.v]
           ELSE IF t.k = "lit" THEN [k |-> "l", lex |-> t.lex, dt |-> t.dt, lang |-> t.lang]
           ELSE [k |-> "d"]
ConvQ(q) == <<Conv(q[1]), Conv(q[2]), Conv(q[3]), Conv(q[4])>>
Supported(d) == \A i \in 1..Len(d) : /\ d[i][2].k = "iri"
                                     /\ \A j \in {1, 3} : d[i][j].k \in {"iri", "bnode", "lit"}
                                     /\ d[i][4].k \in {"iri", "bnode", "lit", "dg"}
Judge(e) ==
  IF e.ev # "Toy" THEN "panic"
  ELSE IF e.seed # (IF Wide THEN 100 + Seed ELSE Seed) THEN "ok"      \* judged by the run configured with that seed (100 + s: the 48-byte digest)
  ELSE IF ~Supported(e.d) THEN (IF e.res.k = "unsupported" THEN "ok" ELSE "unsupported-input-not-reported")
  ELSE LET D == [i \in 1..Len(e.d) |-> ConvQ(e.d[i])]
           lim == [pl |-> e.perm_limit, dn |-> e.depth_num, nb |-> Cardinality(BN(D))]
           run == CanonicalRun(D, TRUE, lim)
       IN IF e.res.k = "toxic" THEN (IF run.tox THEN "ok" ELSE "toxic-within-the-limits")
          ELSE IF e.res.k # "ok" THEN "error-on-supported-input"
          ELSE LET idmapOk(c) == e.idmap = <<>> \/ lim.pl < 6 \/ lim.dn < 2
                                 \/ \A i \in 1..Len(e.idmap) : Has(c, e.idmap[i][1]) /\ IdOf(c, e.idmap[i][1]) = e.idmap[i][2]
               IN IF e.res.text = DocOf(D, run.canon) /\ (run.tie \/ run.amb \/ idmapOk(run.canon)) THEN "ok"
                  \* where the W3C text leaves a choice (a tie at 5.3 or 5.4.6) every outcome it allows is accepted - and nothing else
                  \* (the document and the identifier map come from two calls on two containers: each has to be an outcome, not both the same one)
                  \* a run without tie and without ambiguity has one outcome: nothing to look for (and the set-valued reading is costly)
                  ELSE IF ~(run.tie \/ run.amb) THEN (IF e.res.text # DocOf(D, run.canon) THEN "differs-from-w3c-rdfc10" ELSE "idmap-differs")
                  \* with the 48-byte digest the set-valued reading is too costly: where the text leaves a choice a differing answer is not judged
                  ELSE IF Wide THEN "ok"
                  ELSE LET cs == OutcomeCanons(D) IN
                       IF ~\E c \in cs : DocOf(D, c) = e.res.text THEN "differs-from-w3c-rdfc10"
                       ELSE IF ~\E c \in cs : idmapOk(c) THEN "idmap-differs" ELSE "ok"
Init == l = 1
Next == /\ l <= Len(Rec) /\ l' = l + 1
        /\ LET v == Judge(Rec[l]) IN IF v = "ok" THEN TRUE ELSE PrintT(<<"MISMATCH", l, v>>)
Spec == Init /\ [][Next]_l
PostCond == IF TLCGet("stats").diameter - 1 = Len(Rec) THEN TRUE
            ELSE PrintT(<<"TRACE-INCOMPLETE", TLCGet("stats").diameter - 1, Len(Rec)>>)
====
