SPECIFICATION Spec
CONSTANTS Size = 40
  Nest = 3
  Style = "recursive"
  Base = 2
INVARIANT StackIndependentOfSize
CHECK_DEADLOCK FALSE
