---- MODULE Trace_OrderBy ----
\* Trace specification for C14.  One event = one multiset of rows, a key list, and the ORDER BY outputs obtained from
\* every permutation of the input rows.  Required: (1) every output is a permutation of the rows; (2) no inversion: a row
\* that MUST precede another (kind rank unbound < blank < IRI < literal, SPARQL '<' where defined, reversed for DESC, later
\* keys breaking ties between same terms) never comes after it; (3) one total preorder explains all outputs; (4) no failure.
EXTENDS OrderBy, Json, IOUtils
Rec == ndJsonDeserialize(IOEnv.TRACE)
VARIABLE l
BagOfSeq(s) == LET S == {s[i] : i \in 1..Len(s)} IN [x \in S |-> Cardinality({i \in 1..Len(s) : s[i] = x})]
FirstBad(n, P(_)) == IF \E i \in 1..n : ~P(i) THEN CHOOSE i \in 1..n : ~P(i) /\ \A j \in 1..(i - 1) : P(j) ELSE 0
Judge(e) ==
  IF e.ev # "OrderBy" THEN <<"panic", 0>>
  ELSE IF e.failed THEN <<"sorting-failed", 0>>
  ELSE LET b1 == FirstBad(Len(e.outs), LAMBDA n : BagOfSeq(e.outs[n]) = BagOfSeq(e.rows))
           b2 == FirstBad(Len(e.outs), LAMBDA n : NoRowInversion(e.outs[n], e.keys))
       IN IF b1 # 0 THEN <<"not-a-permutation-of-the-solutions", b1>>
          ELSE IF b2 # 0 THEN <<"inverts-a-comparable-pair", b2>>
          ELSE IF ~e.big /\ ~RowsConsistent(e.outs, e.keys) THEN <<"no-single-order-explains-all-runs", 0>>
          ELSE <<"ok", 0>>
Init == l = 1
Next == /\ l <= Len(Rec) /\ l' = l + 1
        /\ LET v == Judge(Rec[l]) IN IF v[1] = "ok" THEN TRUE ELSE PrintT(<<"MISMATCH", l, v[1], v[2]>>)
Spec == Init /\ [][Next]_l
PostCond == IF TLCGet("stats").diameter - 1 = Len(Rec) THEN TRUE
            ELSE PrintT(<<"TRACE-INCOMPLETE", TLCGet("stats").diameter - 1, Len(Rec)>>)
====
