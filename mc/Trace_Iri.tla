---- MODULE Trace_Iri ----
\* Trace specification for C09 (validation = RFC 3987, resolution = RFC 3986 5.2, no panic) and
\* C17 (relativise is the inverse of resolve).
EXTENDS Iri, Integers, Json, IOUtils, TLC
Rec == ndJsonDeserialize(IOEnv.TRACE)
VARIABLE l
FirstBad(n, P(_)) == IF \E i \in 1..n : ~P(i) THEN CHOOSE i \in 1..n : ~P(i) /\ \A j \in 1..(i - 1) : P(j) ELSE 0
JudgeValidate(e) ==
  LET s == e.s  i == IsIri(s)  rr == IsRelRef(s) IN
  IF e.panic THEN <<"panic", 0>>
  ELSE IF e.r.iri_new # i THEN <<"Iri::new", 0>>
  ELSE IF e.r.abs # i THEN <<"is_absolute_iri_ref", 0>>
  ELSE IF e.r.rel # rr THEN <<"is_relative_iri_ref", 0>>
  ELSE IF e.r.iriref_new # (i \/ rr) THEN <<"IriRef::new", 0>>
  ELSE IF e.r.valid # (i \/ rr) THEN <<"is_valid_iri_ref", 0>>
  ELSE IF e.r.base_new # i THEN <<"BaseIri::new", 0>>
  ELSE IF e.r.baseref_new # (i \/ rr) THEN <<"BaseIriRef::new", 0>>
  ELSE <<"ok", 0>>
\* spec-level class of a resolution deviation (names the rule of RFC 3986 5.2 involved)
HasDotSeg(p) == LET ps == Split(p, 47) IN \E i \in 1..Len(ps) : ps[i] \in {<<46>>, <<46, 46>>}
ResolveClass(base, ref) ==
  LET b == Parse(base)  r == Parse(ref) IN
  IF r.hasScheme THEN "ref-with-scheme-keeps-dot-segments"
  ELSE IF r.hasAuth THEN "ref-with-authority-keeps-dot-segments"
  ELSE IF ~b.hasAuth THEN "base-without-authority"
  ELSE IF HasDotSeg(b.path) THEN "base-path-has-dot-segments"
  ELSE "other"
\* an answer is: right (= RFC), the known third-party deviation (= LibResolve, in a named class), or wrong
JudgeOut(o, exp, lib, class) ==
  IF o.res.k = "ok" /\ o.res.out = exp THEN "ok"
  ELSE IF class = "other" THEN (IF o.res.k = "ok" THEN "wrong-result" ELSE o.res.k)
  ELSE IF lib.err THEN (IF o.res.k = "panic" THEN "lib-panic:double-slash-path/" \o class
                        ELSE IF o.res.k = "err" THEN "lib-error:double-slash-path/" \o class ELSE "wrong-result")
  ELSE IF o.res.k = "ok" /\ o.res.out = lib.out THEN "lib-deviation:" \o class
  ELSE IF o.res.k = "ok" THEN "wrong-result" ELSE o.res.k
JudgeResolve(e) ==
  IF ~(IsIri(e.base) /\ IsIriRef(e.ref)) THEN <<"ok", 0>>        \* not an accepted pair for the specification: judged by Validate
  ELSE LET exp == Resolve(e.base, e.ref)
           lib == LibResolve(e.base, e.ref)
           class == ResolveClass(e.base, e.ref)
           bad == FirstBad(Len(e.outs), LAMBDA i : JudgeOut(e.outs[i], exp, lib, class) = "ok")
       IN IF ~IsIri(exp) THEN <<"spec-result-not-an-iri", 0>>
          ELSE IF bad = 0 THEN <<"ok", 0>>
          ELSE <<JudgeOut(e.outs[bad], exp, lib, class), bad>>
JudgeAsBase(e) ==
  IF ~IsIriRef(e.s) THEN <<"ok", 0>>
  ELSE LET bad == FirstBad(Len(e.outs), LAMBDA i : e.outs[i].ok) IN IF bad = 0 THEN <<"ok", 0>> ELSE <<"panic", bad>>
JudgeRelativize(e) ==
  IF ~(IsIri(e.base) /\ IsIri(e.iri)) THEN <<"ok", 0>>
  ELSE IF e.k = "panic" THEN <<"panic", 0>>
  ELSE IF e.k = "err" THEN <<"ok", 0>>
  ELSE IF e.k = "none" THEN
       \* "equal to the base or differing only in query/fragment is always relativised" - whenever such a reference exists
       \* (for paths with dot segments none may exist): the candidates are the IRI's own tail, its last segment + tail, and "./" + tail
       LET tail == From(e.iri, Len(NoQuery(e.iri)) + 1)
           p == Parse(e.iri).path
           lastseg == From(p, LastIndex(p, 47) + 1)
           cands == {tail, lastseg \o tail, <<46, 47>> \o tail}
       IN IF SameDocument(e.base, e.iri) /\ \E c \in cands : IsIriRef(c) /\ Resolve(e.base, c) = e.iri /\ LibResolve(e.base, c) = [err |-> FALSE, out |-> e.iri]
          THEN <<"none-for-same-document", 0>> ELSE <<"ok", 0>>
  ELSE IF ~IsIriRef(e.out) THEN <<"not-a-reference", 0>>
  ELSE IF LeadingDotDots(e.out) > e.n THEN <<"too-many-parents", 0>>
  ELSE IF Resolve(e.base, e.out) # e.iri /\ ~(e.back.k = "ok" /\ e.back.out = e.iri) THEN <<"does-not-resolve-back", 0>>
  ELSE <<"ok", 0>>
\* Namespace::new / Namespace::get: the namespace, and the namespace followed by the suffix, are IRI references
JudgeNsGet(e) ==
  IF e.panic THEN <<"panic", 0>>
  ELSE IF e.new_ok # IsIriRef(e.ns) THEN <<"Namespace::new", 0>>
  ELSE IF ~e.new_ok THEN <<"ok", 0>>
  ELSE IF e.get_ok # IsIriRef(e.ns \o e.suffix) THEN <<"Namespace::get", 0>>
  ELSE IF e.get_ok /\ e.iri # e.ns \o e.suffix THEN <<"NsTerm::iri", 0>>
  ELSE <<"ok", 0>>
Judge(e) == CASE e.ev = "Validate" -> JudgeValidate(e)
              [] e.ev = "NsGet" -> JudgeNsGet(e)
              [] e.ev = "Resolve" -> JudgeResolve(e)
              [] e.ev = "AsBase" -> JudgeAsBase(e)
              [] e.ev = "Relativize" -> JudgeRelativize(e)
              [] OTHER -> <<"panic", 0>>
Init == l = 1
Next == /\ l <= Len(Rec) /\ l' = l + 1
        /\ LET v == Judge(Rec[l]) IN IF v[1] = "ok" THEN TRUE ELSE PrintT(<<"MISMATCH", l, v[1], v[2]>>)
Spec == Init /\ [][Next]_l
PostCond == IF TLCGet("stats").diameter - 1 = Len(Rec) THEN TRUE
            ELSE PrintT(<<"TRACE-INCOMPLETE", TLCGet("stats").diameter - 1, Len(Rec)>>)
====
