SPECIFICATION Spec
CONSTANTS MaxLen = 3
INVARIANT Emit
CHECK_DEADLOCK FALSE
