SPECIFICATION Spec
CONSTANTS MaxLen = 5
  Pinned = FALSE
INVARIANT Confinement
CHECK_DEADLOCK FALSE
