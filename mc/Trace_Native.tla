---- MODULE Trace_Native ----
\* Judges every recorded use of a native value as a term, and every recorded T::try_from_term, against Native.tla (C20).
EXTENDS Native, Json, IOUtils, TLC
VARIABLE l
Rec == ndJsonDeserialize(IOEnv.TRACE)
FirstBad(n, Ok(_)) == IF \A i \in 1..n : Ok(i) THEN 0 ELSE CHOOSE i \in 1..n : ~Ok(i) /\ \A j \in 1..(i - 1) : Ok(j)
ViaOk(e, i) == e.vias[i].out.k = "ok" /\ SameNative(e.ty, e.val, e.vias[i].out.val)
Judge(e) ==
  IF e.ev = "NativePanic" THEN <<"panic", 0>>
  ELSE IF e.ev = "Native" THEN
       LET v == JudgeToTerm(e.ty, e.val, e.term)
           bad == FirstBad(Len(e.vias), LAMBDA i : ViaOk(e, i))
       IN IF v # "ok" THEN <<v, 0>>
          ELSE IF bad = 0 THEN <<"ok", 0>>
          ELSE IF e.vias[bad].out.k = "panic" THEN <<"panic", bad>>
          ELSE IF e.vias[bad].out.k = "err" THEN <<"does-not-convert-back", bad>>
          ELSE <<"converts-back-to-another-value", bad>>
  ELSE IF e.ev = "TryFrom" THEN <<JudgeTryFrom(e.ty, e.term, e.out), 0>>
  ELSE <<"panic", 0>>
Init == l = 1
Next == /\ l <= Len(Rec) /\ l' = l + 1
        /\ LET v == Judge(Rec[l]) IN IF v[1] = "ok" THEN TRUE ELSE PrintT(<<"MISMATCH", l, v[1], v[2]>>)
Spec == Init /\ [][Next]_l
PostCond == IF TLCGet("stats").diameter - 1 = Len(Rec) THEN TRUE
            ELSE PrintT(<<"UNMATCHED", TLCGet("stats").diameter, Len(Rec)>>) /\ FALSE
====
