---- MODULE MC_TurtlePretty ----
\* Design-level check of the pretty Turtle serializer's decision procedure (C04): for EVERY graph with at most
\* MaxTriples triples over 3 blank nodes + 1 IRI, predicates {p, rdf:first, rdf:rest}, objects incl. rdf:nil,
\* every triple is written exactly once (labelling incl. cycles, subject types, list detection, traversal).
EXTENDS TurtlePretty
CONSTANT MaxTriples
VARIABLE D
NoTriple == <<NIL, NIL, NIL>>
Pick == Universe \cup {NoTriple}
Init == \E t1, t2, t3, t4 \in Pick : /\ (MaxTriples < 4 => t4 = NoTriple) /\ (MaxTriples < 3 => t3 = NoTriple)
                                    /\ D = {t1, t2, t3, t4} \ {NoTriple}
Next == UNCHANGED D
Spec == Init /\ [][Next]_D
EveryTripleWrittenOnce == Correct(D)
====
