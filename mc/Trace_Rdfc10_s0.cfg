SPECIFICATION Spec
POSTCONDITION PostCond
CONSTANTS
  Seed = 0
  Multi = FALSE
  Wide = FALSE
CHECK_DEADLOCK FALSE
