SPECIFICATION Spec
POSTCONDITION PostCond
CONSTANTS
  Seed = 0
  Multi = FALSE
CHECK_DEADLOCK FALSE
