SPECIFICATION TSpec
POSTCONDITION PostCond
CONSTANTS
  MaxLen = 3
  MaxDepth = 3
CHECK_DEADLOCK FALSE
