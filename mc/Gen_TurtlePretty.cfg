SPECIFICATION Spec
CONSTANTS
  B1 = "b1"
  B2 = "b2"
  B3 = "b3"
  A = "a"
  NIL = "nil"
  P = "p"
  FIRST = "first"
  REST = "rest"
  MaxTriples = 3
INVARIANT Emit
CHECK_DEADLOCK FALSE
