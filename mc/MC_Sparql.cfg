SPECIFICATION Spec
INVARIANT Laws
CHECK_DEADLOCK FALSE
CONSTANTS LangCmpExt = TRUE
  SameLitExt = TRUE
  IllDtExt = TRUE
