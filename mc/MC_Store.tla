---- MODULE MC_Store ----
\* Model-checking configuration of StoreImpl (C01 refinement): small constants, exhaustive.
EXTENDS StoreImpl
====
