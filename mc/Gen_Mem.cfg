SPECIFICATION GSpec
CONSTANTS
  Terms = {"t1", "t2"}
  Inst = {"x1", "x2", "x3"}
  MaxCells = 6
  CloneMode = "rebuild"
CHECK_DEADLOCK FALSE
