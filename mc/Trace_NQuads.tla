---- MODULE Trace_NQuads ----
\* Trace specification for C03: the emitted text, read by the INDEPENDENT reader of NQuads.tla (W3C N-Quads grammar +
\* RDF-star + the generalized forms), is exactly the input dataset, one statement per line; and the shipped parser
\* (both through the streaming callback and through the collectors) returns exactly the input quads.
\* Term comparison folds the case of language tags (term equality; the shipped reader lower-cases them).
EXTENDS NQuads, Json, IOUtils
Rec == ndJsonDeserialize(IOEnv.TRACE)
VARIABLE l
Lower(c) == IF c >= 65 /\ c <= 90 THEN c + 32 ELSE c
FoldAscii(s) == [i \in 1..Len(s) |-> Lower(s[i])]
RECURSIVE Norm(_)
Norm(t) == IF t.k = "lit" THEN [t EXCEPT !.lang = FoldAscii(t.lang)]
           ELSE IF t.k = "triple" THEN [k |-> "triple", s |-> Norm(t.s), p |-> Norm(t.p), o |-> Norm(t.o)]
           ELSE t
NormQ(q) == <<Norm(q[1]), Norm(q[2]), Norm(q[3]), Norm(q[4])>>
BagOf(s) == LET S == {s[i] : i \in 1..Len(s)} IN [x \in S |-> Cardinality({i \in 1..Len(s) : s[i] = x})]
NB(s) == BagOf([i \in 1..Len(s) |-> NormQ(s[i])])
\* for N-Triples the graph name is not written
InQuads(e) == IF e.ser = "nt" THEN [i \in 1..Len(e["in"]) |-> <<e["in"][i][1], e["in"][i][2], e["in"][i][3], DG>>] ELSE e["in"]
Judge(e) ==
  IF e.ev # "RT" THEN "panic"
  ELSE IF ~e.serok THEN "serializer-failed"
  ELSE LET r == ReadDoc(e.text)  inq == InQuads(e) IN
       IF ~r.ok THEN "not-w3c-nquads"
       ELSE IF Len(r.quads) # Len(inq) THEN "not-one-statement-per-line"
       ELSE IF NB(r.quads) # NB(inq) THEN "independent-reader-reads-other-quads"
       ELSE IF ~e.out.ok THEN "reparse-failed"
       ELSE IF NB(e.out.quads) # NB(inq) THEN "reparse-differs"
       ELSE IF ~e.collected.ok THEN "collect-failed"
       ELSE IF NB(e.collected.quads) # NB(inq) THEN "collected-differs"
       ELSE "ok"
Init == l = 1
Next == /\ l <= Len(Rec) /\ l' = l + 1
        /\ LET v == Judge(Rec[l]) IN IF v = "ok" THEN TRUE ELSE PrintT(<<"MISMATCH", l, v>>)
Spec == Init /\ [][Next]_l
PostCond == IF TLCGet("stats").diameter - 1 = Len(Rec) THEN TRUE
            ELSE PrintT(<<"TRACE-INCOMPLETE", TLCGet("stats").diameter - 1, Len(Rec)>>)
====
