---- MODULE MC_Views ----
EXTENDS Views
====
