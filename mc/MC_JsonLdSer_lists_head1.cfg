SPECIFICATION Spec
CONSTANTS Shape = "lists"
  MaxQuads = 6
  Mode11C = TRUE
  AlgoC = "head1"
INVARIANT RoundTrips
CHECK_DEADLOCK FALSE
