SPECIFICATION Spec
POSTCONDITION PostCond
CHECK_DEADLOCK FALSE
