---- MODULE MC_Rdfc10 ----
\* Self-check of the RDFC-1.0 transcription (C06 oracle): on a universe of small symmetric structures the canonical
\* document does not depend on blank node labels nor on quad order (the SPECIFICATION satisfies C05), and step 5.2.1
\* (skip nodes that already have a canonical identifier) is an optimisation only: with and without it the result is the same.
EXTENDS Rdfc10
CONSTANT Quick    \* TRUE: three label permutations per structure; FALSE: all 120
Bn(x) == [k |-> "b", v |-> <<101, 48 + x>>]
P == [k |-> "i", v |-> <<104, 116, 116, 112, 58, 47, 47, 101, 120, 47, 112>>]
Q == [k |-> "i", v |-> <<104, 116, 116, 112, 58, 47, 47, 101, 120, 47, 113>>]
DGt == [k |-> "d"]
E(a, b) == <<Bn(a), P, Bn(b), DGt>>
F(a, b) == <<Bn(a), Q, Bn(b), DGt>>
G(a, b, g) == <<Bn(a), P, Bn(b), Bn(g)>>
Universe == {
  <<E(0, 1), E(1, 2), E(2, 0)>>,                          \* 3-cycle
  <<E(0, 1), E(1, 0)>>,                                   \* 2-cycle
  <<E(0, 1), E(0, 2), E(0, 3)>>,                          \* star
  <<E(0, 1), E(1, 2), E(2, 0), E(0, 2)>>,                 \* cycle + chord
  <<E(0, 1), E(1, 2), E(2, 3), E(3, 0)>>,                 \* 4-cycle
  <<E(0, 1), E(1, 0), E(2, 3), E(3, 2)>>,                 \* two disjoint 2-cycles
  <<E(0, 0), E(0, 1), E(1, 1)>>,                          \* self loops
  <<E(0, 1), F(1, 2), E(2, 3), F(3, 0)>>,                 \* alternating predicates
  <<G(0, 1, 0), G(1, 2, 1), G(2, 0, 2)>>,                 \* blank graph names
  <<E(0, 1), E(0, 2), E(1, 3), E(2, 3)>>,                 \* diamond
  <<E(0, 1), E(1, 2), E(0, 3), E(3, 4), F(4, 4)>>         \* two arms with different tails
}
\* "twins across graphs": a-x in graph g, a-y in the default graph, b-y in g, b-x in the default graph.  From a's side x and y have
\* the same related hash (position, predicate, first-degree hash: the quad's graph name is not part of it) without being interchangeable
Gi == [k |-> "i", v |-> <<104, 116, 116, 112, 58, 47, 47, 101, 120, 47, 103>>]
Gn(a, b) == <<Bn(a), P, Bn(b), Gi>>
Twins == << Gn(0, 2), E(0, 3), Gn(1, 3), E(1, 2) >>
RECURSIVE PermSeqs2(_)
PermSeqs2(S) == IF S = {} THEN { <<>> } ELSE UNION { { <<i>> \o p : p \in PermSeqs2(S \ {i}) } : i \in S }
Ren(t, f) == IF t.k = "b" THEN [k |-> "b", v |-> <<120, 48 + f[t.v[2] - 47]>>] ELSE t      \* e<i> -> x<f[i+1]>
RenQ(q, f) == <<Ren(q[1], f), q[2], Ren(q[3], f), Ren(q[4], f)>>
Reverse(s) == [i \in 1..Len(s) |-> s[Len(s) + 1 - i]]
VARIABLE done
Init == done = FALSE
Next == done' = TRUE
Spec == Init /\ [][Next]_done
LabelIndependent ==
  \A D \in Universe :
     LET doc == CanonDoc(D, TRUE) IN
     /\ \A f \in (IF Quick THEN {<<2, 3, 4, 5, 1>>, <<5, 4, 3, 2, 1>>, <<2, 1, 4, 3, 5>>} ELSE PermSeqs2(1..5)) : CanonDoc(Reverse([i \in 1..Len(D) |-> RenQ(D[i], f)]), TRUE) = doc
     /\ CanonDoc(D, FALSE) = doc
\* the specification itself is NOT label-independent on the twins (expected to be violated: MC_Rdfc10_twins.cfg), and it says so (amb)
TwinsLabelIndependent == \A f \in PermSeqs2(1..4) : CanonDoc(Reverse([i \in 1..Len(Twins) |-> RenQ(Twins[i], f \o <<5>>)]), TRUE) = CanonDoc(Twins, TRUE)
TwinsAmbiguous == /\ CanonicalRun(Twins, TRUE, NoLimit(Twins)).amb /\ \A D \in Universe : ~CanonicalRun(D, TRUE, NoLimit(D)).amb
                  /\ Cardinality(OutcomeDocs(Twins)) = 2 /\ CanonDoc(Twins, TRUE) \in OutcomeDocs(Twins)
                  \* on the symmetric structures of the universe every choice the text leaves open gives the same document
                  /\ \A D \in Universe : OutcomeDocs(D) = {CanonDoc(D, TRUE)}
====
