SPECIFICATION Spec
INVARIANT OracleOk
CHECK_DEADLOCK FALSE
