SPECIFICATION Spec
POSTCONDITION PostCond
CONSTANTS
  Seed = 0
  Multi = FALSE
  Wide = TRUE
CHECK_DEADLOCK FALSE
