SPECIFICATION Spec
CONSTANTS Shape = "lists"
  MaxQuads = 4
  Mode11C = TRUE
  AlgoC = "fixed"
INVARIANT Emit
CHECK_DEADLOCK FALSE
