---- MODULE LoaderWorld ----
\* The sandboxed world shared by MC_Loader (exhaustive check), Gen_Loader (inputs for the real loader) and Trace_Loader (judge):
\* alphabet of IRI segments, directories and files below the sandbox root, cache configurations.
EXTENDS Naturals, Sequences, FiniteSets
Alphabet == {"", ".", "..", "a", "sub", "srv", "etc", "ok", "ok.ttl", "in.ttl", "secret", "secret.ttl", "pw", "%2e%2e", "..ttl", "subok.ttl", "a.ttl"}
DotNamesC == {".", "..", "ok.ttl", "in.ttl", "secret.ttl", "..ttl", "subok.ttl", "a.ttl"}
\* /srv/a (cache) /srv/a/sub (cache, nested) /srv/b (cache) /srv/secret.ttl /etc/pw.ttl  - files are named by their path
DirsC == {<<"srv">>, <<"srv", "a">>, <<"srv", "a", "sub">>, <<"srv", "b">>, <<"etc">>, <<"srv", "a", "%2e%2e">>}
FilesC == {<<"srv", "a", "ok.ttl">>, <<"srv", "a", "sub", "in.ttl">>, <<"srv", "secret.ttl">>, <<"etc", "pw.ttl">>, <<"srv", "b", "ok.ttl">>,
           <<"srv", "a", "%2e%2e", "ok.ttl">>, <<"srv", "a", "secret.ttl">>, <<"srv", "a", "..ttl">>,
           \* files NEXT to a cache directory whose name starts with the directory's name (<dir>.ttl: what "the directory plus an extension" or a
           \* comparison of path strings instead of path components would reach)
           <<"srv", "a.ttl">>, <<"srv", "b.ttl">>, <<"srv", "a", "sub.ttl">>}
\* What the application ATTEMPTS to configure (LocalLoader::new / add, in this order). A mapping is valid - and only then
\* configured - when the namespace ends with '/', and the path is absolute and names an existing directory (LocalLoader::check);
\* an application that logs a rejected mapping and carries on keeps using the same loader.
\* slash: the namespace string ends with '/';  kind: "dir" absolute existing directory | "file" | "missing" | "relative" (to the current directory)
A(ns, dir) == [ns |-> ns, slash |-> TRUE, dir |-> dir, kind |-> "dir"]
Attempts == <<
  << A(<<"a">>, <<"srv", "a">>) >>,
  << A(<<"a">>, <<"srv", "a">>), A(<<"a", "sub">>, <<"srv", "b">>) >>,
  << A(<<"a", "sub">>, <<"srv", "a", "sub">>), A(<<"a">>, <<"srv", "b">>) >>,
  << A(<<"b">>, <<"srv", "a", "sub">>), A(<<"a", "ok">>, <<"srv", "b">>) >>,
  << A(<<"a">>, <<"srv", "a">>),
     [ns |-> <<"sub">>, slash |-> FALSE, dir |-> <<"srv", "b">>, kind |-> "dir"],
     [ns |-> <<"etc">>, slash |-> TRUE, dir |-> <<"srv", "a", "ok.ttl">>, kind |-> "file"],
     [ns |-> <<"srv">>, slash |-> TRUE, dir |-> <<"srv", "zzz">>, kind |-> "missing"],
     [ns |-> <<"ok">>, slash |-> TRUE, dir |-> <<"srv", "b">>, kind |-> "relative"] >>
>>
Valid(e) == e.slash /\ e.kind = "dir" /\ e.dir \in DirsC
Strip(e) == [ns |-> e.ns, dir |-> e.dir]
RECURSIVE Keep(_, _, _)
Keep(att, flags, i) == IF i > Len(att) THEN <<>> ELSE (IF flags[i] THEN <<Strip(att[i])>> ELSE <<>>) \o Keep(att, flags, i + 1)
\* the configured caches of attempt list c, given which registrations succeeded
Configured(c, flags) == Keep(Attempts[c], flags, 1)
Configs == [c \in 1..Len(Attempts) |-> Configured(c, [i \in 1..Len(Attempts[c]) |-> Valid(Attempts[c][i])])]
====
