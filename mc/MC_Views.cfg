SPECIFICATION Spec
CONSTANTS
  Triples = {ta, tb}
  Names = {g1, g2}
  DG = dg
  Absent = gabs
INVARIANTS FrameCondition ViewsCoherent AsDatasetCoherent
CHECK_DEADLOCK FALSE
