SPECIFICATION Spec
CONSTANTS
  Terms = {t1, t2}
  Inst = {x1, x2, x3}
  MaxCells = 6
  CloneMode = "derived"
INVARIANTS NoUseAfterFree SelfContained NoDangling Bijection
CHECK_DEADLOCK FALSE
