---- MODULE Trace_Sparql ----
\* Trace specification for C13: the bag of solutions (resp. the ASK answer) returned through SparqlWrapper must be the one
\* the SPARQL 1.1 algebra of Sparql.tla defines; unsupported operators must answer NotImplemented; nothing panics.
EXTENDS Sparql, Json, IOUtils
\* the other readings of the three extension points
Alt1 == INSTANCE Sparql WITH LangCmpExt <- LangCmpExt, SameLitExt <- SameLitExt, IllDtExt <- ~IllDtExt
Alt2 == INSTANCE Sparql WITH LangCmpExt <- LangCmpExt, SameLitExt <- ~SameLitExt, IllDtExt <- IllDtExt
Alt3 == INSTANCE Sparql WITH LangCmpExt <- LangCmpExt, SameLitExt <- ~SameLitExt, IllDtExt <- ~IllDtExt
Alt4 == INSTANCE Sparql WITH LangCmpExt <- ~LangCmpExt, SameLitExt <- SameLitExt, IllDtExt <- IllDtExt
Alt5 == INSTANCE Sparql WITH LangCmpExt <- ~LangCmpExt, SameLitExt <- SameLitExt, IllDtExt <- ~IllDtExt
Alt6 == INSTANCE Sparql WITH LangCmpExt <- ~LangCmpExt, SameLitExt <- ~SameLitExt, IllDtExt <- IllDtExt
Alt7 == INSTANCE Sparql WITH LangCmpExt <- ~LangCmpExt, SameLitExt <- ~SameLitExt, IllDtExt <- ~IllDtExt
Rec == ndJsonDeserialize(IOEnv.TRACE)
VARIABLE l
SetOfSeq(s) == {s[i] : i \in 1..Len(s)}
Rows(sols, vars) == [i \in 1..Len(sols) |-> RowOf(sols[i], vars)]
JudgeWith(e, Ans(_, _)) ==
  IF e.ev = "Unsupported" THEN (IF e.res.k = "notimplemented" THEN "ok" ELSE "unsupported-operator-answered")
  ELSE IF e.ev # "Query" THEN "panic"
  ELSE LET D == SetOfSeq(e.d)
           P == e.p
           top == IF P.op = "slice" THEN P.inner ELSE P
       IN IF Overrides(P) THEN (IF e.res.k = "override" THEN "ok" ELSE "rebinding-a-variable-in-scope-not-refused")
          ELSE IF e.res.k \notin {"rows", "bool"} THEN "error-on-supported-query"
          ELSE LET sols == Ans(top, D) IN
               IF e.ask THEN
                  (IF e.res.k # "bool" THEN "wrong-result-kind"
                   ELSE LET n == IF P.op = "slice" THEN SliceSize(Len(sols), P.start, P.len) ELSE Len(sols) IN
                        IF e.res.b = (n > 0) THEN "ok" ELSE "wrong-ask-answer")
               ELSE IF e.res.k # "rows" THEN "wrong-result-kind"
               ELSE IF SetOfSeq(e.res.vars) # InScope(P) \/ Len(e.res.vars) # Cardinality(InScope(P)) THEN "variables-in-scope-differ"
               ELSE LET exp == BagOfSeq(Rows(sols, e.res.vars))
                        got == BagOfSeq(e.res.rows) IN
                    IF P.op = "slice"
                    THEN (IF Len(e.res.rows) # SliceSize(Len(sols), P.start, P.len) THEN "slice-size"
                          ELSE IF ~SubBag(got, exp) THEN "slice-rows-not-from-inner" ELSE "ok")
                    ELSE IF got = exp THEN "ok"
                    ELSE IF SetOfSeq(e.res.rows) = SetOfSeq(Rows(sols, e.res.vars)) THEN "multiplicities-differ"
                    ELSE IF \E r \in SetOfSeq(e.res.rows) : r \notin DOMAIN exp THEN "spurious-solution" ELSE "missing-solution"
Judge(e) == LET v == JudgeWith(e, Answer) IN IF v = "ok" THEN v ELSE IF JudgeWith(e, Alt1!Answer) = "ok" \/ JudgeWith(e, Alt2!Answer) = "ok" \/ JudgeWith(e, Alt3!Answer) = "ok" \/ JudgeWith(e, Alt4!Answer) = "ok" \/ JudgeWith(e, Alt5!Answer) = "ok" \/ JudgeWith(e, Alt6!Answer) = "ok" \/ JudgeWith(e, Alt7!Answer) = "ok" THEN "ok" ELSE v
Init == l = 1
Next == /\ l <= Len(Rec) /\ l' = l + 1
        /\ LET v == Judge(Rec[l]) IN IF v = "ok" THEN TRUE ELSE PrintT(<<"MISMATCH", l, v>>)
Spec == Init /\ [][Next]_l
PostCond == IF TLCGet("stats").diameter - 1 = Len(Rec) THEN TRUE
            ELSE PrintT(<<"TRACE-INCOMPLETE", TLCGet("stats").diameter - 1, Len(Rec)>>)
====
