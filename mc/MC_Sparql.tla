---- MODULE MC_Sparql ----
\* Sanity of the SPARQL algebra transcription (C13 oracle) on three small datasets: the evaluator is not vacuous and obeys
\* algebraic laws (Distinct is idempotent, Union is commutative as a bag, Filter(true) is the identity, projection on all
\* in-scope variables is the identity, GRAPH ?g over a dataset without named graphs has no solution).
EXTENDS Sparql
I(x) == [k |-> "iri", v |-> x]
Ta == I(<<97>>)  Tb == I(<<98>>)  Pp == I(<<112>>)  G1 == I(<<103, 49>>)
L1 == [k |-> "lit", lex |-> <<49>>, dt |-> XsdInteger, lang |-> <<>>]
D1 == {<<Ta, Pp, Tb, DG>>, <<Ta, Pp, L1, DG>>, <<Tb, Pp, Ta, G1>>, <<Ta, Pp, Tb, G1>>}
D2 == {<<Ta, Pp, Ta, DG>>}
D3 == {}
Vr(n) == [var |-> n]
T(t) == [term |-> t]
Bgp1 == [op |-> "bgp", tps |-> << <<Vr("x"), T(Pp), Vr("y")>> >>]
Bgp2 == [op |-> "bgp", tps |-> << <<Vr("x"), T(Pp), Vr("x")>> >>]
Bgp3 == [op |-> "bgp", tps |-> << <<Vr("x"), T(Pp), Vr("y")>>, <<Vr("y"), T(Pp), Vr("z")>> >>]
Pats == {Bgp1, Bgp2, Bgp3, [op |-> "union", l |-> Bgp1, r |-> Bgp2], [op |-> "graphv", v |-> "g", inner |-> Bgp1]}
TrueE == [op |-> "const", term |-> [k |-> "lit", lex |-> <<116, 114, 117, 101>>, dt |-> XsdBoolean, lang |-> <<>>]]
VARIABLE done
Init == done = FALSE
Next == done' = TRUE
Spec == Init /\ [][Next]_done
Laws ==
  /\ \A D \in {D1, D2, D3}, P \in Pats :
       /\ BagOfSeq(Answer([op |-> "distinct", inner |-> [op |-> "distinct", inner |-> P]], D)) = BagOfSeq(Answer([op |-> "distinct", inner |-> P], D))
       /\ BagOfSeq(Answer([op |-> "filter", e |-> TrueE, inner |-> P], D)) = BagOfSeq(Answer(P, D))
       /\ \A Q \in Pats : BagOfSeq(Answer([op |-> "union", l |-> P, r |-> Q], D)) = BagOfSeq(Answer([op |-> "union", l |-> Q, r |-> P], D))
       /\ \A i \in 1..Len(Answer(P, D)) : {k[2] : k \in DOMAIN Answer(P, D)[i]} \subseteq InScope(P)
  /\ Answer([op |-> "graphv", v |-> "g", inner |-> Bgp1], D2) = <<>>
  /\ Len(Answer(Bgp1, D1)) = 2 /\ Len(Answer([op |-> "graphv", v |-> "g", inner |-> Bgp1], D1)) = 2 /\ Len(Answer(Bgp3, D1)) = 0
  /\ Len(Answer(Bgp2, D2)) = 1
  \* quoted-triple patterns: variables inside << >> are those of the group; a quoted-triple pattern only matches quoted triples;
  \* a pattern with every component a fresh variable matches exactly the quoted-triple objects, binding their components
  /\ LET Q1 == [k |-> "triple", s |-> Ta, p |-> Pp, o |-> Tb]
         D4 == {<<Ta, Pp, Q1, DG>>, <<Tb, Pp, Ta, DG>>, <<Q1, Pp, L1, DG>>}
         qt(a, b, c) == [qt |-> <<a, b, c>>]
         ObjQ == [op |-> "bgp", tps |-> << <<Vr("s"), T(Pp), qt(Vr("x"), Vr("y"), Vr("z"))>> >>]
         Shared == [op |-> "bgp", tps |-> << <<Vr("x"), T(Pp), qt(Vr("x"), Vr("y"), Vr("z"))>> >>]
         Clash == [op |-> "bgp", tps |-> << <<Vr("z"), T(Pp), qt(Vr("x"), Vr("y"), Vr("z"))>> >>]
         SubjQ == [op |-> "bgp", tps |-> << <<qt(Vr("x"), T(Pp), Vr("z")), Vr("p"), Vr("o")>> >>]
     IN /\ Len(Answer(ObjQ, D4)) = 1 /\ Answer(ObjQ, D4)[1][<<"v", "x">>] = Ta /\ Answer(ObjQ, D4)[1][<<"v", "z">>] = Tb
        /\ Len(Answer(Shared, D4)) = 1          \* ?x = <a> outside and inside
        /\ Len(Answer(Clash, D4)) = 0           \* ?z would be <a> outside and <b> inside
        /\ Len(Answer(SubjQ, D4)) = 1 /\ Answer(SubjQ, D4)[1][<<"v", "o">>] = L1
        /\ InScope(Shared) = {"x", "y", "z"}
  \* unary minus is an involution on integers of any size, and the order relation of dateTimes is irreflexive and asymmetric
  /\ LET big == [k |-> "lit", lex |-> <<45,57,50,50,51,51,55,50,48,51,54,56,53,52,55,55,53,56,48,56>>, dt |-> XsdInteger, lang |-> <<>>]
         c(t) == [op |-> "const", term |-> t]
         neg(e) == [op |-> "neg", a |-> e]
     IN /\ EvalE(neg(neg(c(big))), << >>) = V(big) /\ EvalE(neg(c(big)), << >>).v.lex = SubSeq(big.lex, 2, Len(big.lex))
        /\ EvalE(neg(neg(c(L1))), << >>) = V(L1) /\ EvalE(neg(c(Ta)), << >>) = Err
  /\ LET dt(x) == [k |-> "lit", lex |-> x, dt |-> XsdDateTime, lang |-> <<>>]
         A == dt(<<50,48,50,48,45,48,49,45,48,49,84,49,48,58,48,48,58,48,48,43,48,53,58,48,48>>)      \* 2020-01-01T10:00:00+05:00
         Bz == dt(<<50,48,50,48,45,48,49,45,48,49,84,48,56,58,48,48,58,48,48,90>>)                    \* 2020-01-01T08:00:00Z
         N == dt(<<50,48,50,48,45,48,49,45,48,49,84,48,57,58,48,48,58,48,48>>)                        \* 2020-01-01T09:00:00
     IN /\ LtV(A, Bz) = B(TRUE) /\ LtV(Bz, A) = B(FALSE) /\ LtV(A, A) = B(FALSE) /\ EqV(A, A) = B(TRUE)
        /\ LtV(N, Bz) = Err /\ EqV(N, Bz) = Err /\ EqV(A, Bz) = B(FALSE)
====
