---- MODULE MC_Sparql ----
\* Sanity of the SPARQL algebra transcription (C13 oracle) on three small datasets: the evaluator is not vacuous and obeys
\* algebraic laws (Distinct is idempotent, Union is commutative as a bag, Filter(true) is the identity, projection on all
\* in-scope variables is the identity, GRAPH ?g over a dataset without named graphs has no solution).
EXTENDS Sparql
I(x) == [k |-> "iri", v |-> x]
Ta == I(<<97>>)  Tb == I(<<98>>)  Pp == I(<<112>>)  G1 == I(<<103, 49>>)
L1 == [k |-> "lit", lex |-> <<49>>, dt |-> XsdInteger, lang |-> <<>>]
D1 == {<<Ta, Pp, Tb, DG>>, <<Ta, Pp, L1, DG>>, <<Tb, Pp, Ta, G1>>, <<Ta, Pp, Tb, G1>>}
D2 == {<<Ta, Pp, Ta, DG>>}
D3 == {}
Vr(n) == [var |-> n]
T(t) == [term |-> t]
Bgp1 == [op |-> "bgp", tps |-> << <<Vr("x"), T(Pp), Vr("y")>> >>]
Bgp2 == [op |-> "bgp", tps |-> << <<Vr("x"), T(Pp), Vr("x")>> >>]
Bgp3 == [op |-> "bgp", tps |-> << <<Vr("x"), T(Pp), Vr("y")>>, <<Vr("y"), T(Pp), Vr("z")>> >>]
Pats == {Bgp1, Bgp2, Bgp3, [op |-> "union", l |-> Bgp1, r |-> Bgp2], [op |-> "graphv", v |-> "g", inner |-> Bgp1]}
TrueE == [op |-> "const", term |-> [k |-> "lit", lex |-> <<116, 114, 117, 101>>, dt |-> XsdBoolean, lang |-> <<>>]]
VARIABLE done
Init == done = FALSE
Next == done' = TRUE
Spec == Init /\ [][Next]_done
Laws ==
  /\ \A D \in {D1, D2, D3}, P \in Pats :
       /\ BagOfSeq(Answer([op |-> "distinct", inner |-> [op |-> "distinct", inner |-> P]], D)) = BagOfSeq(Answer([op |-> "distinct", inner |-> P], D))
       /\ BagOfSeq(Answer([op |-> "filter", e |-> TrueE, inner |-> P], D)) = BagOfSeq(Answer(P, D))
       /\ \A Q \in Pats : BagOfSeq(Answer([op |-> "union", l |-> P, r |-> Q], D)) = BagOfSeq(Answer([op |-> "union", l |-> Q, r |-> P], D))
       /\ \A i \in 1..Len(Answer(P, D)) : {k[2] : k \in DOMAIN Answer(P, D)[i]} \subseteq InScope(P)
  /\ Answer([op |-> "graphv", v |-> "g", inner |-> Bgp1], D2) = <<>>
  /\ Len(Answer(Bgp1, D1)) = 2 /\ Len(Answer([op |-> "graphv", v |-> "g", inner |-> Bgp1], D1)) = 2 /\ Len(Answer(Bgp3, D1)) = 0
  /\ Len(Answer(Bgp2, D2)) = 1
====
