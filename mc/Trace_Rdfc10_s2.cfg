SPECIFICATION Spec
POSTCONDITION PostCond
CONSTANTS
  Seed = 2
  Multi = FALSE
  Wide = FALSE
CHECK_DEADLOCK FALSE
