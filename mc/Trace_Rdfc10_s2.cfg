SPECIFICATION Spec
POSTCONDITION PostCond
CONSTANTS
  Seed = 2
  Multi = FALSE
CHECK_DEADLOCK FALSE
