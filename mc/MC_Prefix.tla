---- MODULE MC_Prefix ----
\* Every prefix map of <= 3 pairs over 3 prefixes and 5 namespaces x every IRI of the pool x 2 suffix checks
EXTENDS Prefix, TLC
VARIABLES map, iri, chk
Prefixes == {<<>>, <<97>>, <<97, 98>>}
Namespaces == {<<104, 58>>, <<104, 58, 47>>, <<104, 58, 47, 97>>, <<104, 58, 47, 97, 47>>, <<120, 58>>}
Iris == {<<104, 58>>, <<104, 58, 47>>, <<104, 58, 47, 97>>, <<104, 58, 47, 97, 47, 98>>, <<104, 58, 47, 98>>, <<120, 58, 121>>, <<121, 58>>}
Pairs == [p : Prefixes, ns : Namespaces]
Maps == {<<>>} \cup {<<a>> : a \in Pairs} \cup {<<a, b>> : a, b \in Pairs} \cup {<<a, b, c>> : a, b, c \in Pairs}
AnySuffix(s) == TRUE
NonEmptyNoSlash(s) == Len(s) > 0 /\ \A i \in 1..Len(s) : s[i] # 47
Init == map \in Maps /\ iri \in Iris /\ chk \in {"any", "local"}
Next == UNCHANGED <<map, iri, chk>>
Spec == Init /\ [][Next]_<<map, iri, chk>>
Laws == IF chk = "any" THEN Sound(map, iri, AnySuffix) /\ Complete(map, iri, AnySuffix)
        ELSE Sound(map, iri, NonEmptyNoSlash) /\ Complete(map, iri, NonEmptyNoSlash)
====
