---- MODULE StackA ----
\* Apalache version of spec/Stack.tla (same actions) with type annotations and an inductive invariant:
\* for EVERY Size and Nest (unbounded), the loop style keeps peak <= Base + Nest.
EXTENDS Integers
CONSTANTS
  \* @type: Int;
  Size,
  \* @type: Int;
  Nest,
  \* @type: Int;
  Base
VARIABLES
  \* @type: Int;
  left,
  \* @type: Int;
  level,
  \* @type: Int;
  depth,
  \* @type: Int;
  peak
ConstInit == Size \in Nat /\ Nest \in Nat /\ Base \in Nat
Max(a, b) == IF a > b THEN a ELSE b
Init == left = Size /\ level = 0 /\ depth = Base /\ peak = Base
Step == /\ left > 0 /\ left' = left - 1 /\ level' = level
        /\ depth' = depth                         \* Style = "loop"
        /\ peak' = Max(peak, depth')
Enter == /\ level < Nest /\ level' = level + 1 /\ left' = left
         /\ depth' = depth + 1 /\ peak' = Max(peak, depth')
Return == /\ left = 0 /\ depth > Base /\ depth' = Base /\ UNCHANGED <<left, level, peak>>
Stutter == UNCHANGED <<left, level, depth, peak>>
Next == Step \/ Enter \/ Return \/ Stutter
StackIndependentOfSize == peak <= Base + Nest
IndInv == /\ 0 <= left /\ left <= Size /\ 0 <= level /\ level <= Nest
          /\ Base <= depth /\ depth <= Base + level /\ Base <= peak /\ peak <= Base + level /\ depth <= peak
IndInit == left \in Int /\ level \in Int /\ depth \in Int /\ peak \in Int /\ IndInv
====
