SPECIFICATION Spec
CONSTANTS
  Seed = 0
  Multi = FALSE
  Wide = FALSE
  Quick = TRUE
INVARIANT LabelIndependent
INVARIANT TwinsAmbiguous
CHECK_DEADLOCK FALSE
