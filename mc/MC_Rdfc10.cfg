SPECIFICATION Spec
CONSTANTS
  Seed = 0
  Multi = FALSE
  Quick = TRUE
INVARIANT LabelIndependent
CHECK_DEADLOCK FALSE
