SPECIFICATION Spec
CONSTANTS
  Terms = {t1, t2}
  DG = dg
  MAXI = 2
INVARIANTS Refines Coherent IndexOk QueryCorrect
CONSTRAINT Bound
CHECK_DEADLOCK FALSE
