---- MODULE Gen_Streams ----
\* Prints every pipeline of the model once (one initial state each); the harness instantiates each of them
\* on the real combinators.
EXTENDS Streams, Json
GInit == Init /\ PrintT(ToJson([tag |-> "PIPE", src |-> Src, k |-> K, chain |-> Chain, j |-> J]))
GSpec == GInit /\ [][FALSE]_vars
====
