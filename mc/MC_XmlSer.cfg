SPECIFICATION Spec
CONSTANTS MaxLen = 5
  NodeIdRule = "fixed"
INVARIANT Laws
CHECK_DEADLOCK FALSE
