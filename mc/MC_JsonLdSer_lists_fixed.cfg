SPECIFICATION Spec
CONSTANTS Shape = "lists"
  MaxQuads = 6
  Mode11C = TRUE
  AlgoC = "fixed"
INVARIANT RoundTrips
CHECK_DEADLOCK FALSE
