SPECIFICATION Spec
POSTCONDITION PostCond
CHECK_DEADLOCK FALSE
CONSTANT NodeIdRule = "fixed"
