SPECIFICATION Spec
POSTCONDITION PostCond
CHECK_DEADLOCK FALSE
CONSTANTS LangCmpExt = TRUE
  SameLitExt = TRUE
  IllDtExt = TRUE
