---- MODULE Trace_RoundTrip ----
\* Trace specification for C04 (Turtle/TriG, streaming and pretty, every prefix map and indentation), C12 (JSON-LD) and
\* C18 (RDF/XML): the emitted document must parse, and its parse must be ISOMORPHIC (brute force over blank-node
\* bijections, Iso.tla) to the input restricted to what the format can express: every quad present exactly once with the
\* same IRIs, lexical forms, datatypes, language tags and graph names, blank nodes renamed consistently.
EXTENDS Iso, Json, IOUtils
Rec == ndJsonDeserialize(IOEnv.TRACE)
VARIABLE l
SetOfSeq(s) == {s[i] : i \in 1..Len(s)}
\* ---- what each format can express ----
JsonLdExpressible(q) == q[1].k \in {"iri", "bnode"} /\ q[2].k = "iri" /\ q[3].k \in {"iri", "bnode", "lit"} /\ q[4].k \in {"dg", "iri", "bnode"}
\* XML NCName (ASCII letters, digits, '-', '.', '_' and everything >= 0xC0 as name characters; must not start with digit, '-', '.')
NameStart(c) == (c >= 65 /\ c <= 90) \/ (c >= 97 /\ c <= 122) \/ c = 95 \/ c >= 192
NameChar(c) == NameStart(c) \/ (c >= 48 /\ c <= 57) \/ c = 45 \/ c = 46 \/ c = 183
HasNcNameSuffix(v) == \E i \in 1..Len(v) : NameStart(v[i]) /\ \A j \in i..Len(v) : NameChar(v[j])
XmlExpressible(q) == q[1].k \in {"iri", "bnode"} /\ q[2].k = "iri" /\ HasNcNameSuffix(q[2].v) /\ q[3].k \in {"iri", "bnode", "lit"} /\ q[4].k = "dg"
\* XML 1.0 Char
XmlChar(c) == c \in {9, 10, 13} \/ (c >= 32 /\ c <= 55295) \/ (c >= 57344 /\ c <= 65533) \/ c >= 65536
TextLegal(q) == \A j \in 1..3 : q[j].k = "lit" => \A i \in 1..Len(q[j].lex) : XmlChar(q[j].lex[i])
JudgeOut(e, o, D) ==
  IF ~o.ok THEN (IF e.serok THEN "output-does-not-parse" ELSE "serializer-failed")
  ELSE IF Len(o.quads) # Cardinality({NormQ(q) : q \in SetOfSeq(o.quads)}) THEN "statement-written-twice"
  ELSE IF Cardinality({NormQ(q) : q \in SetOfSeq(o.quads)}) < Cardinality({NormQ(q) : q \in D}) THEN "statements-lost"
  ELSE IF Cardinality({NormQ(q) : q \in SetOfSeq(o.quads)}) > Cardinality({NormQ(q) : q \in D}) THEN "statements-invented"
  ELSE IF ~Isomorphic(D, SetOfSeq(o.quads)) THEN "not-isomorphic"
  ELSE "ok"
Judge(e) ==
  IF e.ev = "Died" THEN "process-died-or-hung"
  ELSE IF e.ev # "RT" THEN "panic"
  ELSE IF e.fmt \in {"turtle", "trig"} THEN JudgeOut(e, e.out, SetOfSeq(e["in"]))
  ELSE IF e.fmt = "jsonld" THEN JudgeOut(e, e.out, {q \in SetOfSeq(e["in"]) : JsonLdExpressible(q)})
  ELSE \* RDF/XML: Err always allowed unless everything is expressible and XML-legal; result independent of the indentation
       LET D == {q \in SetOfSeq(e["in"]) : XmlExpressible(q)}
           allOk == \A q \in SetOfSeq(e["in"]) : XmlExpressible(q) /\ TextLegal(q)
           bad == {i \in 1..Len(e.outs) : e.outs[i].serok /\ JudgeOut([serok |-> TRUE], e.outs[i].out, D) # "ok"}
       IN IF \E i \in 1..Len(e.outs) : ~e.outs[i].serok /\ allOk THEN "serializer-refuses-an-expressible-graph"
          ELSE IF bad # {} THEN JudgeOut([serok |-> TRUE], e.outs[CHOOSE i \in bad : \A j \in bad : i <= j].out, D)
          ELSE IF \E i, j \in 1..Len(e.outs) : e.outs[i].serok # e.outs[j].serok THEN "indentation-changes-the-outcome"
          ELSE "ok"
Init == l = 1
Next == /\ l <= Len(Rec) /\ l' = l + 1
        /\ LET v == Judge(Rec[l]) IN IF v = "ok" THEN TRUE ELSE PrintT(<<"MISMATCH", l, v>>)
Spec == Init /\ [][Next]_l
PostCond == IF TLCGet("stats").diameter - 1 = Len(Rec) THEN TRUE
            ELSE PrintT(<<"TRACE-INCOMPLETE", TLCGet("stats").diameter - 1, Len(Rec)>>)
====
