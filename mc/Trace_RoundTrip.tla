---- MODULE Trace_RoundTrip ----
\* Trace specification for C04 (Turtle/TriG, streaming and pretty, every prefix map and indentation), C12 (JSON-LD) and
\* C18 (RDF/XML): the emitted document must parse, and its parse must be ISOMORPHIC (brute force over blank-node
\* bijections, Iso.tla) to the input restricted to what the format can express: every quad present exactly once with the
\* same IRIs, lexical forms, datatypes, language tags and graph names, blank nodes renamed consistently.
EXTENDS Iso, XmlSer, Json, IOUtils, SequencesExt
Rec == ndJsonDeserialize(IOEnv.TRACE)
VARIABLE l
SetOfSeq(s) == {s[i] : i \in 1..Len(s)}
\* ---- what each format can express ----
JsonLdExpressible(q) == q[1].k \in {"iri", "bnode"} /\ q[2].k = "iri" /\ q[3].k \in {"iri", "bnode", "lit"} /\ q[4].k \in {"dg", "iri", "bnode"}
\* XML NCName (ASCII letters, digits, '-', '.', '_' and everything >= 0xC0 as name characters; must not start with digit, '-', '.')
XmlExpressible(q) == q[1].k \in {"iri", "bnode"} /\ q[2].k = "iri" /\ HasNcNameSuffix(q[2].v) /\ ~Reserved(q[2].v) /\ q[3].k \in {"iri", "bnode", "lit"} /\ q[4].k = "dg"
\* XML 1.0 Char
XmlChar(c) == c \in {9, 10, 13} \/ (c >= 32 /\ c <= 55295) \/ (c >= 57344 /\ c <= 65533) \/ c >= 65536
TextLegal(q) == \A j \in 1..3 : q[j].k = "lit" => \A i \in 1..Len(q[j].lex) : XmlChar(q[j].lex[i])
RdfType == <<104, 116, 116, 112, 58, 47, 47, 119, 119, 119, 46, 119, 51, 46, 111, 114, 103, 47, 49, 57, 57, 57, 47, 48, 50, 47, 50, 50, 45, 114, 100, 102, 45, 115, 121, 110, 116, 97, 120, 45, 110, 115, 35, 116, 121, 112, 101>> \* rdf:type
RdfList == <<104, 116, 116, 112, 58, 47, 47, 119, 119, 119, 46, 119, 51, 46, 111, 114, 103, 47, 49, 57, 57, 57, 47, 48, 50, 47, 50, 50, 45, 114, 100, 102, 45, 115, 121, 110, 116, 97, 120, 45, 110, 115, 35, 76, 105, 115, 116>> \* rdf:List
RdfFirst == <<104, 116, 116, 112, 58, 47, 47, 119, 119, 119, 46, 119, 51, 46, 111, 114, 103, 47, 49, 57, 57, 57, 47, 48, 50, 47, 50, 50, 45, 114, 100, 102, 45, 115, 121, 110, 116, 97, 120, 45, 110, 115, 35, 102, 105, 114, 115, 116>> \* rdf:first
RdfRest == <<104, 116, 116, 112, 58, 47, 47, 119, 119, 119, 46, 119, 51, 46, 111, 114, 103, 47, 49, 57, 57, 57, 47, 48, 50, 47, 50, 50, 45, 114, 100, 102, 45, 115, 121, 110, 116, 97, 120, 45, 110, 115, 35, 114, 101, 115, 116>> \* rdf:rest
I18nNs == <<104, 116, 116, 112, 115, 58, 47, 47, 119, 119, 119, 46, 119, 51, 46, 111, 114, 103, 47, 110, 115, 47, 105, 49, 56, 110, 35>> \* https://www.w3.org/ns/i18n#
RdfValue == <<104, 116, 116, 112, 58, 47, 47, 119, 119, 119, 46, 119, 51, 46, 111, 114, 103, 47, 49, 57, 57, 57, 47, 48, 50, 47, 50, 50, 45, 114, 100, 102, 45, 115, 121, 110, 116, 97, 120, 45, 110, 115, 35, 118, 97, 108, 117, 101>> \* rdf:value
RdfDirection == <<104, 116, 116, 112, 58, 47, 47, 119, 119, 119, 46, 119, 51, 46, 111, 114, 103, 47, 49, 57, 57, 57, 47, 48, 50, 47, 50, 50, 45, 114, 100, 102, 45, 115, 121, 110, 116, 97, 120, 45, 110, 115, 35, 100, 105, 114, 101, 99, 116, 105, 111, 110>> \* rdf:direction
RdfLanguage == <<104, 116, 116, 112, 58, 47, 47, 119, 119, 119, 46, 119, 51, 46, 111, 114, 103, 47, 49, 57, 57, 57, 47, 48, 50, 47, 50, 50, 45, 114, 100, 102, 45, 115, 121, 110, 116, 97, 120, 45, 110, 115, 35, 108, 97, 110, 103, 117, 97, 103, 101>> \* rdf:language
StartsWith(v, pre) == Len(v) >= Len(pre) /\ SubSeq(v, 1, Len(pre)) = pre
\* --- named deviations of the third-party JSON-LD processor (json-ld-core 0.15.1) used by the parser ---
\* (a) rdfDirection=i18n-datatype, no language: it writes i18n#<dir> where JSON-LD 1.1 (toRdf 13.3.1) prescribes i18n#_<dir>
LibI18n(t) == IF t.k = "lit" /\ StartsWith(t.dt, I18nNs \o <<95>>) THEN [t EXCEPT !.dt = I18nNs \o SubSeq(t.dt, Len(I18nNs) + 2, Len(t.dt))] ELSE t
\* (b) rdfDirection=compound-literal: it mints the blank node but never emits its rdf:value / rdf:direction / rdf:language statements
IsCL(D, c, g) == LET P == {q \in D : q[1] = c /\ q[4] = g} IN
    /\ c.k = "bnode" /\ P # {}
    /\ \A q \in P : q[2].v \in {RdfValue, RdfDirection, RdfLanguage} /\ q[3].k = "lit"
    /\ \A pv \in {RdfValue, RdfDirection} : Cardinality({q \in P : q[2].v = pv}) = 1
    /\ Cardinality({q \in P : q[2].v = RdfLanguage}) <= 1
    /\ \A q \in D : q[1] = c => q[4] = g                              \* described in this graph only
    /\ \A q \in D : q[4] # c                                          \* does not name a graph
    /\ Cardinality({q \in D : q[3] = c}) = 1 /\ \E q \in D : q[3] = c /\ q[4] = g  \* referenced exactly once, from that graph
CLQuads(D) == {q \in D : IsCL(D, q[1], q[4])}
CLObj(D, c, g) == LET f(pv) == LET S == {q \in D : q[1] = c /\ q[4] = g /\ q[2].v = pv} IN IF S = {} THEN <<>> ELSE (CHOOSE q \in S : TRUE)[3].lex
                  IN [v |-> f(RdfValue), lang |-> f(RdfLanguage), dir |-> f(RdfDirection)]
I18nObj(t) == LET rest == SubSeq(t.dt, Len(I18nNs) + 1, Len(t.dt))
                  u == CHOOSE i \in 1..Len(rest) : rest[i] = 95 /\ \A j \in 1..(i-1) : rest[j] # 95
              IN [v |-> t.lex, lang |-> SubSeq(rest, 1, u - 1), dir |-> SubSeq(rest, u + 1, Len(rest))]
IsI18nDir(t) == t.k = "lit" /\ StartsWith(t.dt, I18nNs) /\ \E i \in (Len(I18nNs) + 1)..(Len(t.dt) - 1) : t.dt[i] = 95
\* the document, as tokenised by the harness (names of elements and attributes; raw character data and attribute values)
Digit(c) == c >= 48 /\ c <= 57
Hex(c) == Digit(c) \/ (c >= 65 /\ c <= 70) \/ (c >= 97 /\ c <= 102)
RefBody(b) == \/ b \in {<<97, 109, 112>>, <<108, 116>>, <<103, 116>>, <<113, 117, 111, 116>>, <<97, 112, 111, 115>>}
              \/ (Len(b) >= 2 /\ b[1] = 35 /\ \A k \in 2..Len(b) : Digit(b[k]))
              \/ (Len(b) >= 3 /\ b[1] = 35 /\ b[2] = 120 /\ \A k \in 3..Len(b) : Hex(b[k]))
ChunkLegal(v) == \A i \in 1..Len(v) : /\ XmlChar(v[i]) /\ v[i] # 60
                                      /\ (v[i] = 38 => \E j \in (i + 2)..Len(v) : v[j] = 59 /\ (\A k \in (i + 1)..(j - 1) : v[k] # 59) /\ RefBody(SubSeq(v, i + 1, j - 1)))
WellFormedDoc(o) == o.lexok /\ (\A i \in 1..Len(o.names) : IsQName(o.names[i])) /\ (\A i \in 1..Len(o.chunks) : ChunkLegal(o.chunks[i]))
\* named deviation of the third-party RDF/XML parser (rio_xml 0.8 parser.rs:670): character data made of white space only is dropped
WsOnly(t) == t.k = "lit" /\ Len(t.lex) > 0 /\ \A i \in 1..Len(t.lex) : t.lex[i] \in {32, 9, 10, 13}
LibWs(q) == IF WsOnly(q[3]) THEN <<q[1], q[2], [q[3] EXCEPT !.lex = <<>>], q[4]>> ELSE q
JudgeOut(e, o, D) ==
  IF ~o.ok THEN (IF e.serok THEN "output-does-not-parse" ELSE "serializer-failed")
  ELSE IF Len(o.quads) # Cardinality({NormQ(q) : q \in SetOfSeq(o.quads)}) THEN "statement-written-twice"
  ELSE IF Cardinality({NormQ(q) : q \in SetOfSeq(o.quads)}) < Cardinality({NormQ(q) : q \in D}) THEN "statements-lost"
  ELSE IF Cardinality({NormQ(q) : q \in SetOfSeq(o.quads)}) > Cardinality({NormQ(q) : q \in D}) THEN "statements-invented"
  ELSE IF ~Isomorphic(D, SetOfSeq(o.quads)) THEN "not-isomorphic"
  ELSE "ok"
Judge(e) ==
  IF e.ev = "Died" THEN "process-died-or-hung"
  ELSE IF e.ev # "RT" THEN "panic"
  ELSE IF e.fmt \in {"turtle", "trig"} THEN JudgeOut(e, e.out, SetOfSeq(e["in"]))
  ELSE IF e.fmt = "jsonld" THEN
       LET D == {q \in SetOfSeq(e["in"]) : JsonLdExpressible(q)}
           v == JudgeOut(e, e.out, D)
           \* named deviation (W3C "Serialize RDF as JSON-LD", step 6.4: a list cell may carry rdf:type rdf:List, which @list does not keep)
           T == {q \in D : /\ q[1].k = "bnode" /\ q[2].v = RdfType /\ q[3].k = "iri" /\ q[3].v = RdfList
                            /\ \E a, b \in D : /\ a[1] = q[1] /\ a[4] = q[4] /\ a[2].v = RdfFirst
                                                /\ b[1] = q[1] /\ b[4] = q[4] /\ b[2].v = RdfRest}
           \* what the document itself must say about base directions (bag of value objects with @direction)
           wantDir == IF e.opts.dir = 1 THEN {<<q, I18nObj(q[3])>> : q \in {q \in D : IsI18nDir(q[3])}}
                      ELSE IF e.opts.dir = 2 THEN {<<q, CLObj(D, q[1], q[4])>> : q \in {q \in CLQuads(D) : q[2].v = RdfValue}}
                      ELSE {}
           dirOk == /\ Len(e.dirobjs) = Cardinality(wantDir)
                    /\ \A w \in wantDir : Cardinality({x \in wantDir : x[2] = w[2]}) = Cardinality({i \in 1..Len(e.dirobjs) : e.dirobjs[i] = w[2]})
           Dlib == IF e.opts.dir = 1 THEN {<<q[1], q[2], LibI18n(q[3]), q[4]>> : q \in D}
                   ELSE IF e.opts.dir = 2 THEN D \ CLQuads(D) ELSE D
           devName == IF e.opts.dir = 1 THEN "lib-deviation:i18n-datatype-without-language" ELSE "lib-deviation:compound-literal-statements-not-emitted"
       IN IF ~e.serok \/ ~e.out.ok THEN v
          ELSE IF ~dirOk THEN "document-has-wrong-direction-objects"
          ELSE IF v = "ok" THEN v
          ELSE IF ~e.opts.use_rdf_type /\ \E S \in SUBSET T : S # {} /\ JudgeOut(e, e.out, D \ S) = "ok" THEN "typed-list-cell-loses-rdf-type"
          ELSE IF Dlib # D /\ JudgeOut(e, e.out, Dlib) = "ok" THEN devName
          ELSE IF Dlib # D /\ ~e.opts.use_rdf_type /\ \E S \in SUBSET T : S # {} /\ JudgeOut(e, e.out, Dlib \ S) = "ok" THEN devName
          ELSE v
  ELSE \* RDF/XML: Err always allowed unless everything is expressible and XML-legal; result independent of the indentation
       LET D == {q \in SetOfSeq(e["in"]) : XmlExpressible(q)}
           allOk == \A q \in SetOfSeq(e["in"]) : XmlExpressible(q) /\ TextLegal(q)
           Dlib == {LibWs(q) : q \in D}
           J(o) == LET v == JudgeOut([serok |-> TRUE], o.out, D)
                       \* the property elements are the specified split of a predicate of the graph (XmlSer.tla!SplitIri)
                       splitOk == \A i \in 1..Len(o.props) : LET iri == o.props[i].ns \o o.props[i].name IN
                                     /\ SplitIri(iri) = [ns |-> o.props[i].ns, local |-> o.props[i].name]
                                     /\ \E q \in D : q[2].v = iri
                   IN IF ~WellFormedDoc(o) THEN "document-not-well-formed"
                      ELSE IF ~splitOk THEN "property-element-is-not-the-specified-split"
                      ELSE IF v = "ok" THEN v
                      ELSE IF o.out.ok /\ Dlib # D /\ JudgeOut([serok |-> TRUE], [o.out EXCEPT !.quads = SetToSeq(SetOfSeq(o.out.quads))], Dlib) = "ok"
                           /\ Len(o.out.quads) = Cardinality(D) THEN "lib-deviation:whitespace-only-literal-read-as-empty"
                      ELSE v
           bad == {i \in 1..Len(e.outs) : e.outs[i].serok /\ J(e.outs[i]) # "ok"}
           worse == {i \in bad : J(e.outs[i]) # "lib-deviation:whitespace-only-literal-read-as-empty"}
           First(S) == CHOOSE i \in S : \A j \in S : i <= j
       IN IF \E i \in 1..Len(e.faults) : e.faults[i].panicked THEN "panic-on-failing-sink"
          ELSE IF \E i \in 1..Len(e.faults) : e.faults[i].ok /\ ~e.faults[i].complete THEN "success-reported-but-sink-holds-a-truncated-document"
          ELSE IF \E i \in 1..Len(e.faults) : ~e.faults[i].ok /\ e.faults[i].limit >= e.faults[i].len THEN "serializer-fails-on-a-healthy-sink"
          ELSE IF \E i \in 1..Len(e.outs) : ~e.outs[i].serok /\ allOk THEN "serializer-refuses-an-expressible-graph"
          ELSE IF worse # {} THEN J(e.outs[First(worse)])
          ELSE IF \E i, j \in 1..Len(e.outs) : e.outs[i].serok # e.outs[j].serok THEN "indentation-changes-the-outcome"
          ELSE IF bad # {} THEN J(e.outs[First(bad)])
          ELSE "ok"
Init == l = 1
Next == /\ l <= Len(Rec) /\ l' = l + 1
        /\ LET v == Judge(Rec[l]) IN IF v = "ok" THEN TRUE ELSE PrintT(<<"MISMATCH", l, v>>)
Spec == Init /\ [][Next]_l
PostCond == IF TLCGet("stats").diameter - 1 = Len(Rec) THEN TRUE
            ELSE PrintT(<<"TRACE-INCOMPLETE", TLCGet("stats").diameter - 1, Len(Rec)>>)
====
