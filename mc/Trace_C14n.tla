---- MODULE Trace_C14n ----
\* Trace specification for C05: canonical N-Quads is a complete isomorphism invariant.
\* One event = one batch of datasets (a structure, relabelled/reordered copies in other containers, neighbours).
\*  - for every pair of members on which canonicalisation succeeded: equal documents <=> isomorphic datasets
\*  - each document, read back by the independent reader NQuads.tla, is isomorphic to its input, uses exactly the labels
\*    c14n0..c14n(n-1), and its lines are sorted in code-point order without duplicates
\*  - the identifier map is a bijection from the input's labels onto those names and applying it gives the returned quads
EXTENDS Iso, Json, IOUtils
NQ == INSTANCE NQuads
\* the transcription of the W3C algorithm (toy hash): used here only to recognise the inputs on which the ALGORITHM leaves the result
\* open (Rdfc10!OutcomeDocs: a tie at step 5.3 or 5.4.6 between alternatives that are no automorphic images) - the one class of inputs on which an
\* implementation that follows RDFC-1.0 to the letter cannot be label-independent
R == INSTANCE Rdfc10 WITH Seed <- 0, Multi <- FALSE, Wide <- FALSE
RConv(t) == IF t.k = "iri" THEN [k |-> "i", v |-> t.v]
            ELSE IF t.k = "bnode" THEN [k |-> "b", v |-> t.v]
            ELSE IF t.k = "lit" THEN [k |-> "l", lex |-> t.lex, dt |-> t.dt, lang |-> t.lang]
            ELSE [k |-> "d"]
W3cAmbiguous(d) == LET D == [i \in 1..Len(d) |-> <<RConv(d[i][1]), RConv(d[i][2]), RConv(d[i][3]), RConv(d[i][4])>>]
                   IN Cardinality(R!OutcomeDocs(D)) > 1
Rec == ndJsonDeserialize(IOEnv.TRACE)
VARIABLE l
SetOfSeq(s) == {s[i] : i \in 1..Len(s)}
Dec(n) == IF n < 10 THEN <<48 + n>> ELSE <<48 + (n \div 10), 48 + (n % 10)>>
C14nName(i) == <<99, 49, 52, 110>> \o Dec(i)
RECURSIVE LessFrom(_, _, _)
LessFrom(a, b, i) == IF i > Len(a) THEN i <= Len(b) ELSE IF i > Len(b) THEN FALSE
                     ELSE IF a[i] < b[i] THEN TRUE ELSE IF a[i] > b[i] THEN FALSE ELSE LessFrom(a, b, i + 1)
\* the identifier map as a function, and its application
MapOf(rl) == [b \in {rl.idmap[i][1] : i \in 1..Len(rl.idmap)} |-> rl.idmap[CHOOSE i \in 1..Len(rl.idmap) : rl.idmap[i][1] = b][2]]
RelabelOk(d, rl) ==
  LET D == SetOfSeq(d)
      B == BnodesOf(D)
      n == Cardinality(B)
      keys == {rl.idmap[i][1] : i \in 1..Len(rl.idmap)}
      vals == {rl.idmap[i][2] : i \in 1..Len(rl.idmap)}
  IN IF keys # B \/ Len(rl.idmap) # n THEN "idmap-domain-is-not-the-input-labels"
     ELSE IF vals # {C14nName(i) : i \in 0..(n - 1)} THEN "idmap-not-onto-c14n-names"
     ELSE IF RenD(D, MapOf(rl)) # SetOfSeq(rl.quads) THEN "idmap-applied-to-input-differs-from-returned-quads"
     ELSE "ok"
\* the document, read by the independent reader, is the input renamed by the (bijective) identifier map: hence isomorphic
\* to the input by construction - no search over bijections is needed
DocOk(d, text, rl) ==
  LET r == NQ!ReadDoc(text)
      D == SetOfSeq(d)
      ls == NQ!Lines(text, 1, 1)
  IN IF ~r.ok THEN "canonical-document-unreadable"
     ELSE IF rl.k # "ok" THEN "relabel-fails-where-normalize-succeeds"
     ELSE IF RelabelOk(d, rl) # "ok" THEN RelabelOk(d, rl)
     ELSE IF SetOfSeq(r.quads) # RenD(D, MapOf(rl)) \/ Len(r.quads) # Cardinality(D) THEN "canonical-document-is-not-the-input-relabelled"
     ELSE IF \E i \in 1..(Len(ls) - 1) : ~LessFrom(ls[i], ls[i + 1], 1) THEN "lines-not-sorted"
     ELSE "ok"
FirstNotOk(seq) == IF \E i \in 1..Len(seq) : seq[i] # "ok" THEN seq[CHOOSE i \in 1..Len(seq) : seq[i] # "ok" /\ \A j \in 1..(i - 1) : seq[j] = "ok"] ELSE "ok"
Small(d) == Cardinality(BnodesOf(SetOfSeq(d))) <= 6
Judge(e) ==
  IF e.ev # "Batch" THEN <<"panic", 0>>
  ELSE LET m == e.members  n == Len(m)
           per == [i \in 1..n |->
                     FirstNotOk(<< IF m[i].sha256.k = "ok" THEN DocOk(m[i].d, m[i].sha256.text, m[i].rl256) ELSE IF m[i].sha256.k = "toxic" THEN "ok" ELSE "error-on-supported-input",
                                   IF m[i].sha384.k = "ok" THEN DocOk(m[i].d, m[i].sha384.text, m[i].rl384) ELSE IF m[i].sha384.k = "toxic" THEN "ok" ELSE "error-on-supported-input" >>)]
           \* equal documents => isomorphic holds by construction (each document is its input relabelled by a bijection).
           \* isomorphic => equal documents: copies are isomorphic by construction; other pairs are decided by brute force when small
           iso(i, j) == IF (i = 1 /\ m[j].copy) \/ (m[i].copy /\ m[j].copy) THEN TRUE
                        ELSE IsomorphicExact(SetOfSeq(m[i].d), SetOfSeq(m[j].d))
           decidable(i, j) == (i = 1 /\ m[j].copy) \/ (m[i].copy /\ m[j].copy) \/ (Small(m[i].d) /\ Small(m[j].d))
           badPair(h, i, j) == i < j /\ m[i][h].k = "ok" /\ m[j][h].k = "ok" /\ decidable(i, j)
                               /\ ((m[i][h].text = m[j][h].text) # iso(i, j))
           pairBad(h) == \E i, j \in 1..n : badPair(h, i, j)
           pairWhich(h) == CHOOSE p \in (1..n) \X (1..n) : badPair(h, p[1], p[2])
       IN IF \E i \in 1..n : per[i] # "ok" THEN LET i == CHOOSE i \in 1..n : per[i] # "ok" IN <<per[i], i>>
          ELSE IF pairBad("sha256") THEN LET p == pairWhich("sha256") IN
                 <<IF m[p[1]].sha256.text = m[p[2]].sha256.text THEN "same-document-for-non-isomorphic-datasets"
                   ELSE IF W3cAmbiguous(m[p[1]].d) THEN "w3c-algorithm-ambiguous:different-documents-for-isomorphic-datasets"
                   ELSE "different-documents-for-isomorphic-datasets", p[1] * 10 + p[2]>>
          ELSE IF pairBad("sha384") THEN LET p == pairWhich("sha384") IN
                 <<IF m[p[1]].sha384.text = m[p[2]].sha384.text THEN "same-document-for-non-isomorphic-datasets(sha384)"
                   ELSE IF W3cAmbiguous(m[p[1]].d) THEN "w3c-algorithm-ambiguous:different-documents-for-isomorphic-datasets"
                   ELSE "different-documents-for-isomorphic-datasets(sha384)", p[1] * 10 + p[2]>>
          ELSE <<"ok", 0>>
Init == l = 1
Next == /\ l <= Len(Rec) /\ l' = l + 1
        /\ LET v == Judge(Rec[l]) IN IF v[1] = "ok" THEN TRUE ELSE PrintT(<<"MISMATCH", l, v[1], v[2]>>)
Spec == Init /\ [][Next]_l
PostCond == IF TLCGet("stats").diameter - 1 = Len(Rec) THEN TRUE
            ELSE PrintT(<<"TRACE-INCOMPLETE", TLCGet("stats").diameter - 1, Len(Rec)>>)
====
