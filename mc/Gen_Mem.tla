---- MODULE Gen_Mem ----
\* Prints every transition of the ownership model (CloneMode = "rebuild": the design the code must follow).
EXTENDS TermIndexMem, Json
St == [t2i |-> t2i, i2t |-> i2t, alive |-> alive, cells |-> cells]
StP == [t2i |-> t2i', i2t |-> i2t', alive |-> alive', cells |-> cells']
P(op) == PrintT(ToJson([tag |-> "EDGE", pre |-> St, post |-> StP] @@ op))
GNext == \/ \E x \in Inst : \/ NewInst(x) /\ P([op |-> "NewInst", x |-> x])
                            \/ Drop(x) /\ P([op |-> "Drop", x |-> x])
                            \/ (Move(x) /\ i2t[x] # <<>>) /\ P([op |-> "Move", x |-> x])
         \/ \E x, y \in Inst : Swap(x, y) /\ P([op |-> "Swap", x |-> x, y |-> y])
         \/ \E x \in Inst, t \in Terms : Ensure(x, t) /\ P([op |-> "Ensure", x |-> x, t |-> t])
         \/ \E x, y \in Inst : Clone(x, y) /\ P([op |-> "Clone", x |-> x, y |-> y])
         \/ \E x \in Inst, i \in 1..Cardinality(Terms) : Read(x, i) /\ i = 1 /\ P([op |-> "Read", x |-> x])
GSpec == Init /\ [][GNext]_vars
====
