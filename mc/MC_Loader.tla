---- MODULE MC_Loader ----
\* Exhaustive check of the loader's algorithm against the modelled file system: every IRI of up to MaxLen segments over the
\* alphabet, for every cache configuration of Configs.  MC_Loader.cfg checks the repaired algorithm (must hold);
\* MC_Loader_pinned.cfg runs the pinned commit's algorithm and is EXPECTED to violate Confinement (the defect TLC finds).
EXTENDS LoaderWorld, TLC
CONSTANT MaxLen, Pinned
VARIABLES cfg, iri, res
L(c) == INSTANCE Loader WITH Dirs <- DirsC, Files <- FilesC, Caches <- Configs[c], DotNames <- DotNamesC
Result(c, i) == IF Pinned THEN L(c)!GetPinned(i) ELSE L(c)!GetFixed(i)
Init == cfg \in 1..Len(Configs) /\ iri = <<>> /\ res = [k |-> "none", path |-> <<>>]
Next == /\ Len(iri) < MaxLen /\ cfg' = cfg
        /\ \E s \in Alphabet : iri' = Append(iri, s)
        /\ res' = Result(cfg, iri')
Spec == Init /\ [][Next]_<<cfg, iri, res>>
Confinement == L(cfg)!Confined(iri, res)
\* non-vacuity: some IRIs do load files (checked by an "expected violation" of its negation in the coverage run)
LoadsSomething == res.k # "file"
====
