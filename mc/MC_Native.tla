---- MODULE MC_Native ----
\* Laws of the digit-string arithmetic that Native.tla judges with, checked by TLC on every pair of lexical forms of the universe:
\* agreement with TLC's own integers wherever those can hold the value, total order, facets nested as in XSD.
EXTENDS Native, NativeWorld, TLC
VARIABLES a, b
Forms == {Universe[i].lex : i \in 1..Len(Universe)}
IntForms == {f \in Forms : IsInteger(f)}
DblForms == {f \in Forms : IsDouble(f) /\ f \notin {NaN, INF, <<43>> \o INF, <<45>> \o INF}}
Small(f) == Len(Unsigned(f)) <= 9
Init == a \in IntForms \cup DblForms /\ b \in IntForms \cup DblForms
Next == UNCHANGED <<a, b>>
Spec == Init /\ [][Next]_<<a, b>>
AgreesWithIntegers == (a \in IntForms /\ b \in IntForms /\ Small(a) /\ Small(b)) => /\ NumLess(a, b) = (IntOf(a) < IntOf(b))
                                                                                  /\ NumEq(a, b) = (IntOf(a) = IntOf(b))
TotalOrder == /\ ~(NumLess(a, b) /\ NumLess(b, a))
              /\ NumEq(a, b) = (~NumLess(a, b) /\ ~NumLess(b, a))
              /\ ~NumLess(a, a)
FacetsNested == a \in IntForms =>
   /\ \A dt \in AllIntegerTypes : InFacetN(a, dt) => InFacetN(a, IntegerDt)
   /\ InNative(a, "i32") => InNative(a, "isize")
   /\ InFacetN(a, Dt(<<98,121,116,101>>)) => InFacetN(a, Dt(<<115,104,111,114,116>>))
   /\ InFacetN(a, Dt(<<105,110,116>>)) = InNative(a, "i32")
   /\ InFacetN(a, Dt(<<108,111,110,103>>)) = InNative(a, "isize")
====
