SPECIFICATION Spec
CONSTANTS MaxLen = 3
  NodeIdRule = "digits-only"
INVARIANT Laws
CHECK_DEADLOCK FALSE
