---- MODULE MC_Stack ----
EXTENDS Stack
====
