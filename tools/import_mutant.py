#!/usr/bin/env python3
"""import_mutant.py <ID> <mutant dir> <name> <needs text> <detected-by text>
Copies a confirmed seeded change into /verif/seeded/<name>/ (patch.diff, demo.rs, notes.md, meta.json)."""
import sys, os, shutil, json
pid, md, name, needs, det = sys.argv[1:6]
dst = os.path.join("/verif/seeded", name)
os.makedirs(dst, exist_ok=True)
for f in ("patch.diff", "demo.rs", "notes.md"):
    if os.path.exists(os.path.join(md, f)):
        shutil.copy(os.path.join(md, f), dst)
conf = "/tmp/confirm-%s-%s.txt" % (pid if len(sys.argv) < 7 else sys.argv[6], os.path.basename(md))
ran = open(conf).read() if os.path.exists(conf) else "(confirmation log missing)"
meta = {"property": pid, "breaks": pid, "needs_to_manifest": needs,
        "confirmed_by": "tools/confirm_mutant.sh in a scratch worktree of the pinned commit: patch applies, `cargo test --workspace --offline` passes with it, demo passes without and fails with the patch",
        "confirmation_log": ran.splitlines(), "detected_by": det}
json.dump(meta, open(os.path.join(dst, "meta.json"), "w"), indent=1)
print("imported", dst)
