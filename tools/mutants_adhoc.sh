#!/bin/bash
# usage (inside a `vp run --with-repo` snapshot): tools/mutants_adhoc.sh <ID>:<patch> ...   -- each patch against the quick check of ID, on the snapshot of /repo
sed -i "s#\"/repo/#\"$VP_RUN_REPO/#" harness/Cargo.toml
(cd harness && CARGO_NET_OFFLINE=true cargo build --offline --quiet 2>/dev/null; CARGO_NET_OFFLINE=true cargo build --offline --release --quiet 2>/dev/null)
python3 tools/gen_chains.py >/dev/null 2>&1
for pair in "$@"; do
  id=${pair%%:*}; patch=${pair#*:}
  (cd $VP_RUN_REPO && git apply "$patch") || { echo "$pair PATCH-DOES-NOT-APPLY"; continue; }
  s=$(date +%s)
  timeout 3000 ./check $id --tier quick > work_mut.log 2>&1; rc=$?
  v=$(grep -c '^VIOLATION' work_mut.log)
  echo "$pair rc=$rc violations=$v $(( $(date +%s) - s ))s :: $(grep -E '^VIOLATION' work_mut.log | head -1 | cut -c1-260 | sed 's/replay=[^ ]* //') :: $(tail -1 work_mut.log | cut -c1-160)"
  (cd $VP_RUN_REPO && git checkout -q -- . && git clean -fdq -- . >/dev/null 2>&1)
done
echo ADHOC-DONE
