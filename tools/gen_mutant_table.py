#!/usr/bin/env python3
"""Rewrites the table of DESIGN.md 10.5 (between the header row and the next blank line) and the count in its first sentence from seeded/*/meta.json."""
import json, glob, re, os
V = os.path.dirname(os.path.dirname(os.path.abspath(__file__)))
def key(d):
    m = re.match(r".*/C(\d+)-m(\d+)$", d)
    return (int(m.group(1)), int(m.group(2)))
dirs = sorted([d for d in glob.glob(os.path.join(V, "seeded", "C*-m*")) if os.path.isdir(d)], key=key)
rows = []
for d in dirs:
    m = json.load(open(os.path.join(d, "meta.json")))
    esc = lambda t: str(t).replace("|", "\\|").replace("\n", " ")
    rows.append("| %s | %s | %s |" % (os.path.basename(d), esc(m.get("needs_to_manifest", "")), esc(m.get("detected_by", ""))))
p = os.path.join(V, "DESIGN.md")
s = open(p).read()
head = "| change | what it needs to manifest | caught by / what had to be strengthened |\n|---|---|---|\n"
a = s.index(head) + len(head)
b = s.index("\n\n", a)
s = s[:a] + "\n".join(rows) + s[b:]
s = re.sub(r"\d+ changes are kept under `seeded/<id>/`", "%d changes are kept under `seeded/<id>/`" % len(rows), s)
open(p, "w").write(s)
print(len(rows), "rows")
