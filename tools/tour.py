"""Turn the transitions printed by a Gen_* specification into operation histories that cover every
(state, operation) pair of TLC's state graph: one implementation test per transition."""
import json
from collections import deque


def read_edges(tlc_out):
    edges = []
    for line in tlc_out.splitlines():
        line = line.strip()
        if line.startswith('"{') and "EDGE" in line[:40]:
            try:
                rec = json.loads(json.loads(line))
            except Exception:
                continue
            if rec.get("tag") == "EDGE":
                edges.append(rec)
    return edges


def key(st):
    return json.dumps(st, sort_keys=True)


def tours(edges, max_len=40, label=lambda e: {"op": e["op"], "q": e["q"]}):
    """Greedy transition tour with resets: walk along uncovered edges while there are some at the current
    state; when stuck, start a new history that reaches (by the BFS spanning tree from the initial state)
    a state that still has uncovered edges.  Returns (histories, stats)."""
    ids = {}

    def nid(st):
        k = key(st)
        if k not in ids:
            ids[k] = len(ids)
        return ids[k]

    E = []              # (src, dst, label)
    out = {}
    init = None
    for e in edges:
        s, t = nid(e["pre"]), nid(e["post"])
        if init is None:
            init = s
        out.setdefault(s, []).append(len(E))
        E.append((s, t, label(e)))
    # spanning tree from init
    parent = {init: None}
    dq = deque([init])
    while dq:
        n = dq.popleft()
        for ei in out.get(n, []):
            t = E[ei][1]
            if t not in parent and t in out:
                parent[t] = ei
                dq.append(t)

    def path_from_init(n):
        p = []
        while parent[n] is not None:
            p.append(E[parent[n]][2])
            n = E[parent[n]][0]
        return list(reversed(p))

    uncovered = {n: list(v) for n, v in out.items()}
    pending = [n for n in out if n in parent]        # states with uncovered edges, in discovery order
    pi = 0
    hists, remaining = [], sum(len(v) for n, v in uncovered.items() if n in parent)
    while remaining > 0:
        while pi < len(pending) and not uncovered[pending[pi]]:
            pi += 1
        if pi >= len(pending):
            break
        cur = pending[pi]
        h = path_from_init(cur)
        while uncovered.get(cur) and len(h) < max_len:
            ei = uncovered[cur].pop()
            remaining -= 1
            h.append(E[ei][2])
            cur = E[ei][1]
            if cur not in out:      # a state cut by the CONSTRAINT: nothing is known beyond it
                break
        hists.append(h)
    return hists, {"edges": len(edges), "states": len(out), "histories": len(hists),
                   "steps": sum(len(x) for x in hists), "uncovered": remaining}


if __name__ == "__main__":
    import sys
    es = read_edges(open(sys.argv[1]).read())
    hs, st = tours(es)
    print(st)
