#!/bin/bash
# usage: tools/mutant.sh <patch.diff> <ID> [tier]   -- apply a seeded change to /repo, run the check, undo it
set -u
cleanup() { cd /repo && git checkout -q -- . && git clean -fdq -- . >/dev/null 2>&1; find /repo -path /repo/target -prune -o \( -name '*.orig' -o -name '*.rej' \) -print | xargs -r rm -f; }
trap cleanup EXIT
patch=$(realpath $1); id=$2; tier=${3:-quick}
cd /repo || exit 2
if git apply --check "$patch" 2>/dev/null; then git apply "$patch"
elif patch -p1 -F3 --dry-run -s < "$patch" >/dev/null 2>&1; then patch -p1 -F3 -s < "$patch"; echo "(applied with fuzz: the tree has moved since the pinned commit)"
else echo "PATCH DOES NOT APPLY: $patch"; exit 3; fi
cd /verif && timeout 1500 ./check "$id" --tier "$tier" > /tmp/mutant_out.txt 2>&1
rc=$?
cd /repo && git checkout -q -- . && git clean -fdq -- . >/dev/null 2>&1; find /repo -name '*.orig' -o -name '*.rej' | xargs -r rm -f
echo "rc=$rc"; grep -c '^VIOLATION' /tmp/mutant_out.txt; grep -E '^VIOLATION|TOOL-ERROR' /tmp/mutant_out.txt | head -${4:-4}; tail -1 /tmp/mutant_out.txt
