"""Per-property pipelines of ./check."""
import glob
import os, sys, json, random, hashlib, re
from core import *
import tour


def run(pid, tier, seed, replay):
    fam = FAMILIES.get(pid)
    if fam is None:
        log("property %s is not decided by this framework (see MANIFEST.json not_applicable)" % pid)
        return 2
    if replay:
        r = json.load(open(replay))
        tier, seed = r.get("tier", tier), r.get("seed", seed)
        log("replaying %s with tier=%s seed=%s (the recorded run is re-executed on the current tree)" % (replay, tier, seed))
    ctx = Ctx(pid, tier, seed)
    try:
        fam(ctx)
        return finish(ctx)
    except ToolError as e:
        log("TOOL-ERROR %s: %s" % (pid, e))
        return 2
    except subprocess.TimeoutExpired as e:
        log("TOOL-ERROR %s: timeout %s" % (pid, e))
        return 2
    except Exception as e:      # a defect of the machinery is never a verdict
        import traceback
        log("TOOL-ERROR %s: %s: %s\n%s" % (pid, type(e).__name__, e, traceback.format_exc()[-1500:]))
        return 2


def h(x):
    return hashlib.sha1(json.dumps(x, sort_keys=True).encode()).hexdigest()[:16]


# ------------------------------------------------------------------ term pools shared by the families

def T_iri(s): return {"k": "iri", "v": cps(s)}
def T_bn(s): return {"k": "bnode", "v": cps(s)}
def T_var(s): return {"k": "var", "v": cps(s)}
def T_lit(lex, dt="http://www.w3.org/2001/XMLSchema#string"): return {"k": "lit", "lex": cps(lex), "dt": cps(dt), "lang": []}
def T_lang(lex, tag): return {"k": "lit", "lex": cps(lex), "dt": [], "lang": cps(tag)}
def T_triple(s, p, o): return {"k": "triple", "s": s, "p": p, "o": o}
DG = {"k": "dg"}

TERM_POOL = [
    T_iri("http://ex/a"), T_iri("http://ex/b"), T_bn("b1"), T_bn("b2"), T_lang("l", "en"), T_lang("l", "fr"),
    T_lit("l"), T_lit("1", "http://www.w3.org/2001/XMLSchema#integer"), T_var("x"),
    T_triple(T_iri("http://ex/a"), T_iri("http://ex/p"), T_bn("b1")),
    T_triple(T_iri("http://ex/a"), T_iri("http://ex/p"), T_lang("l", "EN")), T_lit("\U0001F600é"),
]


# ------------------------------------------------------------------ C01

def store_events_for(trace, line):
    """(impl name, event) of a 1-based trace line."""
    impl = "?"
    for i in range(line - 1, -1, -1):
        if trace[i]["ev"] == "Reset":
            impl = trace[i]["impl"]
            break
    return impl, trace[line - 1]


def store_validate(ctx, trace_path, what, chunk_events=150000):
    """Validates a store trace in chunks cut at Reset events (a chunk = whole histories), so that neither TLC nor this process
    ever holds more than one chunk: thorough traces run to millions of events."""
    def flush(lines, idx):
        if not lines:
            return
        part = "%s.part%d" % (trace_path, idx)
        with open(part, "w") as f:
            f.writelines(lines)
        trace = [json.loads(l) for l in lines]
        mism = trace_check(ctx, "Trace_Store", part, tag="Trace_Store_%s_%d" % (os.path.basename(trace_path), idx))
        bad_hist = set()
        seg, segs = 0, []
        for e in trace:
            if e["ev"] == "Reset":
                seg += 1
            segs.append(seg)
        for line, fields in mism:
            impl, e = store_events_for(trace, line)
            bad_hist.add(segs[line - 1])
            ctx.violations.append({"key": "%s/%s" % (impl, e["ev"]), "detail": "%s: %s on %s not explained by QuadStore (trace %s line %d)" % (what, e["ev"], impl, part, line),
                                   "event": e, "impl": impl, "trace": part, "line": line})
        ctx.traces_validated += seg - len(bad_hist)
        for e in trace:
            if e["ev"] in ("Match", "Insert", "Remove", "RemoveMatching", "InsertAll", "Terms", "Probe"):
                ctx.distinct.add(h(e))
        if len(ctx.samples) < 6:
            for e in trace:
                if e["ev"] == "Match" and e["rows"]:
                    ctx.samples.append({"what": what, "event": "Match", "matchers": e["ms"], "rows_returned": len(e["rows"])})
                    break
        if not mism:
            os.remove(part)
    lines, idx = [], 0
    with open(trace_path) as f:
        for l in f:
            if not l.strip():
                continue
            if len(lines) >= chunk_events and '"ev":"Reset"' in l[:40]:
                flush(lines, idx)
                lines, idx = [], idx + 1
            lines.append(l)
    flush(lines, idx)


def c01(ctx):
    binary = build()
    # (1) the specification: refinement of the set by the indexed store, incl. the 16-way query (runs beside the rest)
    mc = Bg(lambda: model_check(ctx, "MC_Store", workers=8, timeout=900))
    # (2) behaviours from the specification: every (state, operation) pair of the refinement model
    out = tlc(ctx, "Gen_Store", workers=1, timeout=600)
    tlc_must_be_clean(out, "Gen_Store")
    edges = tour.read_edges(out)
    if len(edges) < 1000:
        raise ToolError("Gen_Store printed only %d transitions" % len(edges))
    rnd = random.Random(ctx.seed)
    pool = TERM_POOL[:]
    rnd.shuffle(pool)
    tmap = {"t1": pool[0], "t2": pool[1], "dg": DG}

    def lab(e):
        return {"op": e["op"], "q": [tmap[x] for x in e["q"]]}
    hists, st = tour.tours(edges, max_len=30, label=lab)
    if st["uncovered"]:
        raise ToolError("transition tour left %d edges uncovered" % st["uncovered"])
    ctx.notes.append("Gen_Store: %d transitions of %d states covered by %d histories (%d steps)" % (st["edges"], st["states"], st["histories"], st["steps"]))
    main8 = "FastDataset<Tiny2>,FastDataset,LightDataset<Tiny3>,HashSet<Spog>,BTreeSet<Gspo>,Vec<Spog>,FastGraph,LightGraph<Tiny3>"
    if ctx.quick():
        passes = [([x for i, x in enumerate(hists) if (i + ctx.seed) % 6 == 0], main8)]
    else:
        # every transition on the 8 most different implementations, every third history (rotating with the seed) on all 25
        passes = [(hists, main8), ([x for i, x in enumerate(hists) if (i + ctx.seed) % 3 == 0], "all")]
        ctx.exhaustive = True
    for k, (hs, impls) in enumerate(passes):
        genf = os.path.join(ctx.gen, "store_hist_%d.ndjson" % k)
        with open(genf, "w") as f:
            for x in hs:
                f.write(json.dumps(x) + "\n")
        tr1 = os.path.join(ctx.traces, "replay_%d.ndjson" % k)
        sv(binary, ["store", "--mode", "replay", "--gen", genf, "--impls", impls, "--out", tr1], timeout=6000)
        store_validate(ctx, tr1, "spec->impl replay")
        if not ctx.quick():
            os.remove(tr1)
    # (3) implementation -> spec: seeded random histories over the large alphabet, every implementation
    tr2 = os.path.join(ctx.traces, "random.ndjson")
    nh, ln = (12, 60) if ctx.quick() else (120, 120)
    sv(binary, ["store", "--mode", "random", "--seed", ctx.seed, "--hist", nh, "--len", ln, "--out", tr2])
    store_validate(ctx, tr2, "random history")
    if not ctx.quick() and os.path.getsize(tr2) > 100_000_000:
        os.remove(tr2)      # hundreds of MB; the chunks with unexplained events, if any, are kept by store_validate
    # (4) exhaustion of the 16-bit term index
    tr3 = os.path.join(ctx.traces, "exhaust.ndjson")
    sv(binary, ["store", "--mode", "exhaust", "--out", tr3])
    store_validate(ctx, tr3, "16-bit exhaustion")
    mc.join()
    ctx.rule = ("MC_Store: StoreImpl (2 terms, capacity 2, <=2 quads) refines the set, 875 matcher tuples per state; Gen_Store: every transition of that "
                "model replayed on the real stores (quick: every 6th history, 8 implementations; thorough: all histories on those 8 and every 3rd history on all 25 implementations); "
                "random histories (%d per implementation x %d ops, 14-term alphabet, all shipped matcher kinds) on 25 implementations; "
                "u16 exhaustion on the 4 small:: stores. distinct = distinct mutation/query events (args+result)." % (nh, ln))
    ctx.assumptions += ["TLC and the CommunityModules Json reader are trusted", "harness abstraction function (util.rs term_json) is trusted",
                        "Vec-backed containers are judged by the weakest documented list contract (flags ignored)"]


def c11(ctx):
    binary = build()
    mc = Bg(lambda: model_check(ctx, "MC_Views", workers=4, timeout=600))
    tr = os.path.join(ctx.traces, "views.ndjson")
    nh, ln = (60, 40) if ctx.quick() else (400, 60)
    sv(binary, ["views", "--seed", ctx.seed, "--hist", nh, "--len", ln, "--out", tr])
    store_validate(ctx, tr, "view history")
    mc.join()
    ctx.rule = ("MC_Views: all histories of direct/view mutations over 2 graph names + default + an absent name model-checked (frame condition, view = filter); "
                "%d random histories x %d ops per store type through graph/graph_mut/union_graph/partial_union_graph/into_union_graph on 5 dataset types and "
                "as_dataset/as_dataset_mut/into_dataset on 5 graph types; distinct = distinct events" % (nh, ln))
    ctx.assumptions += ["term enumerations of views are judged loosely (superset of the view's terms, subset of the selected quads' terms)"]


def c15(ctx):
    binary = build()
    mc = Bg(lambda: model_check(ctx, "MC_Streams", workers=4, timeout=600))
    out = tlc(ctx, "Gen_Streams", workers=1, timeout=600)
    tlc_must_be_clean(out, "Gen_Streams")
    pipes = []
    for line in out.splitlines():
        line = line.strip()
        if line.startswith('"{') and "PIPE" in line[:40]:
            pipes.append(json.loads(json.loads(line)))
    if len(pipes) < 60000:
        raise ToolError("Gen_Streams printed only %d pipelines" % len(pipes))
    genf = os.path.join(ctx.gen, "pipes.ndjson")
    with open(genf, "w") as f:
        for p in pipes:
            f.write(json.dumps(p) + "\n")
    stride, nrand = (4, 6000) if ctx.quick() else (1, 60000)
    ctx.exhaustive = not ctx.quick()
    tr = os.path.join(ctx.traces, "streams.ndjson")
    sv(binary, ["streams", "--gen", genf, "--stride", stride, "--rand", nrand, "--seed", ctx.seed, "--out", tr])
    trace = read_trace(tr)
    mism = trace_check(ctx, "Trace_Streams", tr)
    bad = set()
    for line, fields in mism:
        e = trace[line - 1]
        bad.add(line)
        if e["ev"] == "Panic":
            key = "panic"
        else:
            key = "%s/%s/%s" % (e["srckind"], e["sink"], fields[0])
        ctx.violations.append({"key": key, "detail": "pipeline not explained by Streams (%s): %s" % (fields[0], json.dumps(e)[:400]), "event": e, "trace": tr, "line": line})
    ctx.traces_validated += len(trace) - len(bad)
    for e in trace:
        if e["ev"] == "Pipe" and (e["k"] or e["j"] or e["sink"] == "store"):
            ctx.distinct.add(h([e["srckind"], e["sink"], e["src"], e["k"], e["chain"], e["j"], e["driver"]]))
    ctx.samples += [e for e in trace if e["ev"] == "Pipe" and e["result"] != "ok"][:3]
    mc.join()
    ctx.rule = ("MC_Streams: all 63,680 pipelines (sources <=3 items over 4 values, every source-fault position, chains of depth <=3 over map/filter/filter_map, sink fault 0..3) "
                "model-checked (prefix, stop, closed form = state machine); Gen_Streams prints them and the harness runs every %s one on the real combinators with both drivers; "
                "%d seeded random pipelines add iterator-form adapters, to_quads/to_triples, N-Triples and Turtle parser sources (fault before or inside a multi-triple statement), "
                "collectors and capacity-limited store sinks read back through three index arms, the RDF/XML parser as a source and the N-Triples serializer over a failing writer as a consumer; "
                "%d quad pipelines (iterator / N-Quads parser, chains of <= 2 adapters) into insert_all / remove_all of a GraphAsDataset (refuses named graphs), FastDataset and LightDataset with chosen "
                "initial contents (empty, exactly what the stream removes, random): judged on the contents left, the count, the side blamed and how far the source was pulled. distinct = pipelines with a fault" % ("4th" if ctx.quick() else "single", nrand, nrand // 2))
    ctx.assumptions += ["the closed form Run is what the trace spec evaluates; MC_Streams proves it equal to the step-by-step state machine on the model's bounds"]


XSDNS = "http://www.w3.org/2001/XMLSchema#"
RDFNS = "http://www.w3.org/1999/02/22-rdf-syntax-ns#"


def terms_universe():
    a, ab, p = T_iri("http://ex/a"), T_iri("http://ex/ab"), T_iri("http://ex/p")
    u = [
        a, ab, T_iri("http://ex/a#b"), T_iri("http://ex/"), T_iri("x:y"), T_iri(XSDNS + "integer"), T_iri("http://ex/é"),
        T_bn("b"), T_bn("b1"), T_bn("B"),
        T_lit(""), T_lit("l"), T_lit("L"), T_lit("http://ex/a"), T_lit("l", XSDNS + "integer"), T_lit("1", XSDNS + "integer"), T_lit("01", XSDNS + "integer"),
        T_lit("true", XSDNS + "boolean"), T_lit("1", XSDNS + "boolean"), T_lit("1e0", XSDNS + "double"), T_lit("1", XSDNS + "double"),
        T_lit("l", RDFNS + "langStrinf"), T_lit("l", RDFNS + "langStrinh"), T_lit("l", RDFNS + "HTML"), T_lit("l", "http://ex/dt"),
        T_lang("l", "en"), T_lang("l", "EN"), T_lang("l", "en-us"), T_lang("l", "en-US"), T_lang("l", "fr"), T_lang("m", "en"), T_lang("\U0001F600é", "en"),
        T_lit("\U0001F600é"), T_lit("\uffff"), T_lit("a\u0301"),
        T_var("x"), T_var("X"), T_var("b"),
        T_triple(a, p, T_bn("b")), T_triple(a, p, T_lang("l", "en")), T_triple(a, p, T_lang("l", "EN")), T_triple(ab, p, T_bn("b")),
        T_triple(T_triple(a, p, T_lang("l", "en")), p, T_lit("1", XSDNS + "integer")), T_triple(T_triple(a, p, T_lang("l", "eN")), p, T_lit("1", XSDNS + "integer")),
        T_triple(a, p, T_var("x")),
    ]
    return u


def c02(ctx):
    binary = build()
    u = terms_universe()
    uf = os.path.join(ctx.gen, "universe.ndjson")
    with open(uf, "w") as f:
        for t in u:
            f.write(json.dumps(t) + "\n")
    # (1) the specification is lawful on the universe (equivalence, total order, Equal <=> eq, kind order, hash keys)
    mc = Bg(lambda: model_check(ctx, "MC_Terms", workers=4, timeout=900, env={"UNIVERSE": uf}))
    # (2)+(3) every ordered pair of universe terms in every implementation pair; random near-equal pairs
    tr = os.path.join(ctx.traces, "terms.ndjson")
    nrand = 600 if ctx.quick() else 20000
    sv(binary, ["terms", "--universe", uf, "--rand", nrand, "--seed", ctx.seed, "--out", tr])
    trace = read_trace(tr)
    mism = trace_check(ctx, "Trace_Terms", tr, env={"UNIVERSE": uf})
    bad = set()
    cells = 0
    for e in trace:
        if e["ev"] == "Pair":
            cells += len(e["eq"]) * 3 + len(e["seq"]) * 3 + len(e["xeq"])
            ctx.distinct.add(h([e["a"], e["b"]]))
        elif e["ev"] == "Conv":
            cells += len(e["outs"])
    for line, fields in mism:
        e = trace[line - 1]
        bad.add(line)
        code, idx = fields[0], int(fields[1]) if len(fields) > 1 else 0
        if e["ev"] == "Pair":
            names = {"eq": "names", "cmp": "names", "hash": "names", "std-eq": "snames", "std-cmp": "snames", "std-hash": "snames", "partial-eq": "xnames"}[code]
            who = e[names][idx - 1]
            detail = "%s of %s vs %s in [%s] differs from Terms.tla" % (code, show_term(e["a"]), show_term(e["b"]), who)
        elif e["ev"] == "Conv":
            who = e["paths"][idx - 1]
            detail = "conversion %s of %s yields %s" % (who, show_term(e["a"]), show_term(e["outs"][idx - 1]))
        else:
            who, detail = "panic", "panic: %s" % e.get("msg")
        ctx.violations.append({"key": "%s/%s" % (code, who.replace(" ", "")), "detail": detail, "event": {k: e[k] for k in e if k in ("ev", "a", "b", "msg")}, "trace": tr, "line": line})
    ctx.traces_validated += len(trace) - len(bad)
    ctx.evaluations = cells
    ctx.samples += [{"a": show_term(e["a"]), "b": show_term(e["b"]), "impl_pairs": len(e["eq"])} for e in trace[50:53] if e["ev"] == "Pair"]
    mc.join()
    ctx.rule = ("universe of %d terms (all kinds, case-variant tags, prefixes of one another, near-langString datatypes, nested quoted triples) x itself x all implementation pairs "
                "(up to 21 holders per term: SimpleTerm owned/borrowed, &T, CmpTerm, ArcTerm, RcTerm, stash copies, GenericLiteral, NsTerm with 4 split points, Iri, IriRef, BnodeId, VarName, native str/i32/isize/usize/bool/f64); "
                "%d random near-equal pairs in both orders; conversions through into_term/try_into_term/as_simple/from_triple/copy_term. evaluations = cells judged; distinct = term pairs" % (len(u), nrand))
    ctx.exhaustive = True


def c10(ctx):
    binary = build()
    # (1) the ownership model: the rebuilt clone satisfies all invariants ...
    mc = Bg(lambda: model_check(ctx, "MC_Mem", workers=4, timeout=900))
    # ... and the model is able to fail: a verbatim copy of the pointer table (derive(Clone)) is refuted
    out = tlc(ctx, "MC_Mem", cfg="MC_Mem_derived", workers=2, timeout=600, tag="MC_Mem_derived")
    if "Invariant SelfContained is violated" not in out and "Invariant NoUseAfterFree is violated" not in out:
        raise ToolError("the ownership model no longer refutes the derived clone: the invariants are vacuous\n" + out[-1500:])
    ctx.notes.append("TermIndexMem with CloneMode=derived is refuted by TLC (SelfContained), CloneMode=rebuild satisfies all invariants")
    # (2) every transition of the model -> histories
    out = tlc(ctx, "Gen_Mem", workers=1, timeout=900)
    tlc_must_be_clean(out, "Gen_Mem")
    edges = tour.read_edges(out)
    if len(edges) < 10000:
        raise ToolError("Gen_Mem printed only %d transitions" % len(edges))

    def lab(e):
        return {k: e[k] for k in ("op", "x", "y", "t") if k in e}
    hists, st = tour.tours(edges, max_len=40, label=lab)
    if st["uncovered"]:
        raise ToolError("transition tour left %d edges uncovered" % st["uncovered"])
    ctx.notes.append("Gen_Mem: %d transitions of %d states covered by %d histories (%d steps)" % (st["edges"], st["states"], st["histories"], st["steps"]))
    if ctx.quick():
        hists = [x for i, x in enumerate(hists) if (i + ctx.seed) % 250 == 0]
    else:
        hists = [x for i, x in enumerate(hists) if (i + ctx.seed) % 40 == 0]
    genf = os.path.join(ctx.gen, "mem_hist.ndjson")
    with open(genf, "w") as f:
        for x in hists:
            f.write(json.dumps(x) + "\n")
    tr = os.path.join(ctx.traces, "mem.ndjson")
    nh, ln = (12, 40) if ctx.quick() else (100, 50)
    sv(binary, ["mem", "--gen", genf, "--seed", ctx.seed, "--hist", nh, "--len", ln, "--out", tr], ctx=ctx, timeout=9000)
    # validated in chunks cut at Reset events (a chunk = whole histories): the thorough trace runs to gigabytes
    first_events = []

    def flush(lines, idx, whole):
        if not lines:
            return
        part = tr if whole else "%s.part%d" % (tr, idx)
        if not whole:
            with open(part, "w") as f:
                f.writelines(lines)
        trace = [json.loads(l) for l in lines]
        mism = trace_check(ctx, "Trace_Mem", part, tag="Trace_Mem_%d" % idx)
        seg, segs, impl_of = 0, [], []
        impl = "?"
        for e in trace:
            if e["ev"] == "Reset":
                seg += 1
                impl = e["impl"]
            segs.append(seg)
            impl_of.append(e["impl"] if e["ev"] in ("ForeignIndex", "Adversary") else impl)
        bad = set()
        for line, fields in mism:
            e = trace[line - 1]
            if segs[line - 1] in bad:
                continue            # only the first unexplained observation of a history is reported (the rest follows from it)
            bad.add(segs[line - 1])
            # history prefix that leads to the first unexplained observation of this history
            start = line - 1
            while trace[start]["ev"] != "Reset":
                start -= 1
            prefix = [{k: v for k, v in x.items() if k != "obs"} for x in trace[start:line]]
            ctx.violations.append({"key": "%s/%s/%s" % (impl_of[line - 1], fields[0], e["ev"]), "detail": "%s after %s on %s: %s (trace line %d)" % (fields[0], e["ev"], impl_of[line - 1], json.dumps(e.get("obs"))[:200], line),
                                   "event": e, "history": prefix if len(prefix) < 60 else prefix[-60:], "trace": part, "line": line})
        ctx.traces_validated += seg - len(bad)
        for e in trace:
            if e["ev"] in ("Clone", "Drop", "Swap", "Move", "Grow"):
                ctx.distinct.add(h([e["ev"], e["obs"]]))
        if not first_events:
            first_events.extend(trace[:8])
        if not whole and not mism:
            os.remove(part)
    for stale in glob.glob(tr + ".part*"):
        os.remove(stale)
    chunk_bytes = int(os.environ.get("SV_RT_CHUNK_BYTES", 100_000_000))
    whole = os.path.getsize(tr) <= chunk_bytes
    lines, size, idx = [], 0, 0
    with open(tr, encoding="utf-8", errors="replace") as f:
        for l in f:
            if not l.strip():
                continue
            if size >= chunk_bytes and '"ev":"Reset"' in l[:60]:
                flush(lines, idx, False)
                lines, size, idx = [], 0, idx + 1
            lines.append(l)
            size += len(l)
    flush(lines, idx, whole and idx == 0)
    trace = first_events
    ctx.samples += [[{k: v for k, v in x.items() if k != "obs"} for x in trace[1:8]]]
    mc.join()
    ctx.rule = ("MC_Mem: ownership model (2 terms, 3 instances, 6 heap cells) - rebuilt clone satisfies SelfContained/NoDangling/NoUseAfterFree/Bijection on all 17,787 states, verbatim clone refuted; "
                "Gen_Mem: transitions of that model (new/ensure/clone/drop/swap/move/read) sampled 1/%d into histories replayed on SimpleTermIndex<u16|u32> and the 8 in-memory stores with three term pools (incl. owned quoted triples); "
                "%d random histories x %d ops per implementation with growth across reallocation thresholds; after EVERY step every live instance is audited through the verif_hooks accessors and read only if the audit passes. "
                "distinct = distinct (op, observation) pairs of ownership-changing ops" % (250 if ctx.quick() else 4, nh, ln))
    ctx.assumptions += ["the audit compares pointer ranges and never dereferences foreign memory, so it does not itself commit the undefined behaviour it looks for",
                        "undefined behaviour outside the self-referential term index (std collections) is out of scope"]


def iri_family(ctx, mode):
    binary = build()
    # (1) the specification itself: RFC 3986 5.4 examples, resolution stays inside the grammar, the transcription of the shipped resolver
    mc = Bg(lambda: model_check(ctx, "MC_Iri", workers=4, timeout=900))
    tr = os.path.join(ctx.traces, "iri.ndjson")
    if mode == "c09":
        maxlen, hostlen, nmut, npairs = (4, 6, 4000, 6000) if ctx.quick() else (6, 8, 40000, 60000)
        ctx.exhaustive = True
    else:
        maxlen, hostlen, nmut, npairs = (4, 0, 0, 12000) if ctx.quick() else (5, 0, 0, 150000)
    sv(binary, ["iri", "--mode", mode, "--maxlen", maxlen, "--hostlen", hostlen, "--mut", nmut, "--pairs", npairs, "--seed", ctx.seed, "--out", tr])
    trace = read_trace(tr)
    mism = trace_check(ctx, "Trace_Iri", tr, timeout=3000)
    bad = set()
    for line, fields in mism:
        e = trace[line - 1]
        bad.add(line)
        code = fields[0]
        idx = int(fields[1]) if len(fields) > 1 else 0
        if e["ev"] == "Validate":
            key, detail = "validate/" + code, "%s disagrees with RFC 3987 on %r: %s" % (code, uncps(e["s"]), json.dumps(e["r"]))
            if e.get("panic"):
                detail = "panic while validating %r: %s" % (uncps(e["s"]), e.get("msg"))
        elif e["ev"] == "Resolve":
            o = e["outs"][idx - 1]
            key = code if code.startswith("lib-") else "resolve/%s/%s" % (code, o["via"])
            detail = "%s(<%s>, <%s>) -> %s %r %s" % (o["via"], uncps(e["base"]), uncps(e["ref"]), o["res"]["k"], uncps(o["res"]["out"]), o["res"]["msg"][:120])
        elif e["ev"] == "AsBase":
            o = e["outs"][idx - 1]
            key, detail = "as-base-panic/" + o["via"], "%s panics on the accepted value %r" % (o["via"], uncps(e["s"]))
        elif e["ev"] == "NsGet":
            key = "namespace/" + code
            detail = "%s: Namespace::new(%r) -> %s, .get(%r) -> %s <%s>%s" % (code, uncps(e["ns"]), "ok" if e["new_ok"] else "err", uncps(e["suffix"]), "ok" if e["get_ok"] else "err", uncps(e["iri"]), " PANIC" if e["panic"] else "")
        else:
            key = "relativize/" + code
            detail = "relativize(base=<%s>, iri=<%s>, parents=%d) -> %s %r; resolves back to %r" % (uncps(e["base"]), uncps(e["iri"]), e["n"], e["k"], uncps(e["out"]), uncps(e["back"]["out"]))
        ctx.violations.append({"key": key, "detail": detail, "event": e, "trace": tr, "line": line})
    ctx.traces_validated += len(trace) - len(bad)
    for e in trace:
        if e["ev"] == "Validate" and (e["r"]["valid"] or e["r"]["baseref_new"]):
            ctx.distinct.add(h(e["s"]))
        elif e["ev"] in ("Resolve", "Relativize"):
            ctx.distinct.add(h([e["base"], e.get("ref", e.get("iri")), e.get("n")]))
    ctx.samples += [{"ev": e["ev"], "base": uncps(e["base"]), "arg": uncps(e.get("ref", e.get("iri")))} for e in trace if e["ev"] in ("Resolve", "Relativize")][:4]
    mc.join()
    return maxlen, hostlen, nmut, npairs


def c09(ctx):
    maxlen, hostlen, nmut, npairs = iri_family(ctx, "c09")
    ctx.rule = ("Iri.tla = RFC 3987 recognisers + RFC 3986 5.2 resolution + a transcription of the shipped third-party resolver (named deviation). Every string of length <= %d over "
                "{a : / ? # [ ] @ %% 1 .} and every bracketed host of length <= %d over {1 : . f v} is validated by all seven entry points and judged by TLC; a grammar-directed corpus (all IPv6/IPvFuture/IPv4 shapes, "
                "userinfo, ports, ucschar/iprivate boundaries) and %d single-character mutations; %d (base, reference) pairs of accepted values through 5 resolution entry points + the RFC 5.4 examples. "
                "A resolution answer is right (= RFC), the known third-party deviation (= LibResolve, in a named class) or a violation. distinct = accepted strings and resolution pairs" % (maxlen, hostlen, nmut, npairs))
    ctx.assumptions += ["Iri.tla agrees with oxiri's parser on all 274,812 strings of the design-phase run; RFC 3986 5.4 examples are checked by TLC in MC_Iri"]


def c17(ctx):
    maxlen, hostlen, nmut, npairs = iri_family(ctx, "c17")
    ctx.rule = ("%d (base, IRI, parent limit) triples: all valid absolute IRIs of length <= %d over {a b : / ? # . e-acute}, the C09 corpus, generated hierarchical families, half of them close relatives of the base "
                "(same document, sibling, child, parent), limits {0,1,2,3,255}. Postcondition judged by TLC: a returned reference is a valid IRI reference, uses <= n leading '..', and resolves back to the IRI "
                "under RFC 3986 5.2 or under the library's resolver; None is a violation only for a same-document IRI for which a reference exists. distinct = triples" % (npairs, maxlen))


def show_quads(qs):
    return " . ".join(" ".join(show_term(t) for t in q) for q in qs)


def c07(ctx):
    binary = build()
    mc = Bg(lambda: model_check(ctx, "MC_Iso", workers=4, timeout=900))
    tr = os.path.join(ctx.traces, "iso.ndjson")
    n = 1500 if ctx.quick() else 30000
    sv(binary, ["iso", "--n", n, "--seed", ctx.seed, "--out", tr], ctx=ctx)
    trace = read_trace(tr)
    mism = trace_check(ctx, "Trace_Iso", tr, timeout=3000)
    bad = set()
    for line, fields in mism:
        e = trace[line - 1]
        bad.add(line)
        code, idx = fields[0], int(fields[1]) if len(fields) > 1 else 0
        if e["ev"] == "Iso":
            who = e["names"][idx - 1] if idx else ""
            star = "quoted" if "triple" in json.dumps(e["d1"]) else "plain"
            key = "%s/%s/%s" % (code, e["kind"], star)
            detail = "%s [%s]: d1 = { %s } ; d2 = { %s } ; answers %s" % (code, who, show_quads(e["d1"]), show_quads(e["d2"]), e["res"])
        else:
            key, detail = "panic/" + e.get("kind", ""), "panic: %s" % e.get("msg")
        ctx.violations.append({"key": key, "detail": detail, "event": e, "trace": tr, "line": line})
    ctx.traces_validated += len(trace) - len(bad)
    for e in trace:
        if e["ev"] == "Iso" and e["kind"] != "self":
            ctx.distinct.add(h([e["d1"], e["d2"]]))
    ctx.samples += [{"kind": e["kind"], "d1": show_quads(e["d1"]), "d2": show_quads(e["d2"]), "answers": e["res"][:2]} for e in trace[1:400:97] if e["ev"] == "Iso"]
    mc.join()
    ctx.rule = ("%d random generalized datasets (<=4 blank nodes anywhere: subject, predicate, object, graph name, inside quoted triples nested to depth 2; <=5 quads), each compared with itself, "
                "a relabelled+shuffled copy (fresh labels or a permutation of its own) and 8 kinds of one-step mutants (quad removed / added, a ground term replaced, a ground term changed in ONE detail - language tag, datatype, lexical form, last character of an IRI, also inside quoted triples -, graph name moved, blank nodes merged / split), "
                "over 5 container pairs in both argument orders; default-graph-only pairs also as graphs: Vec / HashSet, a named-graph view and a partial-union view of a larger dataset (loose size hints), a partial-union view yielding shared triples twice, a Vec holding a statement twice, a graph wrapped as a dataset; "
                "TLC decides isomorphism by brute force over all blank-node bijections (Iso.tla). distinct = distinct (d1,d2) pairs other than self" % n)
    ctx.assumptions += ["non-isomorphic pairs that pass the cheap filters are not judged (documented incompleteness of the algorithm)"]


def c03(ctx):
    binary = build()
    mc = Bg(lambda: model_check(ctx, "MC_NQuads", workers=2, timeout=600))
    tr = os.path.join(ctx.traces, "nq.ndjson")
    n = 2500 if ctx.quick() else 40000
    sv(binary, ["nq", "--n", n, "--seed", ctx.seed, "--out", tr], ctx=ctx)
    trace = read_trace(tr)
    mism = trace_check(ctx, "Trace_NQuads", tr, timeout=3000)
    bad = set()
    for line, fields in mism:
        e = trace[line - 1]
        bad.add(line)
        code = fields[0]
        if e["ev"] == "RT":
            key = "%s/%s->%s" % (code, e["ser"], e["parser"])
            detail = "%s: in = { %s } ; text = %r ; reparse: %s %s" % (code, show_quads(e["in"]), uncps(e["text"])[:300], e["out"]["msg"][:150], show_quads(e["out"]["quads"])[:300])
        else:
            key, detail = "panic", "panic: %s" % e.get("msg")
        ctx.violations.append({"key": key, "detail": detail, "event": e, "trace": tr, "line": line})
    ctx.traces_validated += len(trace) - len(bad)
    for e in trace:
        if e["ev"] == "RT":
            ctx.distinct.add(h([e["ser"], e["parser"], e["in"]]))
    ctx.samples += [{"in": show_quads(e["in"]), "text": uncps(e["text"])} for e in trace[700:1500:333] if e["ev"] == "RT"]
    mc.join()
    ctx.rule = ("MC_NQuads: the independent reader and the minimal escaping are mutually inverse on all lexical forms of length <= 3 over 17 escape-relevant characters (5,220 strings). "
                "All 576 two-character lexical forms over 24 characters (quotes, backslash, CR/LF/TAB, C0/C1 controls, DEL, U+2028, combining mark, non-BMP, U+FFFD, markup), every legal label of a 12-label pool, "
                "and %d random strict / RDF-star / generalized datasets are serialised by NtSerializer/NqSerializer; TLC reads the emitted text with the TLA+ reader and compares it, the streaming re-parse "
                "(nt/nq/gnq) and the collector re-parse with the input. distinct = distinct (serializer, parser, dataset)" % n)
    ctx.assumptions += ["language tags are compared case-insensitively (term equality); labels, IRIs and tags are drawn from what the toolkit's own validators accept, as the property's quantifier says"]


def c05(ctx):
    binary = build()
    mc = Bg(lambda: model_check(ctx, "MC_Iso", workers=2, timeout=900))
    tr = os.path.join(ctx.traces, "sha.ndjson")
    n = 520 if ctx.quick() else 4000
    sv(binary, ["c14n", "--mode", "sha", "--n", n, "--seed", ctx.seed, "--out", tr], ctx=ctx)
    trace = read_trace(tr)
    mism = trace_check(ctx, "Trace_C14n", tr, timeout=6000)
    bad = set()
    for line, fields in mism:
        e = trace[line - 1]
        bad.add(line)
        code, idx = fields[0], int(fields[1]) if len(fields) > 1 else 0
        if e["ev"] == "Batch":
            ms = e["members"]
            if idx >= 10:
                a, b = ms[idx // 10 - 1], ms[idx % 10 - 1]
                detail = "%s: [%s] { %s }  vs  [%s] { %s }" % (code, a["container"], show_quads(a["d"]), b["container"], show_quads(b["d"]))
                shape = "blank-graph-names" if any(q[3].get("k") == "bnode" for q in a["d"]) else "plain"
            else:
                a = ms[idx - 1]
                detail = "%s: [%s] { %s } -> %r" % (code, a["container"], show_quads(a["d"]), uncps(a["sha256"]["text"])[:300])
                shape = "blank-graph-names" if any(q[3].get("k") == "bnode" for q in a["d"]) else "plain"
            key = "%s/%s" % (code, shape)
        else:
            key, detail = "panic", "panic: %s" % e.get("msg")
        ctx.violations.append({"key": key, "detail": detail, "event": e, "trace": tr, "line": line})
    ctx.traces_validated += len(trace) - len(bad)
    nn = 0
    for e in trace:
        if e["ev"] == "Batch":
            for m in e["members"]:
                ctx.distinct.add(h(m["d"]))
                nn += 3
    ctx.evaluations = nn
    ctx.samples += [{"container": m["container"], "d": show_quads(m["d"]), "canonical": uncps(m["sha256"]["text"])} for m in trace[3]["members"][:2]] if len(trace) > 3 and trace[3]["ev"] == "Batch" else []
    mc.join()
    ctx.rule = ("%d batches: a symmetric blank-node structure (cycles, cliques, disjoint triangles, stars, K(2,3), cycle+chord, bidirectional cycles, blank graph names, same statement in two graphs, self loops, twins across graphs, random with "
                "escape-relevant literals; <= 6 blank nodes), two relabelled+shuffled copies held in other containers (HashSet, BTreeSet, FastDataset, LightDataset) and three one-step neighbours; real SHA-256 and SHA-384. "
                "TLC decides isomorphism by brute force, reads every canonical document with the independent N-Quads reader, and checks the identifier map. evaluations = normalisations+relabellings judged" % n)
    ctx.assumptions += ["language tags compared literally, as the property says; the dataset judged is what the container holds"]


def c06(ctx):
    binary = build()
    mc = Bg(lambda: model_check(ctx, "MC_Rdfc10", cfg="MC_Rdfc10" if ctx.quick() else "MC_Rdfc10_full", workers=2, timeout=3000))
    # the W3C algorithm is itself label-dependent on "twins across graphs": TLC refutes label independence of the transcription there
    out = tlc(ctx, "MC_Rdfc10", cfg="MC_Rdfc10_twins", workers=2, timeout=900, tag="MC_Rdfc10_twins")
    if "TwinsLabelIndependent is equal to FALSE" not in out and "Invariant TwinsLabelIndependent is violated" not in out:
        raise ToolError("MC_Rdfc10_twins no longer shows the ambiguity of RDFC-1.0 on twins across graphs\n" + out[-1500:])
    ctx.notes.append("Rdfc10.tla: on 'twins across graphs' the W3C text allows two documents (OutcomeDocs), on the 11 symmetric structures exactly one")
    tr = os.path.join(ctx.traces, "toy.ndjson")
    n = 240 if ctx.quick() else 6000
    sv(binary, ["c14n", "--mode", "toy", "--n", n, "--seed", ctx.seed, "--out", tr], ctx=ctx)
    trace = read_trace(tr)
    jobs = [Bg(lambda sd=sd: trace_check(ctx, "Trace_Rdfc10", tr, timeout=6000, tag="Trace_Rdfc10_%s" % sd, cfg="Trace_Rdfc10_%s" % sd)) for sd in ("s0", "s1", "s2", "w0")]
    mism = []
    for j in jobs:
        mism += j.join()
    ctx.evaluations = len(trace)
    bad = set()
    for line, fields in mism:
        e = trace[line - 1]
        bad.add(line)
        code = fields[0]
        if e["ev"] == "Toy":
            twice = any(sum(1 for t in q if t.get("k") == "bnode" and t == b) > 1 for q in e["d"] for b in q if b.get("k") == "bnode")
            key = "%s/%s" % (code, "same-bnode-twice-in-a-quad" if twice else "general")
            detail = "%s (toy hash seed %d, depth factor %.1f, permutation limit %d): { %s } -> %s %r" % (code, e["seed"], e["depth_num"] / 2.0, e["perm_limit"], show_quads(e["d"]), e["res"]["k"], uncps(e["res"]["text"])[:200])
        else:
            key, detail = "panic", "panic: %s" % e.get("msg")
        ctx.violations.append({"key": key, "detail": detail, "event": e, "trace": tr, "line": line})
    ctx.traces_validated += len(trace) - len(bad)
    for e in trace:
        if e["ev"] == "Toy":
            ctx.distinct.add(h([e["d"], e["seed"], e["depth_num"], e["perm_limit"]]))
    ctx.samples += [{"d": show_quads(e["d"]), "seed": e["seed"], "canonical": uncps(e["res"]["text"])} for e in trace[5:7] if e["ev"] == "Toy"]
    mc.join()
    ctx.rule = ("Rdfc10.tla transcribes W3C RDFC-1.0 sections 4.4-4.8 step by step, parameterised by a computable toy hash (four 15-bit polynomial hashes) that is also plugged into the real normalize_with/relabel_with through the public HashFunction trait. "
                "MC_Rdfc10: the transcription is label- and order-independent on 11 symmetric structures and step 5.2.1 is an optimisation only. %d datasets (same families as C05) x toy hash (seed 0, 1, 2: permutes the order of hash values; a 48-byte variant, as wide as SHA-384's digest) x "
                "(depth factor, permutation limit) in {default, 0.5, 2.0} x {1, 2, 6}: TLC recomputes the canonical document and requires byte equality and the same identifier map; where the W3C text leaves a choice (a tie at 5.3 or 5.4.6) "
                "the document and the map must each be one of the outcomes the text allows (Rdfc10!OutcomeCanons, the set-valued reading of the algorithm); 'unsupported' for unsupported input, "
                "and ToxicGraph only when a limit is exceeded in the specification's own run. distinct = (dataset, seed, limits)" % n)
    ctx.assumptions += ["SHA-2 digests are not recomputed in TLA+: conformance with the real hash functions is argued by parametricity (the algorithm touches the hash only through initialize/update/finalize/Ord/hex); C05 exercises the real SHA-256/384",
                        "the blank-node-to-quads map holds each quad once per blank node (set reading of step 2.1, as in the reference implementation)"]


def show_pattern(p):
    o = p["op"]

    def pos(x):
        if "qt" in x:
            return "<< %s >>" % " ".join(pos(y) for y in x["qt"])
        return "?" + x["var"] if "var" in x else "_:" + x["bn"] if "bn" in x else show_term(x["term"])

    def ex(e):
        o = e["op"]
        if o == "var": return "?" + e["name"]
        if o == "const": return show_term(e["term"])
        if o == "bound": return "BOUND(?%s)" % e["name"]
        if o in ("coalesce", "concat"): return "%s(%s)" % (o.upper(), ", ".join(ex(x) for x in e["args"]))
        if o == "if": return "IF(%s, %s, %s)" % (ex(e["c"]), ex(e["a"]), ex(e["b"]))
        if o == "substr": return "SUBSTR(%s)" % ", ".join(ex(e[k]) for k in ("a", "b", "c") if k in e)
        if "b" not in e: return "%s(%s)" % (o, ex(e["a"]))
        if o in ("neg", "pos"): return "%s(%s)" % ("-" if o == "neg" else "+", ex(e["a"]))
        ops = {"or": "||", "and": "&&", "eq": "=", "lt": "<", "ne": "!=", "gt": ">", "le": "<=", "ge": ">=", "add": "+", "sub": "-", "mul": "*"}
        if o in ops: return "(%s %s %s)" % (ex(e["a"]), ops[o], ex(e["b"]))
        return "%s(%s, %s)" % (o, ex(e["a"]), ex(e["b"]))
    if o == "bgp": return "{ " + " . ".join(" ".join(pos(x) for x in tp) for tp in p["tps"]) + " }"
    if o == "union": return "{ %s UNION %s }" % (show_pattern(p["l"]), show_pattern(p["r"]))
    if o == "graphc": return "GRAPH %s %s" % (show_term(p["g"]), show_pattern(p["inner"]))
    if o == "graphv": return "GRAPH ?%s %s" % (p["v"], show_pattern(p["inner"]))
    if o == "filter": return "FILTER[%s] %s" % (ex(p["e"]), show_pattern(p["inner"]))
    if o == "extend": return "BIND[%s AS ?%s] %s" % (ex(p["e"]), p["v"], show_pattern(p["inner"]))
    if o == "distinct": return "DISTINCT %s" % show_pattern(p["inner"])
    if o == "project": return "PROJECT%s %s" % (p["vars"], show_pattern(p["inner"]))
    if o == "slice": return "SLICE(%s,%s) %s" % (p["start"], p["len"], show_pattern(p["inner"]))
    return o


def ops_of(p, acc):
    acc.add(p["op"])
    for k in ("inner", "l", "r"):
        if k in p:
            ops_of(p[k], acc)
    return acc


def c13(ctx):
    binary = build()
    mc = Bg(lambda: model_check(ctx, "MC_Sparql", workers=2, timeout=600))
    tr = os.path.join(ctx.traces, "sparql.ndjson")
    n = 6000 if ctx.quick() else 120000
    sv(binary, ["sparql", "--mode", "c13", "--n", n, "--seed", ctx.seed, "--expr-stride", 4 if ctx.quick() else 1, "--num-universe", os.path.join(HARNESS, "sparql_num_universe.json"), "--out", tr], ctx=ctx)
    trace = read_trace(tr)
    mism = trace_check(ctx, "Trace_Sparql", tr, timeout=6000)
    bad = set()
    for line, fields in mism:
        e = trace[line - 1]
        bad.add(line)
        code = fields[0]
        if e["ev"] == "Query":
            ops = sorted(ops_of(e["p"], set()))
            key = "%s/%s" % (code, "+".join(ops))
            detail = "%s: %s %s over { %s } on %s -> %s vars=%s rows=%s" % (code, "ASK" if e["ask"] else "SELECT", show_pattern(e["p"]), show_quads(e["d"]), e["container"], e["res"]["k"], e["res"]["vars"],
                                                                               [[show_term(c) if c.get("k") != "unbound" else "-" for c in r] for r in e["res"]["rows"]][:6])
        elif e["ev"] == "Unsupported":
            key, detail = "unsupported-answered/" + e["what"], "operator %s is not supported but the engine answered %s" % (e["what"], e["res"]["k"])
        else:
            key, detail = "panic", "panic: %s in %s" % (e.get("msg"), show_pattern(e["p"]) if isinstance(e.get("p"), dict) else e.get("p"))
        ctx.violations.append({"key": key, "detail": detail, "event": e, "trace": tr, "line": line})
    ctx.traces_validated += len(trace) - len(bad)
    for e in trace:
        if e["ev"] == "Query" and (e["res"]["rows"] or e["res"]["b"]):
            ctx.distinct.add(h([e["d"], e["p"]]))
    ctx.samples += [{"query": show_pattern(e["p"]), "data": show_quads(e["d"]), "rows": len(e["res"]["rows"])} for e in trace[10:400:131] if e["ev"] == "Query"]
    mc.join()
    ctx.rule = ("Sparql.tla: SPARQL 1.1 algebra of the supported fragment (BGP with repeated variables / blank-node placeholders, UNION, GRAPH <g> / ?g as a join, FILTER with effective boolean value and the error truth tables, "
                "BIND, DISTINCT, projection, outermost OFFSET/LIMIT as a sub-bag of the right size, ASK), three-valued expressions (= < && || ! BOUND isIRI). %d random (dataset, query) pairs: datasets of <= 6 quads over a default and two named "
                "graphs sharing triples, literals of all value classes; queries of depth <= 3 built DIRECTLY as spargebra algebra, run on Vec/FastDataset/LightDataset; bags of rows over the in-scope variables compared by TLC; "
                "27 unsupported constructs must answer NotImplemented. distinct = (dataset, query) pairs with a non-empty answer" % n)
    ctx.rule += ("; expression fragment also: != > <= >=, + - * on integers, sameTerm, IF, COALESCE, isBlank/isLiteral/isNumeric, STR/LANG/DATATYPE, STRLEN/UCASE/LCASE/SUBSTR/CONCAT, STRSTARTS/STRENDS/CONTAINS, "
                 "the numeric tower of SparqlNum.tla (exact decimal expansions), xsd:dateTime with XML Schema's order relation (offsets, no timezone, 14-hour rule, ill-formed values); "
                 "every function on every tuple of constants of the universe; integer constants also written (c + B) - B with B beyond 64 bits; quoted-triple patterns (nested, sharing variables and placeholders with the group), "
                 "one query in six aimed at the data's quoted triples. Where SPARQL 17.3.1 lets an implementation replace an operator's type error by a value (three named extension points), the answer is accepted under any reading")
    ctx.assumptions += ["(c + B) - B = c for xsd:integer (exact arithmetic, XPath op:numeric-add/subtract): the model is given c, the engine the long form"]


def c14(ctx):
    binary = build()
    mc = Bg(lambda: model_check(ctx, "MC_OrderBy", workers=2, timeout=600))
    tr = os.path.join(ctx.traces, "orderby.ndjson")
    n = 1200 if ctx.quick() else 12000
    sv(binary, ["sparql", "--mode", "c14", "--n", n, "--seed", ctx.seed, "--out", tr], ctx=ctx)
    def st(t):
        return "-" if t.get("k") == "unbound" else show_term(t).replace("http://www.w3.org/2001/XMLSchema#", "xsd:")
    runs = [0]

    def handle(trace, mism, part):
        bad = set()
        for line, fields in mism:
            e = trace[line - 1]
            bad.add(line)
            code, idx = fields[0], int(fields[1]) if len(fields) > 1 else 0
            if e["ev"] == "OrderBy":
                key = "%s/%s" % (code, "+".join("DESC" if k["desc"] else "ASC" for k in e["keys"]))
                out = e["outs"][idx - 1] if idx else (e["outs"][0] if e["outs"] else [])
                detail = "%s keys=%s output=%s %s" % (code, e["keys"], [[st(c) for c in r] for r in out][:8], e["msg"])
            else:
                key, detail = "panic", "panic: %s" % e.get("msg")
            ctx.violations.append({"key": key, "detail": detail, "event": e, "trace": part, "line": line})
        ctx.traces_validated += len(trace) - len(bad)
        for e in trace:
            if e["ev"] == "OrderBy":
                ctx.distinct.add(h([e["rows"], e["keys"]]))
                runs[0] += len(e["outs"])
        if not ctx.samples:
            ctx.samples += [{"keys": e["keys"], "rows": [[st(c) for c in r] for r in e["rows"]], "first_output": [[st(c) for c in r] for r in e["outs"][0]]} for e in trace[3:5] if e["ev"] == "OrderBy" and e["outs"]]
    chunked_validate(ctx, "Trace_OrderBy", tr, handle)
    ctx.evaluations = runs[0]
    mc.join()
    ctx.rule = ("%d multisets: 2-4 rows (every permutation of the input rows is run) or 30-90 rows (4 random permutations), values from a 61-value universe (every numeric XSD type incl. derived and unsigned integer types with facets, integers and decimals closer than a binary64 can tell, NaN, +-INF, -0.0, "
                "a 21-digit decimal, ill-typed literals, unknown datatype, plain/tagged strings, booleans, dateTimes with Z / other offsets / no timezone / impossible dates, IRIs, blank nodes, unbound), one or two ASC/DESC keys; half as many multisets of 3-4 rows drawn from ONE value class (dateTimes; numerics at the limits of the machine types). TLC checks permutation, no inversion of a pair that SPARQL's '<' "
                "or the kind rank orders (Xsd.tla exact decimal arithmetic), later keys breaking ties of same terms, and that ONE total preorder explains all outputs of a batch. "
                "A further %d multisets of 3-4 rows mix stored values with integers computed by BIND(?x - B AS ?v) from stored x = v + B (B beyond 64 bits), a third of them sorted on the key expression ?v + 0. evaluations = ORDER BY runs" % (n, n // 2))
    ctx.assumptions += ["(v + B) - B = v for xsd:integer: the judge is given v as the key of a computed row"]


def rt_validate(ctx, tr, what, chunk_bytes=120_000_000):
    """Events are judged one by one (each carries its input), so a large trace is validated in byte-bounded chunks: neither TLC's
    JSON reader nor this process ever holds more than one.  Returns the first events (for the samples of the evidence file)."""
    head = []

    def flush(lines, idx, whole):
        if not lines:
            return
        part = tr if whole else "%s.part%d" % (tr, idx)
        if not whole:
            with open(part, "w") as f:
                f.writelines(lines)
        trace = [json.loads(l) for l in lines]
        mism = trace_check(ctx, "Trace_RoundTrip", part, timeout=6000, tag="Trace_RoundTrip_%s%s" % (what, "" if whole else "_%d" % idx))
        bad = set()
        for line, fields in mism:
            e = trace[line - 1]
            bad.add(line)
            code = fields[0]
            inp = e if e["ev"] == "RT" else e.get("input", {})
            cfgs = "%s/%s" % (inp.get("fmt"), "pretty" if inp.get("pretty") else "streaming")
            text = uncps(e["text"])[:400] if e.get("text") else ""
            msg = e["out"]["msg"][:160] if e.get("out") else e.get("why", "")
            detail = "%s [%s, prefix map %s, indentation %s]: in = { %s } ; document = %r ; %s" % (code, cfgs, inp.get("pm"), inp.get("indent"), show_quads(inp.get("in", [])), text, msg)
            ctx.violations.append({"key": "%s/%s" % (code, cfgs), "detail": detail, "event": e, "trace": part, "line": line})
        ctx.traces_validated += len(trace) - len(bad)
        for e in trace:
            if e["ev"] == "RT":
                ctx.distinct.add(h([e["fmt"], e["pretty"], e["pm"], e["indent"], e["in"]]))
        if len(head) < 1000:
            head.extend(trace[:1000 - len(head)])
        if not whole and not mism:
            os.remove(part)

    chunk_bytes = int(os.environ.get("SV_RT_CHUNK_BYTES", chunk_bytes))
    for stale in glob.glob(tr + ".part*"):
        os.remove(stale)
    whole = os.path.getsize(tr) <= chunk_bytes
    lines, size, idx = [], 0, 0
    with open(tr, encoding="utf-8", errors="replace") as f:
        for l in f:
            if not l.strip():
                continue
            if size + len(l) > chunk_bytes and lines:
                flush(lines, idx, False)
                lines, size, idx = [], 0, idx + 1
            lines.append(l)
            size += len(l)
    flush(lines, idx, whole and idx == 0)
    return head


def c04(ctx):
    binary = build()
    # (1) the decision procedure of the pretty-printer, model-checked on every small graph
    mc = Bg(lambda: model_check(ctx, "MC_TurtlePretty", workers=4, timeout=900))
    # (2) the same universe, printed by TLC, through the real serializers and parsers
    out = tlc(ctx, "Gen_TurtlePretty", workers=1, timeout=600)
    tlc_must_be_clean(out, "Gen_TurtlePretty")
    graphs = [json.loads(json.loads(l.strip())) for l in out.splitlines() if l.strip().startswith('"{') and "GRAPH" in l[:40]]
    if len(graphs) < 30000:
        raise ToolError("Gen_TurtlePretty printed only %d graphs" % len(graphs))
    genf = os.path.join(ctx.gen, "graphs.ndjson")
    with open(genf, "w") as f:
        for g in graphs:
            f.write(json.dumps(g) + "\n")
    stride = 12 if ctx.quick() else 1
    ctx.exhaustive = not ctx.quick()
    tr1 = os.path.join(ctx.traces, "model.ndjson")
    sv(binary, ["rt", "--family", "turtle-model", "--gen", genf, "--stride", stride, "--seed", ctx.seed, "--out", tr1], ctx=ctx, timeout=3000)
    rt_validate(ctx, tr1, "model")
    # (3) random shapes beyond the model: literals, shorthands, prefix maps, RDF-star, named graphs, streaming mode
    tr2 = os.path.join(ctx.traces, "random.ndjson")
    n = 4000 if ctx.quick() else 80000
    sv(binary, ["rt", "--family", "turtle", "--n", n, "--seed", ctx.seed, "--out", tr2], ctx=ctx, timeout=6000)
    trace = rt_validate(ctx, tr2, "random")
    ctx.samples += [{"config": [e["fmt"], e["pretty"], e["pm"], e["indent"]], "in": show_quads(e["in"]), "document": uncps(e["text"])} for e in trace[40:900:400] if e["ev"] == "RT"]
    # (4) the prefix maps the serializer abbreviates IRIs with: Prefix.tla's laws on every small map, and the real slice implementation
    #     on that universe (get_namespace, get_checked_prefixed_pair with two suffix checks)
    model_check(ctx, "MC_Prefix", workers=4, timeout=600)
    tr3 = os.path.join(ctx.traces, "prefix.ndjson")
    sv(binary, ["prefix", "--stride", 5 if ctx.quick() else 1, "--out", tr3], ctx=ctx, timeout=3000)
    ptrace = read_trace(tr3)
    for line, fields in trace_check(ctx, "Trace_Prefix", tr3, timeout=3000):
        e = ptrace[line - 1]
        m = ", ".join("%s: <%s>" % (uncps(x["p"]), uncps(x["ns"])) for x in e["map"])
        ctx.violations.append({"key": "prefix-map/" + fields[0], "detail": "%s: map [%s], IRI <%s>, suffix check %s -> %s %s:%s" % (fields[0], m, uncps(e["iri"]), e["chk"], e["out"]["k"], uncps(e["out"]["p"]), uncps(e["out"]["suffix"])),
                               "event": e, "trace": tr3, "line": line})
    ctx.traces_validated += len(ptrace)
    mc.join()
    ctx.rule = ("TurtlePretty.tla transcribes the pretty-printer's decision procedure (labelling incl. the cycle walk, subject types, list detection, traversal); TLC checks 'every triple written exactly once' on ALL 36,051 graphs "
                "with <= 3 triples over 3 blank nodes + 1 IRI x {p, rdf:first, rdf:rest} x {blank nodes, IRI, rdf:nil}. TLC prints that universe and every %s graph goes through the real pretty Turtle/TriG serializer and parser "
                "(6 prefix maps, 3 indentations). %d random shapes (blank-node cycles, shared/unreferenced blank nodes, well-formed and malformed lists, asserted-and-quoted triples, blank nodes across graphs, 22 valid/near-valid "
                "numeric and boolean lexical forms, IRIs whose local part needs escaping) x {Turtle, TriG} x {streaming, pretty} x prefix maps (none, overlapping, empty prefix) x indentations; each input in a child process "
                "(memory/time limits; a death is an event). TLC judges isomorphism by brute force. Prefix.tla: the pair returned for an IRI has the longest qualifying namespace and recomposes to the IRI "
                "(laws on 50,624 (map, IRI, check) states; the real PrefixMap for slices on the same universe). distinct = (configuration, dataset)" % ("12th" if ctx.quick() else "single", n))
    ctx.assumptions += ["syntactic validity = acceptance by the shipped parser (no TLA+ grammar of full Turtle)"]


def c12(ctx):
    binary = build()
    # (1) the serializer's list handling, transcribed (JsonLdSer.tla), on EVERY small dataset: general shape (<= 3 quads over
    #     blank / IRI nodes, rdf:first/rest/type, 3 graphs incl. one named by a blank node) and list shape (<= 6 first/rest quads)
    mcs = [Bg(lambda: model_check(ctx, "MC_JsonLdSer", cfg="MC_JsonLdSer_general_fixed", workers=4, timeout=1500, tag="MC_JsonLdSer_general")),
           Bg(lambda: model_check(ctx, "MC_JsonLdSer", cfg="MC_JsonLdSer_lists_fixed", workers=4, timeout=1500, tag="MC_JsonLdSer_lists"))]
    # ... and the transcription can fail: the pinned commit's algorithm, and the first repair (one node unmarked per loop), are refuted
    for cfg in ("MC_JsonLdSer_general_pinned", "MC_JsonLdSer_lists_head1"):
        out = tlc(ctx, "MC_JsonLdSer", cfg=cfg, workers=2, timeout=600, tag=cfg)
        if "Invariant RoundTrips is violated" not in out:
            raise ToolError("JsonLdSer.tla no longer refutes %s: RoundTrips is vacuous\n" % cfg + out[-1500:])
    ctx.notes.append("JsonLdSer.tla: Algo=pinned (panic / loss) and Algo=head1 (endless recursion on b1=[a|b2], b2=[b1|nil]) are refuted by TLC; Algo=fixed satisfies RoundTrips")
    # (2) the same universes, printed by TLC, through the real serializer and parser
    graphs = []
    for cfg in ("Gen_JsonLdSer_general", "Gen_JsonLdSer_lists"):
        out = tlc(ctx, "Gen_JsonLdSer", cfg=cfg, workers=1, timeout=600, tag=cfg)
        tlc_must_be_clean(out, cfg)
        graphs += [json.loads(json.loads(l.strip())) for l in out.splitlines() if l.strip().startswith('"{')]
    if len(graphs) < 40000:
        raise ToolError("Gen_JsonLdSer printed only %d datasets" % len(graphs))
    genf = os.path.join(ctx.gen, "jsonld_datasets.ndjson")
    with open(genf, "w") as f:
        for g in graphs:
            f.write(json.dumps(g) + "\n")
    stride = 8 if ctx.quick() else 1
    tr1 = os.path.join(ctx.traces, "jsonld_model.ndjson")
    sv(binary, ["rt", "--family", "jsonld-model", "--gen", genf, "--stride", stride, "--seed", ctx.seed, "--out", tr1], ctx=ctx, timeout=3000)
    rt_validate(ctx, tr1, "jsonld_model")
    # (3) random shapes beyond the model
    tr = os.path.join(ctx.traces, "jsonld.ndjson")
    n = 3000 if ctx.quick() else 60000
    sv(binary, ["rt", "--family", "jsonld", "--n", n, "--seed", ctx.seed, "--out", tr], ctx=ctx, timeout=6000)
    trace = rt_validate(ctx, tr, "jsonld")
    for m in mcs:
        m.join()
    ctx.exhaustive = not ctx.quick()
    ctx.samples += [{"config": [e["fmt"], e["pm"], e["indent"]], "in": show_quads(e["in"]), "document": uncps(e["text"])[:600]} for e in trace[40:900:400] if e["ev"] == "RT"]
    ctx.rule = ("JsonLdSer.tla transcribes the serializer's list handling (unique parents, described-once, list seeds, marking along rdf:rest, loops of parents, suppression of list nodes); TLC proves on ALL datasets of <= 3 quads "
                "(general shape, 972,151 datasets) and <= 6 rdf:first/rest quads (768,212 datasets) that the document denotes exactly the input minus the recorded rdf:type rdf:List deviation, never crashes, and only drops labels that occur nowhere else. "
                "TLC prints the universes of <= 2 / <= 4 quads (48,220 datasets) and every %s goes through the real serializer and parser. "
                "Trace_RoundTrip.tla: for every (dataset, options) the parse of the output must be isomorphic (Iso.tla) to the JSON-LD-expressible part of the input; %d random datasets: default + named graphs (IRI and blank names), "
                "blank nodes shared between graphs, rdf:first/rest chains well-formed / shared / branching / cyclic / typed rdf:List / split across graphs / headless, rdf:type with IRI and non-IRI objects, rdf:JSON, i18n and "
                "compound-literal shapes; processing modes 1.0/1.1 x use_rdf_type x rdf_direction (same on both sides) x indentation; each input in a child process. distinct = (options, dataset)" % ("8th" if ctx.quick() else "single one", n))
    ctx.assumptions += ["use_native_types excluded (lossy by specification)", "isomorphism judged by TLC (signature-pruned bijection search of Iso.tla)",
                        "the transcription covers processing mode 1.1, use_rdf_type=false, no rdf_direction; the other option settings are covered by trace validation only"]


def c18(ctx):
    binary = build()
    # (1) the per-triple decisions of the serializer, transcribed (XmlSer.tla): guard = expressibility, split = namespace + NCName,
    #     node ids are names and one-to-one - on every string of <= 5 characters over an alphabet with a member of every class
    mc = Bg(lambda: model_check(ctx, "MC_XmlSer", workers=4, timeout=900))
    out = tlc(ctx, "MC_XmlSer", cfg="MC_XmlSer_digits", workers=2, timeout=300, tag="MC_XmlSer_digits")
    if "Invariant Laws is violated" not in out:
        raise ToolError("XmlSer.tla no longer refutes the digits-only node id rule: the laws are vacuous\n" + out[-1500:])
    ctx.notes.append("XmlSer.tla: NodeIdRule=digits-only (labels _1 and 1 collide) is refuted by TLC; the shipped rule satisfies every law")
    tr = os.path.join(ctx.traces, "xml.ndjson")
    n = 3000 if ctx.quick() else 60000
    sv(binary, ["rt", "--family", "xml", "--n", n, "--seed", ctx.seed, "--out", tr], ctx=ctx, timeout=6000)
    trace = rt_validate(ctx, tr, "xml")
    mc.join()
    ctx.samples += [{"config": [e["fmt"], "indentation 4"], "in": show_quads(e["in"]), "document": uncps(e["outs"][4]["text"])[:600]} for e in trace[40:900:400] if e["ev"] == "RT"]
    ctx.rule = ("XmlSer.tla transcribes the guard, the namespace / local-name split and the rdf:nodeID mapping; TLC checks on every string of <= 5 characters that the guard accepts exactly the "
                "expressible predicates, that the split recomposes to the IRI with an NCName local part, and that node ids are names and one-to-one; every property element of every real document must be that split of a predicate of the graph. "
                "Trace_RoundTrip.tla: for every (graph, indentation 0..8) serialisation either fails with an error value or yields a document whose parse is isomorphic to the RDF/XML-expressible part of the graph "
                "(XmlExpressible: predicate IRI splits into namespace + NCName); for graphs with QName-able predicates and XML-legal text (XmlChar) it must succeed; outputs for every indentation must agree. %d random graphs: "
                "literals over markup characters, whitespace runs, leading/trailing newlines, non-BMP, language tags, arbitrary datatypes incl. rdf:XMLLiteral, blank subjects/objects, namespace split points; "
                "each input in a child process. distinct = (indentation set, graph)" % n)


def c19(ctx):
    binary = build()
    # (1) the repaired algorithm is confined on every IRI of <= 5 segments x 4 cache configurations of the modelled file system ...
    mc = Bg(lambda: model_check(ctx, "MC_Loader", workers=6, timeout=900))
    # ... and the model can fail: the pinned commit's algorithm (no guard) is refuted
    out = tlc(ctx, "MC_Loader", cfg="MC_Loader_pinned", workers=2, timeout=600, tag="MC_Loader_pinned")
    if "Invariant Confinement is violated" not in out:
        raise ToolError("the loader model no longer refutes the unguarded algorithm: Confinement is vacuous\n" + out[-1500:])
    ctx.notes.append("Loader.tla: GetPinned (join without guard) is refuted by TLC (e.g. http://ex/a/../secret -> /srv/secret.ttl); GetFixed satisfies Confinement")
    # (2) the world and every IRI, printed by TLC
    out = tlc(ctx, "Gen_Loader", cfg="Gen_Loader" if ctx.quick() else "Gen_Loader_4", workers=1, timeout=900)
    tlc_must_be_clean(out, "Gen_Loader")
    lines = [json.loads(json.loads(l.strip())) for l in out.splitlines() if l.strip().startswith('"{')]
    if len(lines) < 10000 or not any(x.get("world") for x in lines):
        raise ToolError("Gen_Loader printed only %d lines" % len(lines))
    genf = os.path.join(ctx.gen, "loader.ndjson")
    with open(genf, "w") as f:
        for x in lines:
            f.write(json.dumps(x) + "\n")
    ctx.exhaustive = True
    # (3) the real loader in a sandbox built from that world; (4) TLC judges every call
    tr = os.path.join(ctx.traces, "loader.ndjson")
    nrand = 3000 if ctx.quick() else 60000
    sv(binary, ["loader", "--gen", genf, "--seed", ctx.seed, "--random", nrand, "--out", tr], ctx=ctx, timeout=3000)
    trace = read_trace(tr)
    mism = trace_check(ctx, "Trace_Loader", tr, timeout=6000)
    bad = set()
    for line, fields in mism:
        e = trace[line - 1]
        bad.add(line)
        code = fields[0]
        if e["ev"] == "Get":
            detail = "%s: %s(<%s>) with caches #%d returned %s %s %s" % (code, e["via"], e["str"], e["cfg"], e["out"]["k"], "/".join(e["out"]["path"]), e["out"]["msg"][:100])
            key = "%s/%s" % (code, e["via"].split("#")[0])
        else:
            detail = "%s: %s" % (code, json.dumps(e)[:300])
            key = code
        ctx.violations.append({"key": key, "detail": detail, "event": e, "trace": tr, "line": line})
    ctx.traces_validated += len(trace) - len(bad)
    loaded = sum(1 for e in trace if e["ev"] == "Get" and e["out"]["k"] == "file")
    if loaded < 50:
        raise ToolError("only %d calls returned a file: the sandbox is not wired" % loaded)
    for e in trace:
        if e["ev"] == "Get":
            ctx.distinct.add(h([e["cfg"], e["iri"], e["via"]]))
    ctx.samples += [{"via": e["via"], "iri": e["str"], "caches": e["cfg"], "out": e["out"]["k"] + " " + "/".join(e["out"]["path"])} for e in trace[5:len(trace):max(1, len(trace) // 6)] if e["ev"] == "Get"]
    mc.join()
    ctx.notes.append("%d of %d recorded calls returned a file (all inside their cache directory)" % (loaded, len(trace)))
    ctx.rule = ("Loader.tla models the file system the loader talks to (join with absolute replacement, physical '..', ENOENT/EISDIR/ENOTDIR) and the loader's algorithm (first matching namespace, guard, extension retry); "
                "TLC proves Confinement of the repaired algorithm for every IRI of <= 5 segments over 15 segment values x 4 cache configurations (nested / overlapping), and refutes the pinned algorithm. "
                "TLC prints the world and every IRI of <= %d segments; the harness builds that world as a sandbox (each file names itself) and calls the real LocalLoader::get (with and without fragment) and "
                "Resource::get_resource on a link to the IRI found in loaded data; + %d seeded random IRIs of 4..8 further segments. TLC judges every call: a returned file must lie inside the directory of a configured "
                "namespace that prefixes the IRI. distinct = (configuration, IRI, entry point)" % (3 if ctx.quick() else 4, nrand))
    ctx.assumptions += ["no symbolic links inside the cache directories", "POSIX path semantics (the Windows prefix / backslash cases are not run)"]


def show_native(ty, v):
    if not v:
        return "-"
    if ty in ("i32", "isize", "usize"):
        return uncps(v["dec"])
    if ty == "bool":
        return str(v["b"]).lower()
    if ty == "str":
        return repr(uncps(v["s"]))
    return "f64(%s%s bits=%s)" % ("-" if v["neg"] and v["cls"] != "finite" else "", uncps(v["dec"])[:40] if v["cls"] == "finite" else v["cls"], "".join("%04x" % x for x in v["bits"]))


def c20(ctx):
    binary = build()
    # (1) the digit-string arithmetic of the specification agrees with TLC's integers, orders totally, nests the facets
    mc = Bg(lambda: model_check(ctx, "MC_Native", workers=4, timeout=900))
    # (2) the universe of literals, printed by TLC
    out = tlc(ctx, "Gen_Native", workers=1, timeout=600)
    tlc_must_be_clean(out, "Gen_Native")
    rows = [json.loads(json.loads(l.strip())) for l in out.splitlines() if l.strip().startswith('"{')]
    if len(rows) < 2500:
        raise ToolError("Gen_Native printed only %d literals" % len(rows))
    genf = os.path.join(ctx.gen, "native.ndjson")
    with open(genf, "w") as f:
        for x in rows:
            f.write(json.dumps(x) + "\n")
    ctx.exhaustive = True
    tr = os.path.join(ctx.traces, "native.ndjson")
    n = 300 if ctx.quick() else 6000
    sv(binary, ["native", "--gen", genf, "--seed", ctx.seed, "--n", n, "--out", tr], ctx=ctx, timeout=3000)
    trace = read_trace(tr)
    mism = trace_check(ctx, "Trace_Native", tr, timeout=6000)
    bad = set()
    for line, fields in mism:
        e = trace[line - 1]
        bad.add(line)
        code, idx = fields[0], int(fields[1])
        if e["ev"] == "Native":
            via = e["vias"][idx - 1] if idx else None
            detail = "%s: %s value %s is the term %s" % (code, e["ty"], show_native(e["ty"], e["val"]), show_term(e["term"]))
            if via:
                detail += "; via %s -> %s %s %s" % (via["via"], via["out"]["k"], show_native(e["ty"], via["out"]["val"]), via["out"]["msg"][:120])
            key = "%s/%s%s" % (code, e["ty"], "/" + via["via"] if via else "")
        elif e["ev"] == "TryFrom":
            detail = "%s: %s::try_from_term(%s) -> %s %s %s" % (code, e["ty"], show_term(e["term"]), e["out"]["k"], show_native(e["ty"], e["out"]["val"]), e["out"]["msg"][:100])
            dt = uncps(e["term"].get("dt", [])) if e["term"].get("k") == "lit" else e["term"].get("k")
            key = "%s/%s/%s" % (code, e["ty"], dt.split("#")[-1] if dt else "lang")
        else:
            detail = "%s: %s" % (code, json.dumps(e)[:300])
            key = code
        ctx.violations.append({"key": key, "detail": detail, "event": e, "trace": tr, "line": line})
    ctx.traces_validated += len(trace) - len(bad)
    for e in trace:
        ctx.distinct.add(h([e["ev"], e["ty"], e.get("val"), e.get("term")]))
    ctx.samples += [{"ty": e["ty"], "value": show_native(e["ty"], e["val"]), "term": show_term(e["term"])} for e in trace[3:len(trace):max(1, len(trace) // 6)] if e["ev"] == "Native"]
    mc.join()
    ctx.rule = ("Native.tla: a native value must be a plain literal of the datatype of its Rust type whose lexical form is in the lexical space of that datatype and denotes the value (exact digit-string arithmetic; "
                "doubles by exact decimal expansion of the value and of its two neighbours), and must come back unchanged (bit pattern, NaN as NaN) directly, through SimpleTerm and after N-Triples / Turtle (streaming, pretty) / "
                "TriG / RDF/XML / JSON-LD round trips; T::try_from_term on any term must not panic and may succeed only on a lexical form valid for its datatype (facets included), with the denoted value. "
                "%d natives (extremes, zeros, subnormals, infinities, NaN, 17-digit values, %d seeded random per type, strings over escapes / controls / non-BMP) x 8 paths; the %d literals printed by TLC "
                "(49 integer forms x 17 datatypes x 3 types, 57 double forms x 5 datatypes, 11 boolean forms x 3) + non-literal terms. distinct = (event kind, type, value, term)" % (sum(1 for e in trace if e["ev"] == "Native"), n, len(rows)))
    ctx.assumptions += ["xsd:float results are judged by class and sign only (both roundings are faithful readings)", "64-bit isize / usize"]


def c16(ctx):
    dev = build()
    rel = build(release=True)
    # (1) the design rule: per-element work done by the running frame keeps the stack independent of the size ...
    mc = Bg(lambda: model_check(ctx, "MC_Stack", workers=2, timeout=300))
    # ... and the model can fail: one call per element (no tail-call elimination) is refuted
    out = tlc(ctx, "MC_Stack", cfg="MC_Stack_recursive", workers=2, timeout=300, tag="MC_Stack_recursive")
    if "Invariant StackIndependentOfSize is violated" not in out:
        raise ToolError("Stack.tla no longer refutes the recursive style: the invariant is vacuous\n" + out[-1500:])
    ctx.notes.append("Stack.tla: Style=recursive is refuted by TLC (StackIndependentOfSize), Style=loop satisfies it")
    # ... for EVERY size: Apalache discharges the inductive invariant of the loop style with Size, Nest, Base unbounded
    apalache(ctx, "StackA", ["--cinit=ConstInit", "--init=Init", "--inv=IndInv", "--length=0"])
    apalache(ctx, "StackA", ["--cinit=ConstInit", "--init=IndInit", "--inv=IndInv", "--length=1"])
    apalache(ctx, "StackA", ["--cinit=ConstInit", "--init=IndInit", "--inv=StackIndependentOfSize", "--length=0"])
    ctx.notes.append("StackA.tla (Apalache, unbounded Size / Nest / Base): Init => IndInv, IndInv /\\ Next => IndInv', IndInv => StackIndependentOfSize")
    # (2) peak stack use of the real operations, measured by stack painting on 2 MiB threads in child processes
    sizes = "2000,20000" if ctx.quick() else "5000,50000,500000,1000000"
    tr = os.path.join(ctx.traces, "stack.ndjson")
    parts = []
    for prof, binary in (("dev", dev), ("release", rel)):
        part = os.path.join(ctx.traces, "stack_%s.ndjson" % prof)
        sv(binary, ["stack", "--sizes", sizes, "--out", part], ctx=ctx, timeout=20000)
        parts.append(part)
    with open(tr, "w") as f:
        for part in parts:
            f.write(open(part).read())
    trace = read_trace(tr)
    mism = trace_check(ctx, "Trace_Stack", tr, timeout=3000)
    bad = set()
    for line, fields in mism:
        e = trace[line - 1]
        bad.add(line)
        code = fields[0]
        if e["ev"] == "Stack":
            first = next(x for x in trace if x["ev"] == "Stack" and x["op"] == e["op"] and x["profile"] == e["profile"])
            detail = "%s: %s [%s] uses %d bytes of stack for %d elements but %d bytes for %d" % (code, e["op"], e["profile"], first["peak"], first["n"], e["peak"], e["n"])
            key = "%s/%s/%s" % (code, e["op"], e["profile"])
        else:
            inp = e.get("input", {})
            detail = "%s: %s [%s] with %s elements: %s" % (code, inp.get("op"), inp.get("profile"), inp.get("n"), e.get("why"))
            key = "%s/%s/%s" % (code, inp.get("op"), inp.get("profile"))
        ctx.violations.append({"key": key, "detail": detail, "event": e, "trace": tr, "line": line})
    ctx.traces_validated += len(trace) - len(bad)
    for e in trace:
        if e["ev"] == "Stack":
            ctx.distinct.add(h([e["op"], e["profile"], e["n"]]))
    ops = sorted(set(e["op"] for e in trace if e["ev"] == "Stack"))
    ctx.samples += [{"op": e["op"], "profile": e["profile"], "elements": e["n"], "peak_stack_bytes": e["peak"], "ms": e["ms"]} for e in trace[1:len(trace):max(1, len(trace) // 8)] if e["ev"] == "Stack"]
    mc.join()
    ctx.rule = ("Stack.tla: the frames in use may depend on the nesting depth of the data, never on the number of elements (TLC: holds for the loop style, refuted for one call per element). "
                "Trace_Stack.tla judges measurements of the real code: %d operations (pattern queries hitting each of the 5 matching iterators through closure matchers on Fast/Light datasets and graphs, insert / remove / retain, "
                "serialisers and parsers of all formats on documents, on one literal with that many escaped characters, on one RDF list with that many items, on that many named graphs, SPARQL GRAPH ?g / FILTER / ORDER BY / DISTINCT+UNION, "
                "RDFC-1.0, isomorphism) x sizes %s x {dev, release}; each in a child process on a thread with a 2 MiB stack painted beforehand, the high-water mark read back afterwards. "
                "A dead child is a violation; the peak at a larger size may exceed the peak at the smallest by at most 16 KiB. distinct = (operation, profile, size)" % (len(ops), sizes))
    ctx.assumptions += ["operations whose running time is quadratic in the data (pretty serialisers, GRAPH ?g over a Vec dataset) run at a tenth of the size", "Linux, x86-64: the thread stack grows downwards and is mapped contiguously"]


def c08(ctx):
    ctx.level = "exploration"       # as claimed in MANIFEST.json: mutation-based exploration judged by the TLA+ trace specification
    dev = build()
    rel = build(release=True)
    per = 1500 if ctx.quick() else 25000
    tr = os.path.join(ctx.traces, "parse.ndjson")
    parts = []
    for prof, binary in (("dev", dev), ("release", rel)):
        part = os.path.join(ctx.traces, "parse_%s.ndjson" % prof)
        sv(binary, ["parse", "--seed", ctx.seed, "--per-parser", per, "--out", part], ctx=ctx, timeout=20000)
        parts.append(part)
    with open(tr, "w") as f:
        for part in parts:
            f.write(open(part).read())
    trace = read_trace(tr)
    mism = trace_check(ctx, "Trace_Parse", tr, timeout=6000)
    bad = set()

    def klass(desc):
        for w in ("nested", "tokens of", "valid document", "UTF", "in front", "at the end", "in the middle", "empty input", "NUL", "high bit", "deleted", "truncated", "flipped", "replaced", "inserted"):
            if w in desc:
                return {"nested": "deep-nesting", "tokens of": "long-tokens", "valid document": "valid", "deleted": "single-edit", "truncated": "single-edit", "flipped": "single-edit", "replaced": "single-edit", "inserted": "single-edit"}.get(w, "encoding")
        return "other"
    for line, fields in mism:
        e = trace[line - 1]
        bad.add(line)
        code, idx = fields[0], int(fields[1])
        inp = e if e["ev"] == "Parse" else e.get("input", {})
        text = bytes(inp.get("input", [])).decode("utf-8", "replace")[:300]
        if e["ev"] == "Parse" and idx:
            t = e["terms"][idx - 1]
            what = "%s %r" % (t["kind"], uncps(t["v"]))
        else:
            what = e.get("msg") or e.get("why", "")
        detail = "%s: %s parser [%s] on %s (%d bytes%s): %s" % (code, inp.get("parser"), inp.get("profile"), inp.get("desc"), inp.get("len", 0), (": %r" % text) if text else "", what[:200])
        key = "%s/%s/%s" % (code, inp.get("parser"), klass(inp.get("desc", "")))
        if code == "process-died-or-hung":
            key += "/" + inp.get("desc", "").split(" nested")[0].replace(" ", "-")
        if code == "panic":
            key = "panic/%s/%s" % (inp.get("parser"), re.sub(r"[^A-Za-z0-9]+", "-", (e.get("msg") or "")[:60]).strip("-"))
        ctx.violations.append({"key": key, "detail": detail, "event": e, "trace": tr, "line": line})
    ctx.traces_validated += len(trace) - len(bad)
    nterms = 0
    for e in trace:
        if e["ev"] == "Parse":
            ctx.distinct.add(h([e["parser"], e["profile"], e["idx"]]))
            nterms += len(e["terms"])
    oks = sum(1 for e in trace if e["ev"] == "Parse" and e["out"] == "ok")
    ctx.samples += [{"parser": e["parser"], "profile": e["profile"], "input": e["desc"], "out": e["out"], "statements": e["n"], "terms": len(e["terms"])} for e in trace[7:len(trace):max(1, len(trace) // 8)] if e["ev"] == "Parse"]
    ctx.rule = ("Trace_Parse.tla: a run of a parser on any byte string ends with statements or an error value - never a panic or a dead process - and every term handed out (also before an error) is valid: "
                "IRIs by RFC 3987 (Iri.tla; absolute for strict parsers), blank node labels, language tags and variable names by Validity.tla, and accepted by the toolkit's own validators. "
                "8 parsers (N-Triples, N-Quads, Turtle, TriG, generalized N-Quads / TriG, RDF/XML, JSON-LD) x {dev, release} x %d inputs each: valid documents (IPv6 hosts, empty segments, percent-escapes, non-ASCII labels and tags, "
                "collections, property lists, quoted triples, XML parse types, JSON-LD lists / graphs / @json), EVERY deletion / truncation / bit flip of them while the budget lasts then seeded byte replacements and insertions "
                "(incl. invalid UTF-8), nesting of collections / property lists / quoted triples / XML elements / JSON arrays 10, 1000 and 100000 deep, tokens of 10^2..10^6 characters; each input in a child process on a 2 MiB stack. "
                "%d runs yielded statements, %d terms were judged. distinct = (parser, profile, input)" % (per, oks, nterms))
    ctx.assumptions += ["terms longer than 120 characters are judged by the toolkit's validator only", "JSON-LD without remote contexts"]


FAMILIES = {
    "C08": c08,
    "C16": c16,
    "C20": c20,
    "C19": c19,
    "C12": c12,
    "C18": c18,
    "C04": c04,
    "C13": c13,
    "C14": c14,
    "C05": c05,
    "C06": c06,
    "C03": c03,
    "C07": c07,
    "C09": c09,
    "C17": c17,
    "C10": c10,
    "C02": c02,
    "C15": c15,
    "C11": c11,
    "C01": c01,
}
