#!/bin/bash
# usage: tools/run_all.sh [quick|thorough]   -- every check of MANIFEST.json in turn; one summary line per check
cd "$(dirname "$0")/.."
tier=${1:-quick}
(cd harness && CARGO_NET_OFFLINE=true cargo build --offline --quiet 2>/dev/null; CARGO_NET_OFFLINE=true cargo build --offline --release --quiet 2>/dev/null)
mkdir -p work
for id in C01 C02 C03 C04 C05 C06 C07 C08 C09 C10 C11 C12 C13 C14 C15 C16 C17 C18 C19 C20; do
  s=$(date +%s)
  timeout 20000 ./check $id --tier $tier > work/run_all_$id.log 2>&1; rc=$?
  echo "$id rc=$rc $(( $(date +%s) - s ))s :: $(grep -c '^VIOLATION' work/run_all_$id.log) violations :: $(tail -1 work/run_all_$id.log | cut -c1-220)"
  grep '^VIOLATION' work/run_all_$id.log | cut -c1-600 | head -5
done
echo ALLDONE
