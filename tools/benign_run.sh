#!/bin/bash
# usage (inside a `vp run --with-repo` snapshot, cwd = snapshot of /verif): tools/benign_run.sh <area number>
# applies benign/a<k>b<i>/patch.diff to the snapshot of /repo one after the other and runs the quick checks of the properties
# anchored in the crates each touches.  A VIOLATION here is a FALSE ALARM of the machinery.
k=$1
sed -i "s#\"/repo/#\"$VP_RUN_REPO/#" harness/Cargo.toml
(cd harness && CARGO_NET_OFFLINE=true cargo build --offline --quiet 2>/dev/null; CARGO_NET_OFFLINE=true cargo build --offline --release --quiet 2>/dev/null)
for b in 1 2 3 4; do
  patch=$(realpath benign/a${k}b${b}/patch.diff)
  ids=$(python3 - "$patch" <<'PY'
import sys,re
m={"inmem/":"C01 C10 C11 C15 C16","api/src/source":"C15 C16","api/src/dataset":"C01 C11 C15","api/src/graph":"C01 C11 C15","turtle/":"C03 C04 C08 C15 C16 C20",
   "xml/":"C08 C18 C15 C20","rio/":"C03 C04 C08 C18 C15","jsonld/":"C12 C08 C16 C20","sparql/":"C13 C14 C16 C02","c14n/":"C05 C06 C16","isomorphism/":"C07 C16",
   "iri/":"C09 C17 C08","api/src/term":"C02 C20 C08 C01","api/src/ns":"C02 C09 C03","api/src/prefix":"C04","term/":"C02","resource/":"C19","api/src":"C01 C02 C15"}
files=re.findall(r"^\+\+\+ b/(\S+)",open(sys.argv[1]).read(),re.M)
ids=set()
for f in files:
    best=max((k for k in m if f.startswith(k)),key=len,default=None)
    if best: ids.update(m[best].split())
print(" ".join(sorted(ids)))
PY
)
  (cd $VP_RUN_REPO && git apply "$patch") || { echo "a${k}b${b}: PATCH DOES NOT APPLY"; continue; }
  echo "== a${k}b${b} checks: $ids"
  for id in $ids; do
    timeout 3000 ./check $id --tier quick > work_benign_$id.log 2>&1; rc=$?
    echo "a${k}b${b} $id rc=$rc $(grep -c '^VIOLATION' work_benign_$id.log) :: $(tail -1 work_benign_$id.log | cut -c1-160)"
    grep -E '^VIOLATION|TOOL-ERROR' work_benign_$id.log | cut -c1-500 | head -3
  done
  (cd $VP_RUN_REPO && git checkout -q -- . && git clean -fdq -- . >/dev/null 2>&1)
done
echo BENIGN-DONE
