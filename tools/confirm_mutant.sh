#!/bin/bash
# usage: tools/confirm_mutant.sh <mutant dir with patch.diff demo.rs> <outfile>
# Confirms in a scratch worktree (/tmp/wt-confirm): patch applies, workspace builds and the EXISTING tests pass with it,
# the demonstration fails with the patch and passes without it.
set -u
md=$1; outf=$2
wt=/tmp/wt-confirm
base=9f1ceaf
[ -f "$md/../../BASE" ] && base=$(cat "$md/../../BASE")
if [ ! -d $wt ]; then git -C /repo worktree add -q --detach $wt $base || exit 2; fi
cd $wt && git checkout -q -- . && git clean -fdq -e target && git checkout -q --detach $base
first=$(head -1 $md/demo.rs)
dest=$(echo "$first" | sed -E 's/.*[Cc]opy to ([^ ;]+).*/\1/')
cmd=$(echo "$first" | sed -E 's/.*run: *(cargo test.*)$/\1/')
{
echo "mutant: $md (base $base)"; echo "demo -> $dest ; cmd: $cmd"
git apply --check $md/patch.diff && echo "APPLY: ok" || { echo "APPLY: FAIL"; exit 0; }
mkdir -p $(dirname $dest); cp $md/demo.rs $dest
$cmd > /tmp/confirm_demo0.log 2>&1; r0=$?
echo "DEMO without patch: rc=$r0 $(grep -E '^test result' /tmp/confirm_demo0.log | tail -1)"
git apply $md/patch.diff
$cmd > /tmp/confirm_demo1.log 2>&1; r1=$?
echo "DEMO with patch: rc=$r1 $(grep -E '^test result' /tmp/confirm_demo1.log | tail -1)"
rm -f $dest
cargo test --workspace --offline --no-fail-fast > /tmp/confirm_ws.log 2>&1; rw=$?
pass=$(grep -E '^test result' /tmp/confirm_ws.log | awk '{s+=$4} END {print s}')
fail=$(grep -E '^test result' /tmp/confirm_ws.log | awk '{s+=$6} END {print s}')
echo "WORKSPACE TESTS with patch: rc=$rw passed=$pass failed=$fail"
if [ $r0 -eq 0 ] && [ $r1 -ne 0 ] && [ $rw -eq 0 ]; then echo "CONFIRMED"; else echo "NOT-CONFIRMED"; fi
} > $outf 2>&1
cd $wt && git checkout -q -- . && git clean -fdq -e target
