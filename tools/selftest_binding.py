#!/usr/bin/env python3
"""Demonstrates that the trace specifications are bound to what the real code recorded: for each family, take the trace of the last
run of its check (traces/<ID>/), corrupt ONE recorded field of one event, and let the same TLC judge look at it: the corrupted trace
must be rejected (a MISMATCH on that event), the uncorrupted one accepted.  usage: tools/selftest_binding.py [ID ...]
(prints one line per family; exit 1 if a corruption went unnoticed; needs the traces of a previous `./check <ID> --tier quick`)."""
import sys, os, json, copy, tempfile, shutil
sys.path.insert(0, os.path.dirname(os.path.abspath(__file__)))
from core import *

V = os.path.dirname(os.path.dirname(os.path.abspath(__file__)))


def first(lines, pred):
    for i, l in enumerate(lines):
        e = json.loads(l)
        if pred(e):
            return i, e
    return None, None


def since_reset(lines, i):
    j = i
    while j > 0 and '"ev":"Reset"' not in lines[j][:80]:
        j -= 1
    return j


def drop_row(e):
    e["rows"] = e["rows"][1:]


def c13_drop(e):
    e["res"]["rows"] = e["res"]["rows"][1:]


def c14_reverse(e):
    e["outs"][0] = list(reversed(e["outs"][0]))


def numeric_rows(e):
    if e["ev"] != "OrderBy" or not e["outs"] or e.get("failed"):
        return False
    ints = [r[0] for r in e["rows"] if r[0].get("k") == "lit" and "".join(map(chr, r[0].get("dt", []))).endswith("#integer") and "".join(map(chr, r[0]["lex"])).lstrip("-").isdigit()]
    vals = {int("".join(map(chr, t["lex"]))) for t in ints}
    return len(e["keys"]) == 1 and len(e["rows"]) >= 3 and len(vals) >= 2 and len(ints) == len(e["rows"])


FAMILIES = {
    # id: (trace file, module, cfg, stateful, predicate choosing the event, corruption, what is corrupted)
    "C01": ("random.ndjson.part0|random.ndjson", "Trace_Store", None, True, lambda e: e["ev"] == "Match" and len(e.get("rows", [])) >= 1, drop_row, "one row removed from a recorded pattern-query answer"),
    "C03": ("nq.ndjson", "Trace_NQuads", None, False, lambda e: e["ev"] == "RT" and e.get("serok") and len(e["text"]) > 10, lambda e: e.__setitem__("text", e["text"][:-3]), "the recorded document loses its last characters"),
    "C07": ("iso.ndjson", "Trace_Iso", None, False, lambda e: e["ev"] == "Iso" and e["kind"] == "relabel" and e["res"][0], lambda e: e["res"].__setitem__(0, False), "a recorded answer true becomes false"),
    "C09": ("iri.ndjson", "Trace_Iri", None, False, lambda e: e["ev"] == "Validate" and e["r"]["iri_new"] and len(e["s"]) > 5, lambda e: e["r"].__setitem__("iri_new", False), "a recorded verdict of Iri::new is flipped"),
    "C13": ("sparql.ndjson", "Trace_Sparql", None, False, lambda e: e["ev"] == "Query" and not e["ask"] and e["res"].get("k") == "rows" and len(e["res"]["rows"]) >= 1 and e["p"]["op"] != "slice", c13_drop, "one solution removed from a recorded result"),
    "C14": ("orderby.ndjson", "Trace_OrderBy", None, False, numeric_rows, c14_reverse, "one recorded ORDER BY output reversed"),
    "C15": ("streams.ndjson", "Trace_Streams", None, False, lambda e: e["ev"] == "Pipe" and e["result"] == "ok" and e["dknown"] and len(e["delivered"]) >= 2 and e["sink"] == "closure", lambda e: e.__setitem__("delivered", e["delivered"][:-1]), "the last delivered item removed from a recorded pipeline run"),
    "C19": ("loader.ndjson", "Trace_Loader", None, True, lambda e: e["ev"] == "Get" and e["out"]["k"] == "file", lambda e: e["out"].__setitem__("path", ["etc", "pw.ttl"]), "a recorded answer of the loader names a file outside its directories"),
    "C20": ("native.ndjson", "Trace_Native", None, False, lambda e: e["ev"] == "Native" and e["ty"] == "i32" and e["val"] != {"dec": [48]}, lambda e: e["vias"][2]["out"].__setitem__("val", {"dec": [48]}), "a recorded value after the N-Triples round trip becomes 0"),
}


def run(pid):
    files, module, cfg, stateful, pred, corrupt, what = FAMILIES[pid]
    path = next((os.path.join(V, "traces", pid, f) for f in files.split("|") if os.path.exists(os.path.join(V, "traces", pid, f))), None)
    if path is None:
        print("%s: no trace on disk (run ./check %s --tier quick first)" % (pid, pid))
        return None
    lines = []
    with open(path, encoding="utf-8", errors="replace") as f:
        for l in f:
            if l.strip():
                lines.append(l)
            if len(lines) >= 60000:
                break
    i, e = first(lines, pred)
    if e is None:
        print("%s: no suitable event in %s" % (pid, path))
        return None
    start = since_reset(lines, i) if stateful else i
    if pid == "C19":
        start = 0           # the Config events come first
    prefix = lines[start:i]
    bad = copy.deepcopy(e)
    corrupt(bad)
    tmp = tempfile.mkdtemp(prefix="sv_selftest_")
    try:
        import types
        ctx = types.SimpleNamespace(work=tmp, states=0, transitions=0, evaluations=0)      # (a real Ctx would wipe the traces of the family)
        results = []
        for name, ev in (("recorded", e), ("corrupted", bad)):
            p = os.path.join(tmp, name + ".ndjson")
            with open(p, "w") as f:
                f.writelines(prefix)
                f.write(json.dumps(ev) + "\n")
            mism = trace_check(ctx, module, p, cfg=cfg, tag="selftest_%s_%s" % (pid, name))
            results.append([m for m in mism if m[0] == len(prefix) + 1])
        ok = (not results[0]) and bool(results[1])
        print("%s %s: %s -> recorded trace %s, corrupted trace %s%s" % (pid, module, what, "accepted" if not results[0] else "REJECTED", "rejected" if results[1] else "ACCEPTED",
                                                                      " (%s)" % results[1][0][1][0] if results[1] else ""))
        return ok
    finally:
        shutil.rmtree(tmp, ignore_errors=True)


if __name__ == "__main__":
    ids = sys.argv[1:] or sorted(FAMILIES)
    res = [run(p) for p in ids]
    sys.exit(1 if any(r is False for r in res) else 0)
