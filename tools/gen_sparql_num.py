#!/usr/bin/env python3
"""Writes spec/SparqlNum.tla and harness/sparql_num_universe.json: the numeric literals of C13's comparison universe with the
exact decimal expansion of their value in their own datatype and after the XPath casts of numeric type promotion."""
import struct, json, os
from decimal import Decimal, getcontext
getcontext().prec = 400
V = os.path.dirname(os.path.dirname(os.path.abspath(__file__)))
XSD = "http://www.w3.org/2001/XMLSchema#"
def f32(x): return struct.unpack('f', struct.pack('f', float(x)))[0]
def exact(v):
    s = format(Decimal(v), 'f')
    if '.' in s: s = s.rstrip('0').rstrip('.')
    return s if s not in ('-0', '') else '0'
cp = lambda s: "<<" + ", ".join(str(ord(c)) for c in s) + ">>"
rows = []
for lex in ["0.1", "0.5", "16777217", "1e0", "-0.0", "1.0E-1"]:
    rows += [(lex, "float"), (lex, "double")]
rows += [(lex, "decimal") for lex in ["0.1", "0.5", "16777217", "1", "1.50", "-0.0", "16777216"]]
rows += [(lex, "integer") for lex in ["1", "16777217", "0", "16777216"]]
out = []
for lex, dt in rows:
    if dt == "float": own = exact(f32(float(lex))); a32 = own; a64 = own
    elif dt == "double": own = exact(float(lex)); a32 = "-"; a64 = own
    else:
        own = format(Decimal(lex), 'f'); own = own.rstrip('0').rstrip('.') if '.' in own else own
        if own in ('-0', ''): own = '0'
        a32 = exact(f32(float(lex))); a64 = exact(float(lex))
    out.append((lex, dt, own, a32, a64))
with open(os.path.join(V, "spec", "SparqlNum.tla"), "w") as f:
    f.write("---- MODULE SparqlNum ----\n\\* GENERATED (tools/gen_sparql_num.py): the numeric literals of the comparison universe of C13 with the EXACT decimal expansion\n\\* of the value they denote in their own datatype (val), and after the XPath casts used by numeric type promotion\n\\* integer -> decimal -> float -> double (f32: as xsd:float = nearest binary32; f64: as xsd:double = nearest binary64;\n\\* \"-\" where promotion never goes that way). Computed with Python's struct / decimal; TLC compares the expansions\n\\* with Xsd.tla's digit-string arithmetic.\nEXTENDS Naturals, Sequences\nNumTable == <<\n")
    for k, (l, d, v, a, b) in enumerate(out):
        f.write('  [lex |-> %s, dt |-> %s, val |-> %s, f32 |-> %s, f64 |-> %s]%s  \\* "%s"^^xsd:%s\n' % (cp(l), cp(XSD + d), cp(v), cp(a), cp(b), "," if k + 1 < len(out) else "", l, d))
    f.write(">>\n====\n")
json.dump([{"lex": l, "dt": XSD + d} for l, d, v, a, b in out], open(os.path.join(V, "harness", "sparql_num_universe.json"), "w"))
print(len(out), "numeric literals")
