#!/bin/bash
# usage (inside a `vp run --with-repo` snapshot, cwd = snapshot of /verif): tools/mutants_run.sh <k> <n> [tier]
# every n-th seeded change (starting at the k-th) is applied to the snapshot of /repo, the quick check of its property is run, the change undone.
# One line per change: DETECTED (rc=1 with a VIOLATION line), MISSED (rc=0), or what went wrong.
k=$1; n=$2; tier=${3:-quick}
sed -i "s#\"/repo/#\"$VP_RUN_REPO/#" harness/Cargo.toml
(cd harness && CARGO_NET_OFFLINE=true cargo build --offline --quiet 2>/dev/null; CARGO_NET_OFFLINE=true cargo build --offline --release --quiet 2>/dev/null)
python3 tools/gen_chains.py >/dev/null 2>&1
i=0
for d in $(ls -d seeded/*/ | sort -V); do
  i=$((i+1)); [ $(( i % n )) -eq $(( k % n )) ] || continue
  name=$(basename $d); id=${name%%-*}; patch=$(realpath $d/patch.diff)
  if ! (cd $VP_RUN_REPO && git apply --check "$patch" 2>/dev/null); then
    if (cd $VP_RUN_REPO && patch -p1 -F3 --dry-run -s < "$patch" >/dev/null 2>&1); then (cd $VP_RUN_REPO && patch -p1 -F3 -s < "$patch"); fuzz=" (fuzz)"; else echo "$name PATCH-DOES-NOT-APPLY"; continue; fi
  else (cd $VP_RUN_REPO && git apply "$patch"); fuzz=""; fi
  s=$(date +%s)
  timeout 3000 ./check $id --tier $tier > work_mut.log 2>&1; rc=$?
  v=$(grep -c '^VIOLATION' work_mut.log)
  case "$rc/$v" in 1/0) st="RC1-WITHOUT-VIOLATION-LINE";; 1/*) st="DETECTED";; 0/*) st="MISSED";; *) st="TOOL-ERROR(rc=$rc)";; esac
  echo "$name $st$fuzz $(( $(date +%s) - s ))s :: $(grep -E '^VIOLATION' work_mut.log | head -1 | cut -c1-200 | sed 's/replay=[^ ]* //') :: $(tail -1 work_mut.log | cut -c1-160)"
  (cd $VP_RUN_REPO && git checkout -q -- . && git clean -fdq -- . >/dev/null 2>&1; find . -name '*.orig' -o -name '*.rej' | grep -v target | xargs -r rm -f)
done
echo MUTANTS-DONE
