#!/bin/bash
# usage: tools/prep_seed_agent.sh <ID> <suffix> [extra note file]  -- scratch worktree /tmp/wt-<ID><suffix> at /repo's HEAD + prompt file /tmp/<ID><suffix>_prompt.txt
id=$1; suf=$2; wt=/tmp/wt-$id$suf
git -C /repo worktree add -q --detach $wt HEAD && git -C /repo rev-parse --short HEAD > $wt/BASE
python3 - "$id" "$wt" "${3:-}" <<'PY'
import json,sys
pid,wt,extra=sys.argv[1:4]
for l in open('/verif/properties.jsonl'):
    p=json.loads(l)
    if p['id']==pid:
        t=open('/verif/tools/seed_agent_prompt.txt').read()
        txt="%s: %s\n\n%s\n\nQuantified over: %s\n\nWhy tests cannot settle it: %s\n\nAnchors: %s"%(p['id'],p['title'],p['statement'],p['quantifier']['text'],p['why_tests_cant'],json.dumps(p['anchors'],indent=1))
        t=t.replace('PROPERTY_TEXT',txt).replace('WORKTREE',wt).replace('a detached checkout of the pinned commit','a detached checkout of the current development head; the file BASE in it holds the commit id')
        t+="\n\nNOTE: the checked-out code is the current development head, on which several defects related to this property have already been repaired (see `git log --oneline | head -40` in the worktree: commits starting with 'fix:'). Your mutants must break the property on THIS code, preferably in mechanisms different from the ones those commits touched, or by subtly weakening one of those repairs. Each demo's first line must have the exact form: `// copy to <path>; run: cargo test --offline -p <crate> --test <name>` (create the tests/ directory if the crate has none)."
        if extra: t+="\n"+open(extra).read()
        open('/tmp/%s_prompt.txt'%(wt.split('-')[-1]),'w').write(t)
        print('/tmp/%s_prompt.txt'%(wt.split('-')[-1]))
PY
