#!/usr/bin/env python3
"""show_rt.py <replay.json>... : human-readable view of a round-trip violation (input, document, output)"""
import json, sys, os
sys.path.insert(0, os.path.dirname(os.path.abspath(__file__)))
from families import show_quads, uncps
for f in sys.argv[1:]:
    r = json.load(open(f))
    e = r["first"]["event"] if "first" in r else r
    print("==", f, r.get("key"), "x", r.get("occurrences"))
    inp = e if e["ev"] == "RT" else e.get("input", {})
    print("fmt", inp.get("fmt"), "pretty", inp.get("pretty"), "pm", inp.get("pm"), "indent", inp.get("indent"))
    for q in show_quads(inp.get("in", [])).split(" . "):
        print("  IN ", q)
    if e.get("text"):
        print(uncps(e["text"]))
    o = e.get("out") or {}
    print("  out:", {k: (v if k != "quads" else None) for k, v in o.items()})
    for q in show_quads(o.get("quads", [])).split(" . "):
        print("  OUT", q)
