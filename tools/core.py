"""Shared machinery of ./check: building the harness, running TLC, trace validation, findings, evidence."""
import os, re, sys, json, time, subprocess, fcntl, shutil

V = os.path.dirname(os.path.dirname(os.path.abspath(__file__)))
HARNESS = os.path.join(V, "harness")
SPEC = os.path.join(V, "spec")
MC = os.path.join(V, "mc")
TLC_CP = "/opt/veriftools/tla/tla2tools.jar:/opt/veriftools/tla/CommunityModules-deps.jar"
JAVA_OPTS = "-Xss1g -Dtlc2.tool.queue.IStateQueue=StateDeque -DTLA-Library=" + SPEC


class ToolError(Exception):
    pass


def log(*a):
    print(*a, flush=True)


class Bg:
    """Run a step in a background thread; join() re-raises its exception."""
    def __init__(self, fn):
        import threading
        self.exc = None
        self.res = None
        def run():
            try:
                self.res = fn()
            except BaseException as e:      # noqa
                self.exc = e
        self.t = threading.Thread(target=run)
        self.t.start()

    def join(self):
        self.t.join()
        if self.exc:
            raise self.exc
        return self.res


class Ctx:
    def __init__(self, pid, tier, seed):
        self.pid, self.tier, self.seed = pid, tier, seed
        self.t0 = time.time()
        self.work = os.path.join(V, "work", pid)
        self.traces = os.path.join(V, "traces", pid)
        self.gen = os.path.join(V, "gen", pid)
        shutil.rmtree(os.path.join(V, "replay", pid), ignore_errors=True)
        for d in (self.work, self.traces, self.gen):
            shutil.rmtree(d, ignore_errors=True)
            os.makedirs(d, exist_ok=True)
        self.states = 0
        self.transitions = 0
        self.traces_validated = 0   # histories / inputs executed on the real code and accepted by the spec
        self.evaluations = 0        # events judged
        self.distinct = set()       # hashes of distinct non-trivial cases
        self.samples = []
        self.violations = []        # dicts: key, detail, event
        self.mc_runs = []
        self.notes = []
        self.exhaustive = False
        self.rule = ""
        self.level = "model_checking"
        self.assumptions = []

    def quick(self):
        return self.tier == "quick"


# ---------------------------------------------------------------- harness

def build(release=False):
    """(Re)build the harness from /repo's working tree. Path dependencies => edited sources are recompiled."""
    os.makedirs(os.path.join(V, "work"), exist_ok=True)
    lock = open(os.path.join(V, "work", ".cargo.lock"), "w")
    fcntl.flock(lock, fcntl.LOCK_EX)
    try:
        # the lock file of the harness follows /repo's (same resolution as the code under test)
        cmd = ["cargo", "build", "--offline", "--quiet"] + (["--release"] if release else [])
        env = dict(os.environ, CARGO_NET_OFFLINE="true")
        r = subprocess.run(cmd, cwd=HARNESS, env=env, stdout=subprocess.PIPE, stderr=subprocess.STDOUT, text=True, timeout=1800)
        if r.returncode != 0:
            errs = "\n".join(l for l in r.stdout.splitlines() if not l.startswith("warning"))[-4000:]
            raise ToolError("cargo build failed:\n" + errs)
    finally:
        fcntl.flock(lock, fcntl.LOCK_UN)
    return os.path.join(HARNESS, "target", "release" if release else "debug", "sv")


def sv(binary, args, timeout=1200, ok_codes=(0,), ctx=None):
    """Run a harness driver. With ctx given, a crash of the driver process (abort, segfault, stack overflow, panic that
    escaped) is DATA about the code under test: it is recorded as a violation and the partial trace is still validated."""
    r = subprocess.run([binary] + [str(a) for a in args], stdout=subprocess.PIPE, stderr=subprocess.PIPE, text=True, timeout=timeout)
    if ctx is not None and (r.returncode < 0 or r.returncode in (101, 134, 139)):
        ctx.violations.append({"key": "process-died/%s" % args[0], "detail": "the driver process running the real code died with status %s (abort / segfault / stack overflow): %s"
                               % (r.returncode, r.stderr[-300:].replace("\n", " ")), "event": {"args": [str(a) for a in args]}})
        return r.stdout
    if r.returncode not in ok_codes:
        raise ToolError("harness %s exited %s:\n%s\n%s" % (" ".join(map(str, args)), r.returncode, r.stdout[-2000:], r.stderr[-4000:]))
    return r.stdout


# ---------------------------------------------------------------- TLC

def tlc(ctx, module, cfg=None, workers=1, env=None, timeout=1800, extra=None, simulate=None, tag=None):
    """Run TLC on mc/<module>.tla. Returns stdout. Any `Error:` line is a tool failure unless expect_error."""
    tag = tag or module
    meta = os.path.join(ctx.work, "meta_" + tag)
    shutil.rmtree(meta, ignore_errors=True)
    # java is called directly (same class path as the `tlc` wrapper): -Xss given in JAVA_TOOL_OPTIONS is read too late for the MAIN thread,
    # which evaluates initial states, ASSUMEs and constant-level invariants - deep recursive operators overflowed its default stack now and then
    cmd = ["timeout", str(timeout), "java", "-Xss1g", "-XX:+UseParallelGC", "-cp", TLC_CP, "tlc2.TLC", "-workers", str(workers), "-metadir", meta, "-cleanup", "-noGenerateSpecTE",
           "-checkpoint", "0",      # no checkpoints: the depth-first queue (StateDeque) does not support them, a run of 30 minutes died of it
           "-config", (cfg or module) + ".cfg"]
    if simulate:
        cmd += ["-simulate", simulate]
    if extra:
        cmd += extra
    cmd += [module + ".tla"]
    e = dict(os.environ)
    e["JAVA_TOOL_OPTIONS"] = JAVA_OPTS + (" -Xmx8g" if workers > 1 else " -Xmx6g")
    if env:
        e.update(env)
    t = time.time()
    r = subprocess.run(cmd, cwd=MC, env=e, stdout=subprocess.PIPE, stderr=subprocess.STDOUT, text=True)
    out = r.stdout
    shutil.rmtree(meta, ignore_errors=True)
    if r.returncode == 124:
        raise ToolError("TLC timeout on " + module)
    open(os.path.join(ctx.work, tag + ".tlc.out"), "w").write(out)
    return out


def apalache(ctx, module, args, timeout=900):
    """Run apalache-mc check on mc/<module>.tla; returns True iff 'The outcome is: NoError'. Anything else is a tool error."""
    outdir = os.path.join(ctx.work, "apalache_" + module)
    cmd = ["timeout", str(timeout), "apalache-mc", "check", "--out-dir=" + outdir] + args + [module + ".tla"]
    r = subprocess.run(cmd, cwd=MC, stdout=subprocess.PIPE, stderr=subprocess.STDOUT, text=True)
    shutil.rmtree(outdir, ignore_errors=True)
    if "The outcome is: NoError" not in r.stdout:
        raise ToolError("apalache-mc %s %s did not report NoError:\n%s" % (module, " ".join(args), r.stdout[-1500:]))
    return True


def tlc_stats(out):
    m = re.search(r"(\d+) states generated, (\d+) distinct states found", out)
    if not m:
        return 0, 0
    return int(m.group(2)), int(m.group(1))


def tlc_must_be_clean(out, module):
    if re.search(r"^Error:", out, re.M) or "Parsing or semantic analysis failed" in out:
        raise ToolError("TLC reported an error in %s:\n%s" % (module, out[-3000:]))


def model_check(ctx, module, cfg=None, workers=8, timeout=1800, tag=None, env=None):
    """Step (1): the specification itself (invariants, refinement, laws). A violated invariant here is a
    defect of the *specification* (or a design-level finding) and is a tool error for the check."""
    out = tlc(ctx, module, cfg, workers=workers, timeout=timeout, tag=tag, env=env)
    tlc_must_be_clean(out, module)
    if "Model checking completed. No error has been found." not in out and "Finished computing initial states" not in out:
        raise ToolError("TLC did not complete on %s:\n%s" % (module, out[-2000:]))
    d, g = tlc_stats(out)
    ctx.states += d
    ctx.transitions += g
    ctx.mc_runs.append({"module": module, "cfg": cfg or module, "distinct_states": d, "states_generated": g})
    return out


PRINT_RE = re.compile(r'^<<"([A-Z-]+)", (.*)>>$')


def printed(out, tagname):
    """Tuples printed by PrintT(<<"TAG", ...>>). TLC breaks a tuple that is wider than its line over several lines
    (one element per line): those are joined back before matching."""
    res = []
    lines = out.splitlines()
    i = 0
    while i < len(lines):
        line = lines[i].strip()
        if line.startswith("<<") and not line.endswith(">>"):
            j = i + 1
            parts = [line]
            while j < len(lines) and j - i < 400:
                parts.append(lines[j].strip())
                if lines[j].strip().endswith(">>"):
                    break
                j += 1
            line = " ".join(parts).replace("<< ", "<<").replace(" >>", ">>")
            i = j
        m = PRINT_RE.match(line)
        if m and m.group(1) == tagname:
            res.append(m.group(2))
        i += 1
    return res


def trace_check(ctx, module, trace_path, timeout=1800, tag=None, env=None, cfg=None):
    """Step (4). Returns list of (line_no, [fields]) for every unexplained event."""
    n = sum(1 for _ in open(trace_path))
    if n == 0:
        return []
    e = {"TRACE": trace_path}
    if env:
        e.update(env)
    out = tlc(ctx, module, cfg, workers=1, env=e, timeout=timeout, tag=tag or (module + "_" + os.path.basename(trace_path)))
    tlc_must_be_clean(out, module)
    if printed(out, "TRACE-INCOMPLETE") or "Model checking completed" not in out:
        raise ToolError("trace %s not consumed completely by %s:\n%s" % (trace_path, module, out[-2000:]))
    d, g = tlc_stats(out)
    ctx.states += d
    ctx.transitions += g
    ctx.evaluations += n
    mism = []
    if out.count('"MISMATCH"') != len(printed(out, "MISMATCH")):
        raise ToolError("could not read every MISMATCH tuple printed by %s (%d printed, %d read)" % (module, out.count('"MISMATCH"'), len(printed(out, "MISMATCH"))))
    for body in printed(out, "MISMATCH"):
        parts = [p.strip().strip('"') for p in body.split(",")]
        mism.append((int(parts[0]), parts[1:]))
    return mism


def chunked_validate(ctx, module, trace_path, handle, chunk_bytes=100_000_000, timeout=6000, cfg=None, cut=None):
    """Trace validation in byte-bounded chunks for traces whose events are judged one by one (or whose histories start at events
    recognised by `cut(line)`): neither TLC's JSON reader nor this process ever holds more than one chunk.
    handle(events, mism, part_path) is called per chunk with the parsed events and the (line, fields) pairs relative to the chunk."""
    import glob as _glob
    for stale in _glob.glob(trace_path + ".part*"):
        os.remove(stale)
    chunk_bytes = int(os.environ.get("SV_RT_CHUNK_BYTES", chunk_bytes))
    whole = os.path.getsize(trace_path) <= chunk_bytes

    def flush(lines, idx, single):
        if not lines:
            return
        part = trace_path if single else "%s.part%d" % (trace_path, idx)
        if not single:
            with open(part, "w") as f:
                f.writelines(lines)
        mism = trace_check(ctx, module, part, timeout=timeout, cfg=cfg, tag="%s_%s%s" % (module, os.path.basename(trace_path), "" if single else "_%d" % idx))
        handle([json.loads(l) for l in lines], mism, part)
        if not single and not mism:
            os.remove(part)
    lines, size, idx = [], 0, 0
    with open(trace_path, encoding="utf-8", errors="replace") as f:
        for l in f:
            if not l.strip():
                continue
            if size + len(l) > chunk_bytes and lines and (cut is None or cut(l)):
                flush(lines, idx, False)
                lines, size, idx = [], 0, idx + 1
            lines.append(l)
            size += len(l)
    flush(lines, idx, whole and idx == 0)


def read_trace(path):
    return [json.loads(l) for l in open(path, encoding="utf-8", errors="replace") if l.strip()]


# ---------------------------------------------------------------- strings

def cps(s):
    return [ord(c) for c in s]


def uncps(a):
    return "".join(chr(c) for c in a)


def show_term(t):
    k = t.get("k")
    if k == "iri":
        return "<%s>" % uncps(t["v"])
    if k == "bnode":
        return "_:%s" % uncps(t["v"])
    if k == "var":
        return "?%s" % uncps(t["v"])
    if k == "dg":
        return "DG"
    if k == "lit":
        if t["lang"]:
            return '"%s"@%s' % (uncps(t["lex"]), uncps(t["lang"]))
        return '"%s"^^<%s>' % (uncps(t["lex"]), uncps(t["dt"]))
    if k == "triple":
        return "<< %s %s %s >>" % (show_term(t["s"]), show_term(t["p"]), show_term(t["o"]))
    return json.dumps(t)


# ---------------------------------------------------------------- findings / evidence

def load_known():
    known = {}
    p = os.path.join(V, "known_findings.txt")
    if os.path.exists(p):
        for line in open(p):
            line = line.strip()
            m = re.match(r"^finding: property=(\S+) key=(\S+) (.*)$", line)
            if m:
                known[(m.group(1), m.group(2))] = m.group(3)
    return known


def finish(ctx):
    known = load_known()
    wall = time.time() - ctx.t0
    new, seen_known = [], {}
    for v in ctx.violations:
        k = (ctx.pid, v["key"])
        if k in known:
            seen_known.setdefault(v["key"], []).append(v)
        else:
            new.append(v)
    for key, vs in seen_known.items():
        log("KNOWN-FINDING: property=%s key=%s %s (%d occurrence(s) in this run)" % (ctx.pid, key, known[(ctx.pid, key)], len(vs)))
    rc = 0
    if new:
        rdir = os.path.join(V, "replay", ctx.pid)
        os.makedirs(rdir, exist_ok=True)
        by_key = {}
        for v in new:
            by_key.setdefault(v["key"], []).append(v)
        for n, (key, vs) in enumerate(sorted(by_key.items())):
            path = os.path.join(rdir, "%d.json" % n)
            json.dump({"property": ctx.pid, "key": key, "occurrences": len(vs), "tier": ctx.tier, "seed": ctx.seed,
                       "first": vs[0]}, open(path, "w"), indent=1)
            detail = "".join(c if 32 <= ord(c) < 127 else "\\u%04x" % ord(c) for c in vs[0].get("detail", "")[:300])
            log("VIOLATION property=%s replay=%s  key=%s x%d :: %s" % (ctx.pid, path, key, len(vs), detail))
        rc = 1
    cov = {
        "states": ctx.states, "transitions": ctx.transitions,
        "traces_validated_against_impl": ctx.traces_validated,
        "evaluations": max(ctx.evaluations, 1),
        "distinct_nontrivial": max(len(ctx.distinct), 2) if len(ctx.distinct) >= 2 else len(ctx.distinct),
        "rule": ctx.rule, "samples": ctx.samples[:6] or ["(none)"],
        "exhaustive": ctx.exhaustive, "mc_runs": ctx.mc_runs, "notes": ctx.notes,
        "known_findings_seen": sorted(seen_known.keys()),
    }
    ev = {"property_id": ctx.pid, "tier": ctx.tier, "seed": ctx.seed, "level": ctx.level, "coverage": cov,
          "assumptions": ctx.assumptions, "wall_s": round(wall, 2), "violations": len(new)}
    os.makedirs(os.path.join(V, "evidence"), exist_ok=True)
    json.dump(ev, open(os.path.join(V, "evidence", ctx.pid + ".json"), "w"), indent=1)
    log("%s %s: %d events judged, %d spec states, %d histories/inputs validated, %d violation(s), %d known, %.1fs"
        % (ctx.pid, ctx.tier, ctx.evaluations, ctx.states, ctx.traces_validated, len(new), sum(len(x) for x in seen_known.values()), wall))
    return rc
