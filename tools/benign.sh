#!/bin/bash
# usage: tools/benign.sh <patch.diff>  -- apply a property-preserving change to /repo, run the quick checks of every property
# anchored in the crates it touches, undo it. Any VIOLATION here is a FALSE ALARM of the machinery.
set -u
cleanup() { cd /repo && git checkout -q -- . && git clean -fdq -- . >/dev/null 2>&1; }
trap cleanup EXIT
patch=$(realpath $1)
ids=$(python3 - "$patch" <<'PY'
import sys,re
m={"inmem/":"C01 C10 C11 C15 C16","api/src/source":"C15 C16","api/src/dataset":"C01 C11 C15","api/src/graph":"C01 C11 C15","turtle/":"C03 C04 C08 C15 C16 C20",
   "xml/":"C08 C18 C15 C20","rio/":"C03 C04 C08 C18 C15","jsonld/":"C12 C08 C16 C20","sparql/":"C13 C14 C16 C02","c14n/":"C05 C06 C16","isomorphism/":"C07 C16",
   "iri/":"C09 C17 C08","api/src/term":"C02 C20 C08 C01","api/src/ns":"C02 C09 C03","api/src/prefix":"C04","term/":"C02","resource/":"C19","api/src":"C01 C02 C15"}
files=re.findall(r"^\+\+\+ b/(\S+)",open(sys.argv[1]).read(),re.M)
ids=set()
for f in files:
    best=max((k for k in m if f.startswith(k)),key=len,default=None)
    if best: ids.update(m[best].split())
print(" ".join(sorted(ids)))
PY
)
cd /repo && git apply "$patch" || { echo "PATCH DOES NOT APPLY"; exit 3; }
echo "checks: $ids"
cd /verif
for id in $ids; do
  timeout 3000 ./check $id --tier quick > /tmp/benign_$id.log 2>&1; rc=$?
  echo "$id rc=$rc $(grep -c '^VIOLATION' /tmp/benign_$id.log) :: $(tail -1 /tmp/benign_$id.log | cut -c1-160)"
  grep -E '^VIOLATION|TOOL-ERROR' /tmp/benign_$id.log | cut -c1-400 | head -3
done
