#!/bin/bash
# usage (inside a `vp run --with-repo` snapshot): tools/thorough_some.sh <tier> <ID>...   -- checks against the snapshot of /repo
tier=$1; shift
sed -i "s#\"/repo/#\"$VP_RUN_REPO/#" harness/Cargo.toml
(cd harness && CARGO_NET_OFFLINE=true cargo build --offline --quiet 2>/dev/null; CARGO_NET_OFFLINE=true cargo build --offline --release --quiet 2>/dev/null)
python3 tools/gen_chains.py >/dev/null 2>&1
mkdir -p work
for id in "$@"; do
  s=$(date +%s)
  timeout 20000 ./check $id --tier $tier > work/run_all_$id.log 2>&1; rc=$?
  echo "$id rc=$rc $(( $(date +%s) - s ))s :: $(grep -c '^VIOLATION' work/run_all_$id.log) violations :: $(tail -1 work/run_all_$id.log | cut -c1-220)"
  grep -E '^VIOLATION|TOOL-ERROR' work/run_all_$id.log | cut -c1-600 | head -5
done
echo ALLDONE
