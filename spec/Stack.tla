---- MODULE Stack ----
\* Stack use as a function of the AMOUNT of data (C16).
\* An operation walks a structure of Size elements that are Nest levels deep. Each element is either consumed by the
\* frame that is already running (Style = "loop") or by a fresh call that only returns when the walk is over
\* (Style = "recursive": 'return self.next()', 'quoted_string(w, rest)', 'populate_list(items, next)' without tail-call
\* elimination). Entering a nested structure (quoted triple, collection inside a collection) legitimately pushes a frame.
EXTENDS Naturals, Sequences
CONSTANTS Size,     \* number of elements (rows skipped, characters escaped, named graphs, list cells, statements)
          Nest,     \* nesting depth of the data
          Style,    \* "loop" | "recursive"
          Base      \* frames in use when the walk starts
VARIABLES left,     \* elements still to consume at the current nesting level
          level,    \* nesting levels entered so far
          depth,    \* frames in use
          peak      \* high-water mark of depth
vars == <<left, level, depth, peak>>
Max(a, b) == IF a > b THEN a ELSE b
Init == left = Size /\ level = 0 /\ depth = Base /\ peak = Base
\* consume one element
Step == /\ left > 0 /\ left' = left - 1 /\ level' = level
        /\ depth' = IF Style = "recursive" THEN depth + 1 ELSE depth
        /\ peak' = Max(peak, depth')
\* enter a nested structure (at most Nest times): one frame, whatever the style
Enter == /\ level < Nest /\ level' = level + 1 /\ left' = left
         /\ depth' = depth + 1 /\ peak' = Max(peak, depth')
\* the walk is over: every frame returns
Return == /\ left = 0 /\ depth > Base /\ depth' = Base /\ UNCHANGED <<left, level, peak>>
Next == Step \/ Enter \/ Return
Spec == Init /\ [][Next]_vars
\* C16: the stack depends at most on the nesting depth of the data, not on the number of elements
StackIndependentOfSize == peak <= Base + Nest
\* what the measurements of the real code are compared with (Trace_Stack): between two sizes the peak may differ by
\* at most Slack bytes; one frame per element would add at least MinFrame bytes per element
Growth(peakSmall, peakLarge) == IF peakLarge > peakSmall THEN peakLarge - peakSmall ELSE 0
====
