---- MODULE TurtlePretty ----
\* Transcription of the decision procedure of turtle/src/serializer/_pretty.rs for one graph:
\* build_labelled (incl. the cycle walk), build_subject_types, build_lists / list_item, and the
\* traversal of write_graph / write_properties / write_bnode, as a function from a graph to the
\* sequence of triples the emitted document denotes.
EXTENDS Naturals, Sequences, FiniteSets, TLC
CONSTANTS B1, B2, B3, A, NIL, P, FIRST, REST
Bn == {B1, B2, B3}
Rank(b) == IF b = B1 THEN 1 ELSE IF b = B2 THEN 2 ELSE 3          \* BTreeMap key order of blank nodes
Subjects == Bn \cup {A}
Preds == {P, FIRST, REST}
Objects == Bn \cup {A, NIL}
Universe == Subjects \X Preds \X Objects
\* term order used by the GSPO set: blank nodes < IRIs; among IRIs the order A < FIRST < NIL < P < REST is immaterial here
\* ---- build_labelled ----
InDeg(D, b) == Cardinality({t \in D : t[3] = b})
Pred0(D, b) == IF InDeg(D, b) = 1 THEN (CHOOSE t \in D : t[3] = b)[1] ELSE NIL     \* NIL = none
Bad0(D, b) == InDeg(D, b) >= 2
Mentioned(D) == {b \in Bn : \E t \in D : t[1] = b \/ t[3] = b}
\* the cycle walk, keys in BTreeMap order; state = [bad, visited]; visited[b] = number of the walk that reached b (0 = none).
\* A node met again during the SAME walk lies on a cycle and gets labelled (also when the walk started on a tail).
RECURSIVE Walk(_, _, _, _)
Walk(D, walk, cur, st) ==      \* cur = current predecessor term (NIL = none)
  IF cur = NIL \/ cur \notin Mentioned(D) THEN st
  ELSE IF st.bad[cur] THEN st
  ELSE IF st.visited[cur] = walk THEN [st EXCEPT !.bad = [st.bad EXCEPT ![cur] = TRUE]]
  ELSE IF st.visited[cur] # 0 THEN st
  ELSE Walk(D, walk, Pred0(D, cur), [st EXCEPT !.visited = [st.visited EXCEPT ![cur] = walk]])
RECURSIVE Keys(_, _, _)
Keys(D, ks, st) ==
  IF ks = <<>> THEN st
  ELSE LET key == Head(ks)  walk == Rank(key) IN
       IF key \notin Mentioned(D) \/ st.bad[key] \/ st.visited[key] # 0 THEN Keys(D, Tail(ks), st)
       ELSE Keys(D, Tail(ks), Walk(D, walk, Pred0(D, key), [st EXCEPT !.visited = [st.visited EXCEPT ![key] = walk]]))
Labelled(D) == LET st0 == [bad |-> [b \in Bn |-> Bad0(D, b)], visited |-> [b \in Bn |-> 0]]
                   st == Keys(D, <<B1, B2, B3>>, st0)
               IN {b \in Mentioned(D) : st.bad[b]}
\* ---- build_subject_types ----
IsSubject(D, s) == \E t \in D : t[1] = s
SubTree0(D, s) == s \in Bn /\ IsSubject(D, s) /\ s \notin Labelled(D) /\ InDeg(D, s) = 1
\* ---- build_lists ----
ListItem(D, s) ==      \* Some(value) iff exactly one rdf:first, at most one rdf:rest and no other property; NIL = None
  LET firsts == {t \in D : t[1] = s /\ t[2] = FIRST}
      rests == {t \in D : t[1] = s /\ t[2] = REST}
      others == {t \in D : t[1] = s /\ t[2] \notin {FIRST, REST}}
  IN IF Cardinality(firsts) = 1 /\ others = {} /\ Cardinality(rests) <= 1 THEN [some |-> TRUE, v |-> (CHOOSE t \in firsts : TRUE)[3]] ELSE [some |-> FALSE]
RestQuads(D) == {t \in D : t[1] \in Bn /\ t[2] = REST /\ SubTree0(D, t[1])}
Seeds(D) == {t[1] : t \in {u \in RestQuads(D) : u[3] = NIL /\ ListItem(D, u[1]).some}}
\* preds: object bnode -> subject, toggled on every occurrence (Vacant -> insert, Occupied -> remove)
PredsMap(D) == [o \in Bn |-> LET ss == {t[1] : t \in {u \in RestQuads(D) : u[3] = o}} IN
                             IF Cardinality({u \in RestQuads(D) : u[3] = o}) = 1 THEN CHOOSE s \in ss : TRUE ELSE NIL]
RECURSIVE WalkList(_, _, _, _)
WalkList(D, bn, items, removed) ==
  LET pr == PredsMap(D)[bn] IN
  IF pr # NIL /\ ListItem(D, pr).some /\ pr \notin removed      \* "pr \notin removed" guards the model against cyclic rest chains
  THEN WalkList(D, pr, <<ListItem(D, pr).v>> \o items, removed \cup {pr})
  ELSE [head |-> bn, items |-> items, removed |-> removed]
Lists(D) == { WalkList(D, s, <<ListItem(D, s).v>>, {s}) : s \in Seeds(D) }
ListHeads(D) == {l.head : l \in Lists(D)}
ListMembers(D) == UNION {l.removed : l \in Lists(D)}
Type(D, s) == IF s \in ListMembers(D) THEN "removed" ELSE IF SubTree0(D, s) THEN "SubTree" ELSE "Root"
\* ---- writing: returns the sequence of triples denoted ----
TriplesOfSubj(D, s) == {t \in D : t[1] = s}
RECURSIVE SetToSeq(_)
SetToSeq(S) == IF S = {} THEN <<>> ELSE LET x == CHOOSE x \in S : TRUE IN <<x>> \o SetToSeq(S \ {x})
RECURSIVE ConcatFrom(_, _)
ConcatFrom(ss, i) == IF i > Len(ss) THEN <<>> ELSE ss[i] \o ConcatFrom(ss, i + 1)
Concat(ss) == ConcatFrom(ss, 1)
\* triples of the list cells denoted by "( items )" for head h: we re-emit the original cells of that list
RECURSIVE WriteProps(_, _, _)
RECURSIVE WriteObj(_, _, _)
ListCells(D, l) == Concat([c \in 1..Len(SetToSeq(l.removed)) |-> SetToSeq({t \in D : t[1] = SetToSeq(l.removed)[c] /\ t[2] \in {FIRST, REST}})])
WriteObj(D, o, fuel) ==      \* extra triples written inline when o appears as an object
  IF fuel = 0 THEN <<>>
  ELSE IF o \in ListHeads(D) THEN
       LET l == CHOOSE l \in Lists(D) : l.head = o IN
       ListCells(D, l) \o Concat([i \in 1..Len(l.items) |-> WriteObj(D, l.items[i], fuel - 1)])
  ELSE IF o \in Labelled(D) THEN <<>>
  ELSE IF o \in Bn /\ IsSubject(D, o) /\ Type(D, o) = "SubTree" THEN WriteProps(D, o, fuel - 1)
  ELSE <<>>
WriteProps(D, s, fuel) == LET ts == SetToSeq(TriplesOfSubj(D, s)) IN
  Concat([i \in 1..Len(ts) |-> <<ts[i]>> \o WriteObj(D, ts[i][3], fuel)])
Written(D) == LET roots == SetToSeq({s \in Subjects : IsSubject(D, s) /\ Type(D, s) = "Root"}) IN
  Concat([i \in 1..Len(roots) |-> WriteProps(D, roots[i], 8)])
\* ---- the design-level property: every triple is written exactly once ----
SeqToSet(s) == {s[i] : i \in 1..Len(s)}
Correct(D) == LET w == Written(D) IN SeqToSet(w) = D /\ Len(w) = Cardinality(D)
====
