---- MODULE Sparql ----
\* SPARQL 1.1 algebra, the fragment sophia_sparql supports: BGP, Union, Graph, Filter, Extend,
\* Distinct, Project.  Solutions are functions from keys <<"v", name>> to terms; results are bags,
\* represented as sequences whose order is irrelevant.
EXTENDS Naturals, Sequences, FiniteSets, TLC, SparqlNum
XN == INSTANCE Xsd      \* exact digit-string arithmetic (NumEq, NumLess)
\* SPARQL 17.3.1 lets an implementation give a value to an operator application that the standard makes a type error.
\* LangCmpExt = TRUE: language-tagged strings are values: '=' on two different ones is false and '<' orders them by
\* (tag, lexical form), as sophia_sparql does;
\* FALSE: it is a type error.  SameLitExt = TRUE: a literal of an unrecognised datatype compares equal to itself under
\* <, >, <=, >= (so "x"^^ex:dt <= "x"^^ex:dt is true), as sophia_sparql does; FALSE: a type error.
\* IllDtExt = TRUE: an ill-formed xsd:dateTime literal ("yesterday", February 30th) is a value below every dateTime and equal to
\* every other ill-formed one, as sophia_sparql does; FALSE: comparing it is a type error.
\* A result is accepted when it is the algebra's answer under some reading of the extension points (Trace_Sparql).
CONSTANTS LangCmpExt, SameLitExt, IllDtExt
DG == [k |-> "dg"]
Xsd(s) == <<104,116,116,112,58,47,47,119,119,119,46,119,51,46,111,114,103,47,50,48,48,49,47,88,77,76,83,99,104,101,109,97,35>> \o s
XsdInteger == Xsd(<<105,110,116,101,103,101,114>>)
XsdString == Xsd(<<115,116,114,105,110,103>>)
XsdBoolean == Xsd(<<98,111,111,108,101,97,110>>)
RECURSIVE SetToSeq(_)
SetToSeq(S) == IF S = {} THEN <<>> ELSE LET x == CHOOSE x \in S : TRUE IN <<x>> \o SetToSeq(S \ {x})
RECURSIVE ConcatFrom(_, _)
ConcatFrom(ss, i) == IF i > Len(ss) THEN <<>> ELSE ss[i] \o ConcatFrom(ss, i + 1)
Concat(ss) == ConcatFrom(ss, 1)
Restrict(f, S) == [x \in (DOMAIN f) \cap S |-> f[x]]
Ext(f, k, v) == [x \in (DOMAIN f) \cup {k} |-> IF x = k THEN v ELSE f[x]]
\* ---- dataset ----
TriplesOf(D, g) == { <<q[1], q[2], q[3]>> : q \in {qq \in D : qq[4] = g} }
GraphNames(D) == { q[4] : q \in {qq \in D : qq[4] # DG} }
\* ---- basic graph patterns ----
KeyOf(pt) == IF "var" \in DOMAIN pt THEN <<"v", pt.var>> ELSE <<"b", pt.bn>>
\* match one pattern position against a term under mu; returns [ok, mu].  A position is a constant term, a variable, a blank-node
\* placeholder, or a quoted-triple pattern [qt |-> <<s, p, o>>] (SPARQL-star): it matches a quoted triple whose components match,
\* the variables and placeholders inside being those of the group
RECURSIVE MatchPos(_, _, _)
MatchPos(pt, t, mu) ==
  IF "term" \in DOMAIN pt THEN [ok |-> pt.term = t, mu |-> mu]
  ELSE IF "qt" \in DOMAIN pt THEN
       IF t.k # "triple" THEN [ok |-> FALSE, mu |-> mu]
       ELSE LET a == MatchPos(pt.qt[1], t.s, mu) IN IF ~a.ok THEN a ELSE
            LET b == MatchPos(pt.qt[2], t.p, a.mu) IN IF ~b.ok THEN b ELSE MatchPos(pt.qt[3], t.o, b.mu)
  ELSE LET k == KeyOf(pt) IN
       IF k \in DOMAIN mu THEN [ok |-> mu[k] = t, mu |-> mu] ELSE [ok |-> TRUE, mu |-> Ext(mu, k, t)]
MatchTp(tp, t, mu) == LET a == MatchPos(tp[1], t[1], mu) IN IF ~a.ok THEN a ELSE
                      LET b == MatchPos(tp[2], t[2], a.mu) IN IF ~b.ok THEN b ELSE MatchPos(tp[3], t[3], b.mu)
RECURSIVE Bgp(_, _, _, _)
Bgp(tps, i, mu, T) ==
  IF i > Len(tps) THEN << mu >>
  ELSE LET ts == SetToSeq({t \in T : MatchTp(tps[i], t, mu).ok}) IN
       Concat([n \in 1..Len(ts) |-> Bgp(tps, i + 1, MatchTp(tps[i], ts[n], mu).mu, T)])
VarKeys(mu) == {k \in DOMAIN mu : k[1] = "v"}
\* ---- expressions: three-valued ----
Err == [t |-> "err"]
B(b) == [t |-> "bool", b |-> b]
V(x) == [t |-> "term", v |-> x]
IsDigits(s) == Len(s) > 0 /\ \A i \in 1..Len(s) : s[i] >= 48 /\ s[i] <= 57
RECURSIVE NatOf(_, _, _)
NatOf(s, i, acc) == IF i > Len(s) THEN acc ELSE NatOf(s, i + 1, acc * 10 + (s[i] - 48))
\* integers: -?[0-9]+ of at most 6 digits (TLC's integers hold them and their sums / products of two)
IntDigits(s) == IF Len(s) > 0 /\ s[1] = 45 THEN SubSeq(s, 2, Len(s)) ELSE s
IsInt(x) == x.k = "lit" /\ x.lang = <<>> /\ x.dt = XsdInteger /\ IsDigits(IntDigits(x.lex)) /\ Len(IntDigits(x.lex)) <= 6
IntVal(x) == IF x.lex[1] = 45 THEN 0 - NatOf(IntDigits(x.lex), 1, 0) ELSE NatOf(x.lex, 1, 0)
\* an xsd:integer of any size in canonical form: -?[1-9][0-9]* (zero is covered by IsInt)
IsCanonicalBigInt(x) == x.k = "lit" /\ x.lang = <<>> /\ x.dt = XsdInteger /\ IsDigits(IntDigits(x.lex)) /\ IntDigits(x.lex)[1] # 48
RECURSIVE NatLex(_)
NatLex(n) == IF n < 10 THEN <<48 + n>> ELSE NatLex(n \div 10) \o <<48 + (n % 10)>>
MkInt(n) == [k |-> "lit", lex |-> (IF n < 0 THEN <<45>> \o NatLex(0 - n) ELSE NatLex(n)), dt |-> XsdInteger, lang |-> <<>>]
\* string literals: simple (xsd:string) or language-tagged (term_json writes dt = <<>> for those)
IsStrLit(x) == x.k = "lit" /\ (x.lang # <<>> \/ x.dt = XsdString)
MkStr(lex, lang) == [k |-> "lit", lex |-> lex, dt |-> (IF lang = <<>> THEN XsdString ELSE <<>>), lang |-> lang]
RdfLangString == <<104,116,116,112,58,47,47,119,119,119,46,119,51,46,111,114,103,47,49,57,57,57,47,48,50,47,50,50,45,114,100,102,45,115,121,110,116,97,120,45,110,115,35,108,97,110,103,83,116,114,105,110,103>>
\* SPARQL 17.4.3.1.2 argument compatibility
Compat(a, b) == IsStrLit(a) /\ IsStrLit(b) /\ (b.lang = <<>> \/ a.lang = b.lang)
StartsWith(h, n) == Len(n) <= Len(h) /\ SubSeq(h, 1, Len(n)) = n
EndsWith(h, n) == Len(n) <= Len(h) /\ SubSeq(h, Len(h) - Len(n) + 1, Len(h)) = n
ContainsSeq(h, n) == \E i \in 0..(Len(h) - Len(n)) : SubSeq(h, i + 1, i + Len(n)) = n
\* fn:substring on integer arguments: the characters at the 1-based positions p with start <= p (< start + len)
SelectPos(lex, P(_)) == LET RECURSIVE F(_) F(i) == IF i > Len(lex) THEN <<>> ELSE (IF P(i) THEN <<lex[i]>> ELSE <<>>) \o F(i + 1) IN F(1)
\* case mapping on the characters of the universe (ASCII letters and e-acute)
Up(c) == IF c >= 97 /\ c <= 122 THEN c - 32 ELSE IF c = 233 THEN 201 ELSE c
Low(c) == IF c >= 65 /\ c <= 90 THEN c + 32 ELSE IF c = 201 THEN 233 ELSE c
IsStr(x) == x.k = "lit" /\ x.lang = <<>> /\ x.dt = XsdString
RECURSIVE StrLess(_, _, _)
StrLess(a, b, i) == IF i > Len(a) THEN i <= Len(b) ELSE IF i > Len(b) THEN FALSE
                    ELSE IF a[i] < b[i] THEN TRUE ELSE IF a[i] > b[i] THEN FALSE ELSE StrLess(a, b, i + 1)
\* effective boolean value of an evaluation result
Ebv(r) == IF r.t = "bool" THEN r
          ELSE IF r.t = "err" THEN Err
          ELSE IF IsInt(r.v) THEN B(IntVal(r.v) # 0)
          ELSE IF IsStrLit(r.v) THEN B(r.v.lex # <<>>)        \* plain literals (also language-tagged) and xsd:string: false iff empty
          ELSE IF r.v.k = "lit" /\ r.v.lang = <<>> /\ r.v.dt = XsdBoolean THEN B(r.v.lex = <<116,114,117,101>>)
          ELSE Err
AsTerm(r) == IF r.t = "bool" THEN [k |-> "lit", lex |-> (IF r.b THEN <<116,114,117,101>> ELSE <<102,97,108,115,101>>), dt |-> XsdBoolean, lang |-> <<>>] ELSE r.v
IsBool(x) == x.k = "lit" /\ x.lang = <<>> /\ x.dt = XsdBoolean /\ x.lex \in {<<116,114,117,101>>, <<102,97,108,115,101>>}
\* ---- the numeric tower (comparisons only): literals of NumTable, compared after promotion to the higher of the two types ----
NumRows(x) == {i \in 1..Len(NumTable) : NumTable[i].lex = x.lex /\ NumTable[i].dt = x.dt}
IsTableNum(x) == x.k = "lit" /\ x.lang = <<>> /\ NumRows(x) # {}
NumRow(x) == NumTable[CHOOSE i \in NumRows(x) : TRUE]
TypeRank(dt) == IF dt = XsdInteger THEN 1 ELSE IF dt = Xsd(<<100,101,99,105,109,97,108>>) THEN 2 ELSE IF dt = Xsd(<<102,108,111,97,116>>) THEN 3 ELSE 4
ValAt(r, t) == IF t <= 2 THEN r.val ELSE IF t = 3 THEN r.f32 ELSE r.f64
PromotedPair(a, b) == LET ra == NumRow(a) rb == NumRow(b) t == IF TypeRank(a.dt) > TypeRank(b.dt) THEN TypeRank(a.dt) ELSE TypeRank(b.dt)
                      IN <<ValAt(ra, t), ValAt(rb, t)>>
\* xsd:dateTime (Xsd.tla: the modelled lexical forms and XML Schema's order relation): a value with and one without timezone that are
\* within 14 hours of each other are neither equal nor ordered - '=' and '<' raise a type error
XsdDateTime == Xsd(<<100,97,116,101,84,105,109,101>>)
IsDT(x) == x.k = "lit" /\ x.lang = <<>> /\ x.dt = XsdDateTime /\ XN!IsDateTimeLex(x.lex)
\* surely no dateTime: does not start like one, or has the shape of the modelled forms with an impossible month, day, minute or offset
\* (fractions of seconds, 24:00:00, seconds = 60 and years outside the modelled range are left alone: not in the drivers' universe)
IllDT(x) == x.k = "lit" /\ x.lang = <<>> /\ x.dt = XsdDateTime /\
            \/ x.lex = <<>> \/ ~(x.lex[1] = 45 \/ (x.lex[1] >= 48 /\ x.lex[1] <= 57))
            \/ XN!DtShape(x.lex) /\ ~XN!IsDateTimeLex(x.lex) /\ XN!N4(x.lex, 1) >= 1940 /\ XN!N4(x.lex, 1) <= 2060 /\ XN!N2(x.lex, 12) <= 23 /\ XN!N2(x.lex, 18) <= 59
EqV(a, b) ==    \* RDFterm-equal / value equality on the modelled value classes
  IF IsInt(a) /\ IsInt(b) THEN B(IntVal(a) = IntVal(b))
  ELSE IF IsDT(a) /\ IsDT(b) THEN (IF XN!DtComparable(a.lex, b.lex) THEN B(XN!DtEqual(a.lex, b.lex)) ELSE Err)
  ELSE IF IllDtExt /\ (IllDT(a) \/ IsDT(a)) /\ (IllDT(b) \/ IsDT(b)) THEN B(IllDT(a) /\ IllDT(b))
  ELSE IF IsTableNum(a) /\ IsTableNum(b) THEN LET p == PromotedPair(a, b) IN B(XN!NumEq(p[1], p[2]))
  ELSE IF a = b THEN B(TRUE)
  ELSE IF a.k = "lit" /\ b.k = "lit" THEN (IF (IsStr(a) /\ IsStr(b)) \/ (IsBool(a) /\ IsBool(b)) THEN B(FALSE)
                                          ELSE IF LangCmpExt /\ a.lang # <<>> /\ b.lang # <<>> THEN B(FALSE)      \* language-tagged strings as values
                                          ELSE Err)
  ELSE B(FALSE)
LtV(a, b) == IF IsInt(a) /\ IsInt(b) THEN B(IntVal(a) < IntVal(b))
             ELSE IF IsDT(a) /\ IsDT(b) THEN (IF XN!DtComparable(a.lex, b.lex) THEN B(XN!DtLess(a.lex, b.lex)) ELSE Err)
             ELSE IF IllDtExt /\ (IllDT(a) \/ IsDT(a)) /\ (IllDT(b) \/ IsDT(b)) THEN B(IllDT(a) /\ IsDT(b))
             ELSE IF IsTableNum(a) /\ IsTableNum(b) THEN LET p == PromotedPair(a, b) IN B(XN!NumLess(p[1], p[2]))
             ELSE IF IsStr(a) /\ IsStr(b) THEN B(StrLess(a.lex, b.lex, 1))
             ELSE IF SameLitExt /\ a = b /\ a.k = "lit" /\ ~IsInt(a) /\ ~IsStrLit(a) /\ ~IsBool(a) /\ ~IsDT(a) /\ ~IllDT(a) THEN B(FALSE)
             ELSE IF LangCmpExt /\ a.k = "lit" /\ b.k = "lit" /\ a.lang # <<>> /\ b.lang # <<>>
                  THEN B(StrLess(a.lang, b.lang, 1) \/ (a.lang = b.lang /\ StrLess(a.lex, b.lex, 1)))
             ELSE IF IsBool(a) /\ IsBool(b) THEN B(a.lex = <<102,97,108,115,101>> /\ b.lex = <<116,114,117,101>>)
             ELSE Err
RECURSIVE EvalE(_, _)
EvalE(e, mu) ==
  CASE e.op = "var"   -> IF <<"v", e.name>> \in DOMAIN mu THEN V(mu[<<"v", e.name>>]) ELSE Err
    [] e.op = "const" -> V(e.term)
    [] e.op = "bound" -> B(<<"v", e.name>> \in DOMAIN mu)
    [] e.op = "isiri" -> LET a == EvalE(e.a, mu) IN IF a.t = "err" THEN Err ELSE B(AsTerm(a).k = "iri")
    [] e.op = "eq"    -> LET a == EvalE(e.a, mu) b == EvalE(e.b, mu) IN IF a.t = "err" \/ b.t = "err" THEN Err ELSE EqV(AsTerm(a), AsTerm(b))
    [] e.op = "lt"    -> LET a == EvalE(e.a, mu) b == EvalE(e.b, mu) IN IF a.t = "err" \/ b.t = "err" THEN Err ELSE LtV(AsTerm(a), AsTerm(b))
    [] e.op = "not"   -> LET a == Ebv(EvalE(e.a, mu)) IN IF a.t = "err" THEN Err ELSE B(~a.b)
    \* ---- comparison operators derived from = and < ----
    [] e.op = "ne"    -> LET a == EvalE(e.a, mu) b == EvalE(e.b, mu) IN IF a.t = "err" \/ b.t = "err" THEN Err ELSE
                         LET r == EqV(AsTerm(a), AsTerm(b)) IN IF r.t = "err" THEN Err ELSE B(~r.b)
    [] e.op = "gt"    -> LET a == EvalE(e.a, mu) b == EvalE(e.b, mu) IN IF a.t = "err" \/ b.t = "err" THEN Err ELSE LtV(AsTerm(b), AsTerm(a))
    [] e.op = "le"    -> LET a == EvalE(e.a, mu) b == EvalE(e.b, mu) IN IF a.t = "err" \/ b.t = "err" THEN Err ELSE
                         LET r == LtV(AsTerm(b), AsTerm(a)) IN IF r.t = "err" THEN Err ELSE B(~r.b)
    [] e.op = "ge"    -> LET a == EvalE(e.a, mu) b == EvalE(e.b, mu) IN IF a.t = "err" \/ b.t = "err" THEN Err ELSE
                         LET r == LtV(AsTerm(a), AsTerm(b)) IN IF r.t = "err" THEN Err ELSE B(~r.b)
    \* ---- integer arithmetic ----
    [] e.op \in {"add", "sub", "mul"} ->
                         LET a == EvalE(e.a, mu) b == EvalE(e.b, mu) IN IF a.t = "err" \/ b.t = "err" THEN Err ELSE
                         LET x == AsTerm(a) y == AsTerm(b) IN IF ~(IsInt(x) /\ IsInt(y)) THEN Err
                         ELSE V(MkInt(CASE e.op = "add" -> IntVal(x) + IntVal(y) [] e.op = "sub" -> IntVal(x) - IntVal(y) [] OTHER -> IntVal(x) * IntVal(y)))
    \* ---- unary minus / plus: on integers of ANY size, through the lexical form (canonical forms: no '+', no leading zero) ----
    [] e.op \in {"neg", "pos"} ->
                         LET a == EvalE(e.a, mu) IN IF a.t = "err" THEN Err ELSE
                         LET x == AsTerm(a) IN
                         IF IsInt(x) THEN V(MkInt(IF e.op = "neg" THEN 0 - IntVal(x) ELSE IntVal(x)))
                         ELSE IF IsCanonicalBigInt(x) THEN V(IF e.op = "pos" THEN x ELSE [x EXCEPT !.lex = IF x.lex[1] = 45 THEN SubSeq(x.lex, 2, Len(x.lex)) ELSE <<45>> \o x.lex])
                         ELSE Err
    \* ---- functional forms ----
    [] e.op = "sameterm" -> LET a == EvalE(e.a, mu) b == EvalE(e.b, mu) IN IF a.t = "err" \/ b.t = "err" THEN Err ELSE B(AsTerm(a) = AsTerm(b))
    [] e.op = "if"    -> LET c == Ebv(EvalE(e.c, mu)) IN IF c.t = "err" THEN Err ELSE IF c.b THEN EvalE(e.a, mu) ELSE EvalE(e.b, mu)
    [] e.op = "coalesce" -> LET rs == [i \in 1..Len(e.args) |-> EvalE(e.args[i], mu)] IN
                         IF \A i \in 1..Len(rs) : rs[i].t = "err" THEN Err ELSE rs[CHOOSE i \in 1..Len(rs) : rs[i].t # "err" /\ \A j \in 1..(i - 1) : rs[j].t = "err"]
    \* ---- functions on terms (SPARQL 17.4.2) ----
    [] e.op \in {"isblank", "isliteral", "isnumeric", "str", "lang", "datatype"} ->
                         LET a == EvalE(e.a, mu) IN IF a.t = "err" THEN Err ELSE LET x == AsTerm(a) IN
                         CASE e.op = "isblank" -> B(x.k = "bnode")
                           [] e.op = "isliteral" -> B(x.k = "lit")
                           [] e.op = "isnumeric" -> B(IsInt(x))          \* the universe has no other numeric datatype
                           [] e.op = "str" -> IF x.k = "iri" THEN V(MkStr(x.v, <<>>)) ELSE IF x.k = "lit" THEN V(MkStr(x.lex, <<>>)) ELSE Err
                           [] e.op = "lang" -> IF x.k = "lit" THEN V(MkStr(x.lang, <<>>)) ELSE Err
                           [] OTHER -> IF x.k = "lit" THEN V([k |-> "iri", v |-> (IF x.lang # <<>> THEN RdfLangString ELSE x.dt)]) ELSE Err
    \* ---- functions on strings (SPARQL 17.4.3) ----
    [] e.op \in {"strlen", "ucase", "lcase"} ->
                         LET a == EvalE(e.a, mu) IN IF a.t = "err" THEN Err ELSE LET x == AsTerm(a) IN
                         IF ~IsStrLit(x) THEN Err
                         ELSE IF e.op = "strlen" THEN V(MkInt(Len(x.lex)))
                         ELSE V(MkStr([i \in 1..Len(x.lex) |-> IF e.op = "ucase" THEN Up(x.lex[i]) ELSE Low(x.lex[i])], x.lang))
    [] e.op \in {"strstarts", "strends", "contains"} ->
                         LET a == EvalE(e.a, mu) b == EvalE(e.b, mu) IN IF a.t = "err" \/ b.t = "err" THEN Err ELSE
                         LET x == AsTerm(a) y == AsTerm(b) IN IF ~Compat(x, y) THEN Err
                         ELSE B(CASE e.op = "strstarts" -> StartsWith(x.lex, y.lex) [] e.op = "strends" -> EndsWith(x.lex, y.lex) [] OTHER -> ContainsSeq(x.lex, y.lex))
    [] e.op = "substr" -> LET a == EvalE(e.a, mu) b == EvalE(e.b, mu) IN IF a.t = "err" \/ b.t = "err" THEN Err ELSE
                         LET x == AsTerm(a) st == AsTerm(b) IN IF ~(IsStrLit(x) /\ IsInt(st)) THEN Err
                         ELSE IF "c" \notin DOMAIN e THEN V(MkStr(SelectPos(x.lex, LAMBDA p : p >= IntVal(st)), x.lang))
                         ELSE LET c == EvalE(e.c, mu) IN IF c.t = "err" THEN Err ELSE LET ln == AsTerm(c) IN IF ~IsInt(ln) THEN Err
                              ELSE V(MkStr(SelectPos(x.lex, LAMBDA p : p >= IntVal(st) /\ p < IntVal(st) + IntVal(ln)), x.lang))
    [] e.op = "concat" -> LET rs == [i \in 1..Len(e.args) |-> EvalE(e.args[i], mu)] IN
                         IF \E i \in 1..Len(rs) : rs[i].t = "err" \/ ~IsStrLit(AsTerm(rs[i])) THEN Err
                         ELSE LET xs == [i \in 1..Len(rs) |-> AsTerm(rs[i])]
                                  tag == IF Len(xs) > 0 /\ \A i \in 1..Len(xs) : xs[i].lang = xs[1].lang THEN xs[1].lang ELSE <<>>
                              IN V(MkStr(Concat([i \in 1..Len(xs) |-> xs[i].lex]), tag))
    [] e.op = "and"   -> LET a == Ebv(EvalE(e.a, mu)) b == Ebv(EvalE(e.b, mu)) IN
                         IF a.t = "bool" /\ b.t = "bool" THEN B(a.b /\ b.b)
                         ELSE IF (a.t = "bool" /\ ~a.b) \/ (b.t = "bool" /\ ~b.b) THEN B(FALSE) ELSE Err
    [] e.op = "or"    -> LET a == Ebv(EvalE(e.a, mu)) b == Ebv(EvalE(e.b, mu)) IN
                         IF a.t = "bool" /\ b.t = "bool" THEN B(a.b \/ b.b)
                         ELSE IF (a.t = "bool" /\ a.b) \/ (b.t = "bool" /\ b.b) THEN B(TRUE) ELSE Err
\* ---- graph patterns ----
RECURSIVE Dedup(_, _, _)
Dedup(s, i, seen) == IF i > Len(s) THEN <<>> ELSE IF s[i] \in seen THEN Dedup(s, i + 1, seen) ELSE <<s[i]>> \o Dedup(s, i + 1, seen \cup {s[i]})
RECURSIVE Eval(_, _, _, _)
Eval(P, D, mu0, g) ==
  CASE P.op = "bgp"    -> LET r == Bgp(P.tps, 1, mu0, TriplesOf(D, g)) IN [i \in 1..Len(r) |-> Restrict(r[i], VarKeys(r[i]))]
    [] P.op = "union"  -> Eval(P.l, D, mu0, g) \o Eval(P.r, D, mu0, g)
    [] P.op = "graphc" -> Eval(P.inner, D, mu0, P.g)
    [] P.op = "graphv" -> LET ns == SetToSeq(GraphNames(D))  k == <<"v", P.v>> IN     \* Join(eval(D[n], P), {v -> n}) for every name n
                          Concat([n \in 1..Len(ns) |->
                             LET r == SelectSeq(Eval(P.inner, D, mu0, ns[n]), LAMBDA mu : k \notin DOMAIN mu \/ mu[k] = ns[n]) IN
                             [i \in 1..Len(r) |-> Ext(r[i], k, ns[n])]])
    [] P.op = "filter" -> SelectSeq(Eval(P.inner, D, mu0, g), LAMBDA mu : LET b == Ebv(EvalE(P.e, mu)) IN b.t = "bool" /\ b.b)
    [] P.op = "extend" -> LET r == Eval(P.inner, D, mu0, g) IN
                          [i \in 1..Len(r) |-> LET x == EvalE(P.e, r[i]) IN IF x.t = "err" THEN r[i] ELSE Ext(r[i], <<"v", P.v>>, AsTerm(x))]
    [] P.op = "distinct" -> Dedup(Eval(P.inner, D, mu0, g), 1, {})
    [] P.op = "project" -> LET r == Eval(P.inner, D, mu0, g) IN [i \in 1..Len(r) |-> Restrict(r[i], {<<"v", P.vars[j]>> : j \in 1..Len(P.vars)})]
Answer(P, D) == Eval(P, D, << >>, DG)
\* bag comparison of a sequence of mappings with logged rows (row = sequence of terms or "unbound", vars = names)
RowOf(mu, vars) == [j \in 1..Len(vars) |-> IF <<"v", vars[j]>> \in DOMAIN mu THEN mu[<<"v", vars[j]>>] ELSE [k |-> "unbound"]]
BagOfSeq(s) == [x \in {s[i] : i \in 1..Len(s)} |-> Cardinality({i \in 1..Len(s) : s[i] = x})]
\* ---- variables in scope (SPARQL 1.1 section 18.2.1), and the "variable already in scope" error of Extend ----
RECURSIVE PosVars(_)
PosVars(pt) == IF "var" \in DOMAIN pt THEN {pt.var} ELSE IF "qt" \in DOMAIN pt THEN PosVars(pt.qt[1]) \cup PosVars(pt.qt[2]) \cup PosVars(pt.qt[3]) ELSE {}
RECURSIVE InScope(_)
InScope(P) ==
  CASE P.op = "bgp"    -> UNION {PosVars(P.tps[i][1]) \cup PosVars(P.tps[i][2]) \cup PosVars(P.tps[i][3]) : i \in 1..Len(P.tps)}
    [] P.op = "union"  -> InScope(P.l) \cup InScope(P.r)
    [] P.op = "graphc" -> InScope(P.inner)
    [] P.op = "graphv" -> InScope(P.inner) \cup {P.v}
    [] P.op = "filter" -> InScope(P.inner)
    [] P.op = "extend" -> InScope(P.inner) \cup {P.v}
    [] P.op = "distinct" -> InScope(P.inner)
    [] P.op = "project" -> {P.vars[j] : j \in 1..Len(P.vars)}
    [] P.op = "slice"  -> InScope(P.inner)
RECURSIVE Overrides(_)
Overrides(P) ==
  CASE P.op = "bgp"    -> FALSE
    [] P.op = "union"  -> Overrides(P.l) \/ Overrides(P.r)
    [] P.op = "extend" -> Overrides(P.inner) \/ P.v \in InScope(P.inner)
    [] OTHER -> Overrides(P.inner)
\* Slice without ORDER BY: any sub-bag of the right size of the inner result is acceptable (order is implementation-defined)
SliceSize(n, start, len) == LET rest == IF n > start THEN n - start ELSE 0 IN IF len < 0 THEN rest ELSE IF len < rest THEN len ELSE rest
SubBag(a, b) == \A x \in DOMAIN a : x \in DOMAIN b /\ a[x] <= b[x]
====
