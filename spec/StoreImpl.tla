---- MODULE StoreImpl ----
\* Implementation-shaped model of sophia_inmem::dataset::{GenericFastDataset, GenericLightDataset}:
\* term index with capacity, six (one) permuted index sets, and quads_matching with index selection,
\* inclusive range scans and the matching iterators' cached per-position flags.  Refines the set `quads`.
EXTENDS Naturals, Sequences, FiniteSets, TLC
CONSTANTS Terms, DG, MAXI          \* MAXI: the reserved index (default graph); indices 0..MAXI-1 are issued
VARIABLES quads, t2i, gspo, gpos, gosp, spog, posg, ospg
vars == <<quads, t2i, gspo, gpos, gosp, spog, posg, ospg>>
Graphs == Terms \cup {DG}
AllQuads == Terms \X Terms \X Terms \X Graphs                 \* <<s, p, o, g>>
ZERO == 0
\* ---------- term index ----------
RECURSIVE EnsureAll(_, _)
EnsureAll(m, ts) == IF ts = <<>> THEN [m |-> m, full |-> FALSE]
  ELSE LET t == Head(ts) IN
       IF t \in DOMAIN m THEN EnsureAll(m, Tail(ts))
       ELSE IF Cardinality(DOMAIN m) >= MAXI THEN [m |-> m, full |-> TRUE]
       ELSE EnsureAll([x \in (DOMAIN m) \cup {t} |-> IF x = t THEN Cardinality(DOMAIN m) ELSE m[x]], Tail(ts))
GI(m, g) == IF g = DG THEN MAXI ELSE m[g]
TermOf(i) == CHOOSE t \in DOMAIN t2i : t2i[t] = i
GraphOf(i) == IF i = MAXI THEN DG ELSE TermOf(i)
\* ---------- mutations (as in MutableDataset::insert / remove) ----------
Init == quads = {} /\ t2i = << >> /\ gspo = {} /\ gpos = {} /\ gosp = {} /\ spog = {} /\ posg = {} /\ ospg = {}
Insert(q) ==
  LET ts == IF q[4] = DG THEN <<q[1], q[2], q[3]>> ELSE <<q[1], q[2], q[3], q[4]>>
      e == EnsureAll(t2i, ts) IN
  /\ t2i' = e.m
  /\ IF e.full THEN UNCHANGED <<quads, gspo, gpos, gosp, spog, posg, ospg>>
     ELSE LET is == e.m[q[1]] ip == e.m[q[2]] io == e.m[q[3]] ig == GI(e.m, q[4]) IN
          /\ quads' = quads \cup {q}
          /\ gspo' = gspo \cup {<<ig, is, ip, io>>}
          /\ IF <<ig, is, ip, io>> \in gspo THEN UNCHANGED <<gpos, gosp, spog, posg, ospg>>
             ELSE /\ gpos' = gpos \cup {<<ig, ip, io, is>>} /\ gosp' = gosp \cup {<<ig, io, is, ip>>}
                  /\ spog' = spog \cup {<<is, ip, io, ig>>} /\ posg' = posg \cup {<<ip, io, is, ig>>} /\ ospg' = ospg \cup {<<io, is, ip, ig>>}
Remove(q) ==
  /\ UNCHANGED t2i
  /\ IF (\E j \in 1..3 : q[j] \notin DOMAIN t2i) \/ (q[4] # DG /\ q[4] \notin DOMAIN t2i)
     THEN UNCHANGED <<quads, gspo, gpos, gosp, spog, posg, ospg>>
     ELSE LET is == t2i[q[1]] ip == t2i[q[2]] io == t2i[q[3]] ig == GI(t2i, q[4]) IN
          /\ quads' = quads \ {q}
          /\ gspo' = gspo \ {<<ig, is, ip, io>>}
          /\ IF <<ig, is, ip, io>> \notin gspo THEN UNCHANGED <<gpos, gosp, spog, posg, ospg>>
             ELSE /\ gpos' = gpos \ {<<ig, ip, io, is>>} /\ gosp' = gosp \ {<<ig, io, is, ip>>}
                  /\ spog' = spog \ {<<is, ip, io, ig>>} /\ posg' = posg \ {<<ip, io, is, ig>>} /\ ospg' = ospg \ {<<io, is, ip, ig>>}
Next == \E q \in AllQuads : Insert(q) \/ Remove(q)
Spec == Init /\ [][Next]_vars
\* ---------- refinement invariants ----------
Dec(r) == <<TermOf(r[2]), TermOf(r[3]), TermOf(r[4]), GraphOf(r[1])>>            \* gspo row -> <<s,p,o,g>>
Refines == {Dec(r) : r \in gspo} = quads
Coherent == /\ gpos = {<<r[1], r[3], r[4], r[2]>> : r \in gspo} /\ gosp = {<<r[1], r[4], r[2], r[3]>> : r \in gspo}
            /\ spog = {<<r[2], r[3], r[4], r[1]>> : r \in gspo} /\ posg = {<<r[3], r[4], r[2], r[1]>> : r \in gspo}
            /\ ospg = {<<r[4], r[2], r[3], r[1]>> : r \in gspo}
IndexOk == /\ \A a, b \in DOMAIN t2i : t2i[a] = t2i[b] => a = b
           /\ \A a \in DOMAIN t2i : t2i[a] < MAXI
           /\ {t2i[a] : a \in DOMAIN t2i} = 0..(Cardinality(DOMAIN t2i) - 1)
\* ---------- matchers: [any |-> TRUE] | [const |-> x] | [set |-> S] (x, S over Terms, or Graphs in the 4th position) ----------
IsConst(m) == "const" \in DOMAIN m
M(m, x) == IF "any" \in DOMAIN m THEN TRUE ELSE IF IsConst(m) THEN x = m.const ELSE x \in m.set
\* ---------- ordered scans ----------
TupLess(a, b) == \E k \in 1..4 : a[k] < b[k] /\ \A j \in 1..(k - 1) : a[j] = b[j]
TupLeq(a, b) == a = b \/ TupLess(a, b)
RECURSIVE SortRows(_)
SortRows(S) == IF S = {} THEN <<>> ELSE LET m == CHOOSE x \in S : \A y \in S : TupLeq(x, y) IN <<m>> \o SortRows(S \ {m})
Range(idx, lo, hi) == SortRows({r \in idx : TupLeq(lo, r) /\ TupLeq(r, hi)})
\* matching iterator with cached flags: positions 1..n of the row are filtered by ms[1..n] (n = 4, 3 or 2 trailing positions);
\* `val(k, i)` decodes index i at row position k.  The last position is re-evaluated on every row ("uninit"), the others only
\* when their index changes.  cache[k] = [i, b]
RECURSIVE Scan(_, _, _, _, _, _)
Scan(rows, n, first, ms, val(_, _), cache) ==     \* first = first filtered position (1 for GSPO, 2 for BCD, 3 for CD)
  IF n > Len(rows) THEN <<>>
  ELSE LET r == rows[n]
           \* walk positions first..3 with caching; stop at the first non-matching one without touching later caches
       IN LET c1 == IF first <= 1 THEN (IF r[1] # cache[1].i THEN [cache EXCEPT ![1] = [i |-> r[1], b |-> M(ms[1], val(1, r[1]))]] ELSE cache) ELSE cache
              ok1 == first > 1 \/ c1[1].b
              c2 == IF ok1 /\ first <= 2 THEN (IF r[2] # c1[2].i THEN [c1 EXCEPT ![2] = [i |-> r[2], b |-> M(ms[2], val(2, r[2]))]] ELSE c1) ELSE c1
              ok2 == ok1 /\ (first > 2 \/ c2[2].b)
              c3 == IF ok2 THEN (IF r[3] # c2[3].i THEN [c2 EXCEPT ![3] = [i |-> r[3], b |-> M(ms[3], val(3, r[3]))]] ELSE c2) ELSE c2
              ok3 == ok2 /\ c3[3].b
              ok4 == ok3 /\ M(ms[4], val(4, r[4]))
          IN (IF ok4 THEN <<r>> ELSE <<>>) \o Scan(rows, n + 1, first, ms, val, c3)
\* initial cache from the first row: positions before the last are computed (`new`), as in the constructors
InitCache(rows, first, ms, val(_, _)) ==
  LET r == rows[1] IN [k \in 1..3 |-> IF k >= first THEN [i |-> r[k], b |-> M(ms[k], val(k, r[k]))] ELSE [i |-> r[k], b |-> TRUE]]
Iterate(rows, first, ms, val(_, _)) == IF rows = <<>> THEN <<>> ELSE Scan(rows, 1, first, ms, val, InitCache(rows, first, ms, val))
\* ---------- quads_matching of GenericFastDataset ----------
AnyM == [any |-> TRUE]
Unknown(m, isG) == IsConst(m) /\ ~(isG /\ m.const = DG) /\ m.const \notin DOMAIN t2i
Ix(m, isG) == IF isG /\ m.const = DG THEN MAXI ELSE t2i[m.const]
FastQuery(sm, pm, om, gm) ==       \* returns the sequence of <<s,p,o,g>> yielded
  IF Unknown(sm, FALSE) \/ Unknown(pm, FALSE) \/ Unknown(om, FALSE) \/ Unknown(gm, TRUE) THEN <<>>
  ELSE LET S == IsConst(sm) P == IsConst(pm) O == IsConst(om) G == IsConst(gm)
           T(k, i) == TermOf(i)
           out(rows, perm(_)) == [n \in 1..Len(rows) |-> perm(rows[n])]
       IN
  CASE G /\ S /\ P /\ O -> LET r == <<Ix(gm, TRUE), Ix(sm, FALSE), Ix(pm, FALSE), Ix(om, FALSE)>> IN IF r \in gspo THEN <<Dec(r)>> ELSE <<>>
    [] G /\ S /\ P /\ ~O -> LET lo == <<Ix(gm, TRUE), Ix(sm, FALSE), Ix(pm, FALSE), ZERO>> hi == <<Ix(gm, TRUE), Ix(sm, FALSE), Ix(pm, FALSE), MAXI>>
                                rows == SelectSeq(Range(gspo, lo, hi), LAMBDA r : M(om, TermOf(r[4]))) IN out(rows, LAMBDA r : Dec(r))
    [] G /\ S /\ ~P /\ O -> LET lo == <<Ix(gm, TRUE), Ix(om, FALSE), Ix(sm, FALSE), ZERO>> hi == <<Ix(gm, TRUE), Ix(om, FALSE), Ix(sm, FALSE), MAXI>>
                                rows == SelectSeq(Range(gosp, lo, hi), LAMBDA r : M(pm, TermOf(r[4]))) IN out(rows, LAMBDA r : <<TermOf(r[3]), TermOf(r[4]), TermOf(r[2]), GraphOf(r[1])>>)
    [] G /\ ~S /\ P /\ O -> LET lo == <<Ix(gm, TRUE), Ix(pm, FALSE), Ix(om, FALSE), ZERO>> hi == <<Ix(gm, TRUE), Ix(pm, FALSE), Ix(om, FALSE), MAXI>>
                                rows == SelectSeq(Range(gpos, lo, hi), LAMBDA r : M(sm, TermOf(r[4]))) IN out(rows, LAMBDA r : <<TermOf(r[4]), TermOf(r[2]), TermOf(r[3]), GraphOf(r[1])>>)
    [] ~G /\ S /\ P /\ O -> LET lo == <<Ix(sm, FALSE), Ix(pm, FALSE), Ix(om, FALSE), ZERO>> hi == <<Ix(sm, FALSE), Ix(pm, FALSE), Ix(om, FALSE), MAXI>>
                                rows == SelectSeq(Range(spog, lo, hi), LAMBDA r : M(gm, GraphOf(r[4]))) IN out(rows, LAMBDA r : <<TermOf(r[1]), TermOf(r[2]), TermOf(r[3]), GraphOf(r[4])>>)
    [] G /\ S /\ ~P /\ ~O -> LET lo == <<Ix(gm, TRUE), Ix(sm, FALSE), ZERO, ZERO>> hi == <<Ix(gm, TRUE), Ix(sm, FALSE), MAXI, MAXI>> IN
                                out(Iterate(Range(gspo, lo, hi), 3, <<AnyM, AnyM, pm, om>>, T), LAMBDA r : Dec(r))
    [] G /\ ~S /\ P /\ ~O -> LET lo == <<Ix(gm, TRUE), Ix(pm, FALSE), ZERO, ZERO>> hi == <<Ix(gm, TRUE), Ix(pm, FALSE), MAXI, MAXI>> IN
                                out(Iterate(Range(gpos, lo, hi), 3, <<AnyM, AnyM, om, sm>>, T), LAMBDA r : <<TermOf(r[4]), TermOf(r[2]), TermOf(r[3]), GraphOf(r[1])>>)
    [] G /\ ~S /\ ~P /\ O -> LET lo == <<Ix(gm, TRUE), Ix(om, FALSE), ZERO, ZERO>> hi == <<Ix(gm, TRUE), Ix(om, FALSE), MAXI, MAXI>> IN
                                out(Iterate(Range(gosp, lo, hi), 3, <<AnyM, AnyM, sm, pm>>, T), LAMBDA r : <<TermOf(r[3]), TermOf(r[4]), TermOf(r[2]), GraphOf(r[1])>>)
    [] ~G /\ S /\ P /\ ~O -> LET lo == <<Ix(sm, FALSE), Ix(pm, FALSE), ZERO, ZERO>> hi == <<Ix(sm, FALSE), Ix(pm, FALSE), MAXI, MAXI>> IN
                                out(Iterate(Range(spog, lo, hi), 3, <<AnyM, AnyM, om, gm>>, LAMBDA k, i : IF k = 4 THEN GraphOf(i) ELSE TermOf(i)), LAMBDA r : <<TermOf(r[1]), TermOf(r[2]), TermOf(r[3]), GraphOf(r[4])>>)
    [] ~G /\ S /\ ~P /\ O -> LET lo == <<Ix(om, FALSE), Ix(sm, FALSE), ZERO, ZERO>> hi == <<Ix(om, FALSE), Ix(sm, FALSE), MAXI, MAXI>> IN
                                out(Iterate(Range(ospg, lo, hi), 3, <<AnyM, AnyM, pm, gm>>, LAMBDA k, i : IF k = 4 THEN GraphOf(i) ELSE TermOf(i)), LAMBDA r : <<TermOf(r[2]), TermOf(r[3]), TermOf(r[1]), GraphOf(r[4])>>)
    [] ~G /\ ~S /\ P /\ O -> LET lo == <<Ix(pm, FALSE), Ix(om, FALSE), ZERO, ZERO>> hi == <<Ix(pm, FALSE), Ix(om, FALSE), MAXI, MAXI>> IN
                                out(Iterate(Range(posg, lo, hi), 3, <<AnyM, AnyM, sm, gm>>, LAMBDA k, i : IF k = 4 THEN GraphOf(i) ELSE TermOf(i)), LAMBDA r : <<TermOf(r[3]), TermOf(r[1]), TermOf(r[2]), GraphOf(r[4])>>)
    [] G /\ ~S /\ ~P /\ ~O -> LET lo == <<Ix(gm, TRUE), ZERO, ZERO, ZERO>> hi == <<Ix(gm, TRUE), MAXI, MAXI, MAXI>> IN
                                out(Iterate(Range(gspo, lo, hi), 2, <<AnyM, sm, pm, om>>, T), LAMBDA r : Dec(r))
    [] ~G /\ S /\ ~P /\ ~O -> LET lo == <<Ix(sm, FALSE), ZERO, ZERO, ZERO>> hi == <<Ix(sm, FALSE), MAXI, MAXI, MAXI>> IN
                                out(Iterate(Range(spog, lo, hi), 2, <<AnyM, pm, om, gm>>, LAMBDA k, i : IF k = 4 THEN GraphOf(i) ELSE TermOf(i)), LAMBDA r : <<TermOf(r[1]), TermOf(r[2]), TermOf(r[3]), GraphOf(r[4])>>)
    [] ~G /\ ~S /\ P /\ ~O -> LET lo == <<Ix(pm, FALSE), ZERO, ZERO, ZERO>> hi == <<Ix(pm, FALSE), MAXI, MAXI, MAXI>> IN
                                out(Iterate(Range(posg, lo, hi), 2, <<AnyM, om, sm, gm>>, LAMBDA k, i : IF k = 4 THEN GraphOf(i) ELSE TermOf(i)), LAMBDA r : <<TermOf(r[3]), TermOf(r[1]), TermOf(r[2]), GraphOf(r[4])>>)
    [] ~G /\ ~S /\ ~P /\ O -> LET lo == <<Ix(om, FALSE), ZERO, ZERO, ZERO>> hi == <<Ix(om, FALSE), MAXI, MAXI, MAXI>> IN
                                out(Iterate(Range(ospg, lo, hi), 2, <<AnyM, sm, pm, gm>>, LAMBDA k, i : IF k = 4 THEN GraphOf(i) ELSE TermOf(i)), LAMBDA r : <<TermOf(r[2]), TermOf(r[3]), TermOf(r[1]), GraphOf(r[4])>>)
    [] ~G /\ ~S /\ ~P /\ ~O -> out(Iterate(SortRows(gspo), 1, <<gm, sm, pm, om>>, LAMBDA k, i : IF k = 1 THEN GraphOf(i) ELSE TermOf(i)), LAMBDA r : Dec(r))
\* ---------- the invariant: every query equals the filter of the abstract set, each member once ----------
TermMatchers == {AnyM} \cup {[const |-> t] : t \in Terms} \cup {[set |-> Terms \ {t}] : t \in Terms}
GraphMatchers == {AnyM} \cup {[const |-> g] : g \in Graphs} \cup {[set |-> Graphs \ {g}] : g \in Graphs}
SeqToSet(s) == {s[i] : i \in 1..Len(s)}
QueryCorrect == \A sm \in TermMatchers, pm \in TermMatchers, om \in TermMatchers, gm \in GraphMatchers :
   LET res == FastQuery(sm, pm, om, gm)
       exp == {q \in quads : M(sm, q[1]) /\ M(pm, q[2]) /\ M(om, q[3]) /\ M(gm, q[4])}
   IN SeqToSet(res) = exp /\ Len(res) = Cardinality(exp)
Bound == Cardinality(quads) <= 2
====
