---- MODULE Rdfc10 ----
\* Draft transcription of W3C RDFC-1.0 (sections 4.4 - 4.8), parameterised by a toy hash.
\* Strings are sequences of code points; hashing is done on their UTF-8 bytes.
EXTENDS Naturals, Sequences, FiniteSets, TLC

\* ---------- strings ----------
RECURSIVE LessFrom(_, _, _)
LessFrom(a, b, i) == IF i > Len(a) THEN i <= Len(b)
                     ELSE IF i > Len(b) THEN FALSE
                     ELSE IF a[i] < b[i] THEN TRUE
                     ELSE IF a[i] > b[i] THEN FALSE
                     ELSE LessFrom(a, b, i + 1)
Less(a, b) == LessFrom(a, b, 1)
RECURSIVE ConcatFrom(_, _)
ConcatFrom(ss, i) == IF i > Len(ss) THEN <<>> ELSE ss[i] \o ConcatFrom(ss, i + 1)
Concat(ss) == ConcatFrom(ss, 1)
Dec(n) == IF n < 10 THEN <<48 + n>> ELSE IF n < 100 THEN <<48 + (n \div 10), 48 + (n % 10)>>
          ELSE <<48 + (n \div 100), 48 + ((n \div 10) % 10), 48 + (n % 10)>>
HexD(n) == IF n < 10 THEN 48 + n ELSE 87 + n
Utf8(c) == IF c < 128 THEN <<c>>
           ELSE IF c < 2048 THEN <<192 + (c \div 64), 128 + (c % 64)>>
           ELSE IF c < 65536 THEN <<224 + (c \div 4096), 128 + ((c \div 64) % 64), 128 + (c % 64)>>
           ELSE <<240 + (c \div 262144), 128 + ((c \div 4096) % 64), 128 + ((c \div 64) % 64), 128 + (c % 64)>>
Bytes(s) == Concat([i \in 1..Len(s) |-> Utf8(s[i])])

\* ---------- toy hash: four 15-bit polynomial hashes, rendered as 16 lowercase hex digits ----------
\* Wide = TRUE: a 48-byte digest (as SHA-384's): six such hashes with seeds Seed, Seed + 3, ... side by side, 96 hex digits
CONSTANTS Seed, Wide
RECURSIVE Poly(_, _, _, _, _)
Poly(b, i, acc, m, p) == IF i > Len(b) THEN acc ELSE Poly(b, i + 1, (acc * m + b[i]) % p, m, p)
Hex4(v) == <<HexD(v \div 4096), HexD((v \div 256) % 16), HexD((v \div 16) % 16), HexD(v % 16)>>
H8(b, sd) ==
  Hex4(Poly(b, 1, 7 + sd, 31, 32749)) \o Hex4(Poly(b, 1, 11 + sd, 37, 32719))
  \o Hex4(Poly(b, 1, 13 + sd, 41, 32717)) \o Hex4(Poly(b, 1, 17 + sd, 43, 32713))
Hash(s) == LET b == Bytes(s) IN
  IF Wide THEN H8(b, Seed) \o H8(b, Seed + 3) \o H8(b, Seed + 6) \o H8(b, Seed + 9) \o H8(b, Seed + 12) \o H8(b, Seed + 15)
  ELSE H8(b, Seed)

\* ---------- canonical N-Quads ----------
\* term = [k |-> "i", v |-> cps] | [k |-> "b", v |-> cps] | [k |-> "l", lex, dt, lang] | [k |-> "d"]
XsdString == <<104,116,116,112,58,47,47,119,119,119,46,119,51,46,111,114,103,47,50,48,48,49,47,88,77,76,83,99,104,101,109,97,35,115,116,114,105,110,103>>
EscChar(c) ==
  IF c = 34 THEN <<92, 34>> ELSE IF c = 92 THEN <<92, 92>> ELSE IF c = 10 THEN <<92, 110>>
  ELSE IF c = 13 THEN <<92, 114>> ELSE IF c = 9 THEN <<92, 116>> ELSE IF c = 8 THEN <<92, 98>>
  ELSE IF c = 12 THEN <<92, 102>>
  ELSE IF c <= 31 \/ c = 127 THEN <<92, 117, 48, 48>> \o <<(IF (c \div 16) < 10 THEN 48 + (c \div 16) ELSE 55 + (c \div 16)),
                                                          (IF (c % 16) < 10 THEN 48 + (c % 16) ELSE 55 + (c % 16))>>
  ELSE <<c>>
Esc(s) == Concat([i \in 1..Len(s) |-> EscChar(s[i])])
\* serialisation of a term followed by one space (as in the code and in the hash inputs)
Nq(t) ==
  IF t.k = "i" THEN <<60>> \o t.v \o <<62, 32>>
  ELSE IF t.k = "b" THEN <<95, 58>> \o t.v \o <<32>>
  ELSE <<34>> \o Esc(t.lex) \o <<34>>
       \o (IF t.lang # <<>> THEN <<64>> \o t.lang
           ELSE IF t.dt = XsdString THEN <<>> ELSE <<94, 94, 60>> \o t.dt \o <<62>>)
       \o <<32>>
IsB(t) == t.k = "b"
NqFor(t, ref) == IF IsB(t) THEN (IF t.v = ref THEN <<95,58,97,32>> ELSE <<95,58,122,32>>) ELSE Nq(t)
LineFor(q, ref) == NqFor(q[1], ref) \o NqFor(q[2], ref) \o NqFor(q[3], ref)
                   \o (IF q[4].k = "d" THEN <<>> ELSE NqFor(q[4], ref)) \o <<46, 10>>
Line(q) == Nq(q[1]) \o Nq(q[2]) \o Nq(q[3]) \o (IF q[4].k = "d" THEN <<>> ELSE Nq(q[4])) \o <<46, 10>>

\* ---------- the algorithm ----------
Mentions(q, b) == \E j \in {1, 3, 4} : IsB(q[j]) /\ q[j].v = b
BN(D) == UNION { { D[i][j].v : j \in {jj \in {1, 3, 4} : IsB(D[i][jj])} } : i \in 1..Len(D) }
CONSTANT Multi   \* TRUE: a quad is listed once per occurrence of the blank node in it (as the code does)
Occ(q, b) == Cardinality({j \in {1, 3, 4} : IsB(q[j]) /\ q[j].v = b})
QuadsOf(D, b) == IF Multi THEN Concat([i \in 1..Len(D) |-> [k \in 1..Occ(D[i], b) |-> D[i]]])
                 ELSE SelectSeq(D, LAMBDA q : Mentions(q, b))
SortStr(ss) == SortSeq(ss, Less)
RECURSIVE SetToSortedSeq(_)
SetToSortedSeq(S) == IF S = {} THEN <<>>
                     ELSE LET m == CHOOSE x \in S : \A y \in S : ~Less(y, x) IN <<m>> \o SetToSortedSeq(S \ {m})

H1(D, b) == LET qs == QuadsOf(D, b) IN Hash(Concat(SortStr([i \in 1..Len(qs) |-> LineFor(qs[i], b)])))

\* issuer = [pre |-> cps, map |-> function label -> number, order |-> seq of labels]
NewIssuer(pre) == [pre |-> pre, map |-> << >>, order |-> <<>>]
Has(iss, b) == b \in DOMAIN iss.map
Issue(iss, b) == IF Has(iss, b) THEN iss
                 ELSE [iss EXCEPT !.map = [x \in (DOMAIN iss.map) \cup {b} |-> IF x = b THEN Len(iss.order) ELSE iss.map[x]],
                                  !.order = Append(iss.order, b)]
IdOf(iss, b) == iss.pre \o Dec(iss.map[b])
C14N == <<99, 49, 52, 110>>
BPre == <<98>>

HashRelated(h1, canon, related, q, issuer, pos) ==
  Hash( <<pos>>
        \o (IF pos # 103 THEN <<60>> \o q[2].v \o <<62>> ELSE <<>>)
        \o (IF Has(canon, related) THEN <<95, 58>> \o IdOf(canon, related)
            ELSE IF Has(issuer, related) THEN <<95, 58>> \o IdOf(issuer, related)
            ELSE h1[related]) )

RECURSIVE PermSeqs(_)
PermSeqs(S) == IF S = {} THEN { <<>> } ELSE UNION { { <<i>> \o p : p \in PermSeqs(S \ {i}) } : i \in S }
Perms(n) == PermSeqs(1..n)

\* lim = [pl |-> permutation limit, dn |-> 2 * depth factor, nb |-> number of blank nodes]: the non-standard safeguards.
\* They never change a result; `tox` only records whether a limit was exceeded somewhere in the run.
RECURSIVE HND(_, _, _, _, _, _, _)
\* first phase of one permutation (5.4.4): returns [iss, path, rec]
RECURSIVE Phase1(_, _, _, _, _, _)
Phase1(canon, p, i, iss, path, rec) ==
  IF i > Len(p) THEN [iss |-> iss, path |-> path, rec |-> rec]
  ELSE LET r == p[i] IN
       IF Has(canon, r) THEN Phase1(canon, p, i + 1, iss, path \o <<95, 58>> \o IdOf(canon, r), rec)
       ELSE LET isNew == ~Has(iss, r)
                iss2 == Issue(iss, r)
            IN Phase1(canon, p, i + 1, iss2, path \o <<95, 58>> \o IdOf(iss2, r), IF isNew THEN Append(rec, r) ELSE rec)
\* second phase (5.4.5)
RECURSIVE Phase2(_, _, _, _, _, _, _, _, _, _, _)
Phase2(D, h1, canon, rec, i, iss, path, lim, depth, tox, amb) ==
  IF i > Len(rec) THEN [iss |-> iss, path |-> path, tox |-> tox, amb |-> amb]
  ELSE LET r == rec[i]
           res == HND(D, h1, canon, r, iss, lim, depth + 1)
       IN Phase2(D, h1, canon, rec, i + 1, res.iss,
                 path \o <<95, 58>> \o IdOf(iss, r) \o <<60>> \o res.hash \o <<62>>, lim, depth, tox \/ res.tox, amb \/ res.amb)
\* related-hash groups of identifier: sequence of [rh, list]
RelatedPairs(D, h1, canon, id, issuer) ==
  LET qs == QuadsOf(D, id)
      pairsOf(q) == LET poss == <<1, 3, 4>>  pc == <<115, 111, 103>> IN
                    SelectSeq([j \in 1..3 |-> IF IsB(q[poss[j]]) /\ q[poss[j]].v # id
                                              THEN [rh |-> HashRelated(h1, canon, q[poss[j]].v, q, issuer, pc[j]), b |-> q[poss[j]].v]
                                              ELSE [rh |-> <<>>, b |-> <<>>]],
                              LAMBDA x : x.rh # <<>>)
  IN Concat([i \in 1..Len(qs) |-> pairsOf(qs[i])])
\* process groups in hash order (step 5), threading issuer and data
RECURSIVE Groups(_, _, _, _, _, _, _, _, _, _, _, _)
Groups(D, h1, canon, pairs, hashes, gi, issuer, data, lim, depth, tox, amb) ==
  IF gi > Len(hashes) THEN [hash |-> Hash(data), iss |-> issuer, tox |-> tox, amb |-> amb]
  ELSE LET rh == hashes[gi]
           list == SelectSeq(pairs, LAMBDA x : x.rh = rh)
           n == Len(list)
           cand == { LET p == [i \in 1..n |-> list[f[i]].b]
                         a == Phase1(canon, p, 1, issuer, <<>>, <<>>)
                         b == Phase2(D, h1, canon, a.rec, 1, a.iss, a.path, lim, depth, FALSE, FALSE)
                     IN b : f \in IF n > 7 THEN {} ELSE Perms(n) }
           \* a list beyond the model's own reach (> 7) is toxic for every setting used; no result is computed for it
           best == IF cand = {} THEN [iss |-> issuer, path |-> <<>>, tox |-> TRUE, amb |-> FALSE]
                   ELSE CHOOSE c \in cand : \A d \in cand : ~Less(d.path, c.path)
           anyTox == \E c \in cand : c.tox
           \* 5.4.6 keeps the FIRST permutation with the least path: when two permutations tie on the path and leave different issuers,
           \* the result depends on the order in which permutations are visited, which the specification leaves open
           ambHere == \E c, d \in cand : c.path = best.path /\ d.path = best.path /\ c.iss.order # d.iss.order
       IN Groups(D, h1, canon, pairs, hashes, gi + 1, best.iss, data \o rh \o best.path, lim, depth,
                 tox \/ anyTox \/ n > lim.pl \/ cand = {}, amb \/ ambHere \/ \E c \in cand : c.amb)
HND(D, h1, canon, id, issuer, lim, depth) ==
  LET pairs == RelatedPairs(D, h1, canon, id, issuer)
      hashes == SetToSortedSeq({pairs[i].rh : i \in 1..Len(pairs)})
  IN Groups(D, h1, canon, pairs, hashes, 1, issuer, <<>>, lim, depth, 2 * depth > lim.dn * lim.nb, FALSE)

\* step 4 and 5 over first-degree hash groups, in hash order
RECURSIVE IssueAll(_, _, _)
IssueAll(canon, order, i) == IF i > Len(order) THEN canon ELSE IssueAll(Issue(canon, order[i]), order, i + 1)
RECURSIVE IssueResults(_, _, _)
IssueResults(canon, results, i) == IF i > Len(results) THEN canon ELSE IssueResults(IssueAll(canon, results[i].iss.order, 1), results, i + 1)
RECURSIVE Step4(_, _, _, _, _)
Step4(D, h1, hs, i, canon) ==
  IF i > Len(hs) THEN canon
  ELSE LET grp == {b \in BN(D) : h1[b] = hs[i]} IN
       Step4(D, h1, hs, i + 1, IF Cardinality(grp) = 1 THEN Issue(canon, CHOOSE b \in grp : TRUE) ELSE canon)
RECURSIVE SortByHash(_)
SortByHash(S) == IF S = {} THEN <<>>
                 ELSE LET m == CHOOSE x \in S : \A y \in S : ~Less(y.hash, x.hash) IN <<m>> \o SortByHash(S \ {m})
RECURSIVE Step5(_, _, _, _, _, _, _, _)
\* returns [canon, tox, tie, amb]; tie = two results of one group had the same hash (step 5.3 leaves their order open);
\* amb = somewhere two permutations tied on the least path with different issuers (5.4.6 leaves the winner open)
Step5(D, h1, hs, i, canon, skip521, lim, acc) ==
  IF i > Len(hs) THEN [canon |-> canon, tox |-> acc.tox, tie |-> acc.tie, amb |-> acc.amb]
  ELSE LET grp == {b \in BN(D) : h1[b] = hs[i]} IN
       IF Cardinality(grp) = 1 THEN Step5(D, h1, hs, i + 1, canon, skip521, lim, acc)
       ELSE LET todo == IF skip521 THEN {b \in grp : ~Has(canon, b)} ELSE grp
                resSet == { LET r == HND(D, h1, canon, n, Issue(NewIssuer(BPre), n), lim, 0) IN [hash |-> r.hash, iss |-> r.iss, n |-> n, tox |-> r.tox, amb |-> r.amb] : n \in todo }
                resSeq == SortByHash(resSet)
                tie == \E x, y \in resSet : x.n # y.n /\ x.hash = y.hash
            IN Step5(D, h1, hs, i + 1, IssueResults(canon, resSeq, 1), skip521, lim,
                     [tox |-> acc.tox \/ \E x \in resSet : x.tox, tie |-> acc.tie \/ tie, amb |-> acc.amb \/ \E x \in resSet : x.amb])
NoLimit(D) == [pl |-> 99, dn |-> 99, nb |-> Cardinality(BN(D))]
CanonicalRun(D, skip521, lim) ==
  LET h1 == [b \in BN(D) |-> H1(D, b)]
      hs == SetToSortedSeq({h1[b] : b \in BN(D)})
      c4 == Step4(D, h1, hs, 1, NewIssuer(C14N))
  IN Step5(D, h1, hs, 1, c4, skip521, lim, [tox |-> FALSE, tie |-> FALSE, amb |-> FALSE])
Canonical(D, skip521) == CanonicalRun(D, skip521, NoLimit(D)).canon
Relabel(t, canon) == IF IsB(t) THEN [k |-> "b", v |-> IdOf(canon, t.v)] ELSE t
DocOf(D, canon) ==
  LET lines == { Line(<<Relabel(D[i][1], canon), D[i][2], Relabel(D[i][3], canon), Relabel(D[i][4], canon)>>) : i \in 1..Len(D) }
  IN Concat(SetToSortedSeq(lines))
CanonDoc(D, skip521) ==
  LET canon == Canonical(D, skip521)
      lines == { Line(<<Relabel(D[i][1], canon), D[i][2], Relabel(D[i][3], canon), Relabel(D[i][4], canon)>>) : i \in 1..Len(D) }
  IN Concat(SetToSortedSeq(lines))
\* ---------- every outcome the W3C text allows ----------
\* Two places of the algorithm leave a choice to the implementation: 5.4.6 keeps the FIRST permutation with the least path (two permutations
\* may tie on the path and leave different issuers), and 5.3 takes the results of a group "sorted by hash" (two results may have the same
\* hash).  When the tied alternatives are automorphic images of each other every choice gives the same document; they need not be: the
\* related hash of 4.7.3 holds position, predicate and identifier - not the graph name of the quad -, so nodes that differ only in WHICH
\* graph links them tie (MC_Rdfc10: Twins).  The operators below compute the SET of possible results; the deterministic operators above
\* compute one of them.
RECURSIVE HNDS(_, _, _, _, _, _, _)
RECURSIVE Phase2S(_, _, _, _, _, _, _, _, _, _)
Phase2S(D, h1, canon, rec, i, iss, path, lim, depth, tox) ==
  IF i > Len(rec) THEN { [iss |-> iss, path |-> path, tox |-> tox] }
  ELSE LET r == rec[i] IN
       UNION { Phase2S(D, h1, canon, rec, i + 1, res.iss, path \o <<95, 58>> \o IdOf(iss, r) \o <<60>> \o res.hash \o <<62>>, lim, depth, tox \/ res.tox)
               : res \in HNDS(D, h1, canon, r, iss, lim, depth + 1) }
RECURSIVE GroupsS(_, _, _, _, _, _, _, _, _, _, _)
GroupsS(D, h1, canon, pairs, hashes, gi, issuer, data, lim, depth, tox) ==
  IF gi > Len(hashes) THEN { [hash |-> Hash(data), iss |-> issuer, tox |-> tox] }
  ELSE LET rh == hashes[gi]
           list == SelectSeq(pairs, LAMBDA x : x.rh = rh)
           n == Len(list)
           cand == UNION { LET p == [i \in 1..n |-> list[f[i]].b]
                               a == Phase1(canon, p, 1, issuer, <<>>, <<>>)
                           IN Phase2S(D, h1, canon, a.rec, 1, a.iss, a.path, lim, depth, FALSE) : f \in IF n > 7 THEN {} ELSE Perms(n) }
           least == { c \in cand : \A d \in cand : ~Less(d.path, c.path) }
           anyTox == \E c \in cand : c.tox
           t2 == tox \/ anyTox \/ n > lim.pl \/ cand = {}
       IN IF cand = {} THEN GroupsS(D, h1, canon, pairs, hashes, gi + 1, issuer, data \o rh, lim, depth, TRUE)
          ELSE UNION { GroupsS(D, h1, canon, pairs, hashes, gi + 1, c.iss, data \o rh \o c.path, lim, depth, t2) : c \in least }
HNDS(D, h1, canon, id, issuer, lim, depth) ==
  LET pairs == RelatedPairs(D, h1, canon, id, issuer)
      hashes == SetToSortedSeq({pairs[i].rh : i \in 1..Len(pairs)})
  IN GroupsS(D, h1, canon, pairs, hashes, 1, issuer, <<>>, lim, depth, 2 * depth > lim.dn * lim.nb)
\* step 5 with every choice of a result per node and every order of the results that is sorted by hash
RECURSIVE Step5S(_, _, _, _, _, _)
Step5S(D, h1, hs, i, canon, lim) ==
  IF i > Len(hs) THEN { canon }
  ELSE LET grp == {b \in BN(D) : h1[b] = hs[i]} IN
       IF Cardinality(grp) = 1 THEN Step5S(D, h1, hs, i + 1, canon, lim)
       ELSE LET todo == {b \in grp : ~Has(canon, b)}
                resOf == [n \in todo |-> HNDS(D, h1, canon, n, Issue(NewIssuer(BPre), n), lim, 0)]
                picks == { c \in [todo -> UNION {resOf[n] : n \in todo}] : \A n \in todo : c[n] \in resOf[n] }
                orders(c) == { sq \in PermSeqs(todo) : \A a, b \in 1..Len(sq) : a < b => ~Less(c[sq[b]].hash, c[sq[a]].hash) }
            IN UNION { UNION { Step5S(D, h1, hs, i + 1, IssueResults(canon, [k \in 1..Len(sq) |-> c[sq[k]]], 1), lim) : sq \in orders(c) } : c \in picks }
OutcomeDocs(D) ==
  LET h1 == [b \in BN(D) |-> H1(D, b)]
      hs == SetToSortedSeq({h1[b] : b \in BN(D)})
      c4 == Step4(D, h1, hs, 1, NewIssuer(C14N))
  IN { DocOf(D, c) : c \in Step5S(D, h1, hs, 1, c4, NoLimit(D)) }
OutcomeCanons(D) ==
  LET h1 == [b \in BN(D) |-> H1(D, b)]
      hs == SetToSortedSeq({h1[b] : b \in BN(D)})
      c4 == Step4(D, h1, hs, 1, NewIssuer(C14N))
  IN Step5S(D, h1, hs, 1, c4, NoLimit(D))
====
