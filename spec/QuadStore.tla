---- MODULE QuadStore ----
\* Abstract specification of a mutable RDF dataset/graph (C01, C11): a mathematical set of quads
\* (a bag for list-backed containers), matcher semantics, and the contract of every mutation's
\* returned flag / count.  Terms are structural records; strings are code-point sequences.
\*   term  = [k |-> "iri"|"bnode"|"var", v |-> cps] | [k |-> "lit", lex, dt, lang] | [k |-> "triple", s, p, o]
\*   graph name = term | DG ;   quad = <<s, p, o, g>>
EXTENDS Naturals, Sequences, FiniteSets, TLC

Lower(c) == IF c >= 65 /\ c <= 90 THEN c + 32 ELSE c
FoldAscii(s) == [i \in 1..Len(s) |-> Lower(s[i])]
\* normal form: language tags folded, so that record equality is term equality
RECURSIVE Norm(_)
Norm(t) == IF t.k = "lit" THEN [t EXCEPT !.lang = FoldAscii(t.lang)]
           ELSE IF t.k = "triple" THEN [k |-> "triple", s |-> Norm(t.s), p |-> Norm(t.p), o |-> Norm(t.o)]
           ELSE t
NormQ(q) == <<Norm(q[1]), Norm(q[2]), Norm(q[3]), Norm(q[4])>>
DG == [k |-> "dg"]
RdfLangString == <<104,116,116,112,58,47,47,119,119,119,46,119,51,46,111,114,103,47,49,57,57,57,47,48,50,47,50,50,45,114,100,102,45,115,121,110,116,97,120,45,110,115,35,108,97,110,103,83,116,114,105,110,103>>
Datatype(t) == IF t.lang # <<>> THEN RdfLangString ELSE t.dt

\* ---- matcher semantics (a graph-name matcher is a matcher over Term \cup {DG}) ----
RECURSIVE Matches(_, _)
Matches(m, t) ==
  CASE m.m = "any"    -> TRUE
    [] m.m = "in"     -> \E i \in 1..Len(m.ts) : Norm(m.ts[i]) = Norm(t)
    [] m.m = "kind"   -> t.k = m.kind
    [] m.m = "not"    -> ~Matches(m.of, t)
    [] m.m = "dt"     -> t.k = "lit" /\ Datatype(t) = m.dt
    [] m.m = "lang"   -> t.k = "lit" /\ t.lang # <<>> /\ FoldAscii(t.lang) = FoldAscii(m.tag)
    [] m.m = "triple" -> t.k = "triple" /\ Matches(m.s, t.s) /\ Matches(m.p, t.p) /\ Matches(m.o, t.o)
    [] m.m = "term"   -> t.k # "dg" /\ Matches(m.of, t)     \* TermMatcher.gn(): never matches the default graph
MatchesQ(ms, q) == \A j \in 1..4 : Matches(ms[j], q[j])

\* well-formedness of `constant()`: a matcher may expose a constant only if it matches exactly that term
\* (used by MC_Store's matcher universe; the shipped rules are: Option/1-array/1-slice/MatcherRef/.gn() of those)
ConstantOf(m) == IF m.m = "in" /\ Len(m.ts) = 1 THEN <<Norm(m.ts[1])>>
                 ELSE IF m.m = "term" /\ m.of.m = "in" /\ Len(m.of.ts) = 1 THEN <<Norm(m.of.ts[1])>>
                 ELSE <<>>

SeqToSet(s) == {s[i] : i \in 1..Len(s)}
\* bag of a sequence as a function value -> count
BagOf(s) == [x \in SeqToSet(s) |-> Cardinality({i \in 1..Len(s) : s[i] = x})]
EmptyBag == [x \in {} |-> 0]
BagCount(b, x) == IF x \in DOMAIN b THEN b[x] ELSE 0
BagAdd(b, x) == [y \in (DOMAIN b) \cup {x} |-> IF y = x THEN BagCount(b, x) + 1 ELSE b[y]]
BagDel(b, S) == [y \in (DOMAIN b) \ S |-> b[y]]
BagSize(b) == LET RECURSIVE Sum(_)
                  Sum(S) == IF S = {} THEN 0 ELSE LET x == CHOOSE x \in S : TRUE IN b[x] + Sum(S \ {x})
              IN Sum(DOMAIN b)
SetBag(S) == [x \in S |-> 1]

\* ---- term projections (subjects(), iris(), ... : "may yield duplicates") ----
RECURSIVE Atoms(_)
Atoms(t) == IF t.k = "triple" THEN Atoms(t.s) \cup Atoms(t.p) \cup Atoms(t.o) ELSE IF t.k = "dg" THEN {} ELSE {t}
RECURSIVE Constituents(_)
Constituents(t) == IF t.k = "triple" THEN {t} \cup Constituents(t.s) \cup Constituents(t.p) \cup Constituents(t.o)
                   ELSE IF t.k = "dg" THEN {} ELSE {t}
Projection(which, Q) ==
  CASE which = "subjects"    -> {q[1] : q \in Q}
    [] which = "predicates"  -> {q[2] : q \in Q}
    [] which = "objects"     -> {q[3] : q \in Q}
    [] which = "graph_names" -> {q[4] : q \in Q} \ {DG}
    [] which = "iris"        -> {a \in UNION {Atoms(q[j]) : q \in Q, j \in 1..4} : a.k = "iri"}
    [] which = "blank_nodes" -> {a \in UNION {Atoms(q[j]) : q \in Q, j \in 1..4} : a.k = "bnode"}
    [] which = "literals"    -> {a \in UNION {Atoms(q[j]) : q \in Q, j \in 1..4} : a.k = "lit"}
    [] which = "variables"   -> {a \in UNION {Atoms(q[j]) : q \in Q, j \in 1..4} : a.k = "var"}
    [] which = "quoted_triples" -> {a \in UNION {Constituents(q[j]) : q \in Q, j \in 1..4} : a.k = "triple"}

\* ---- the abstract machine over a bag `b` of normalised quads (a set store keeps all counts at 1) ----
\* number of effective insertions when applying a sequence in order, and the resulting set
RECURSIVE CountIns(_, _, _)
CountIns(s, i, acc) == IF i > Len(s) THEN [n |-> 0, st |-> acc]
                       ELSE LET r == CountIns(s, i + 1, acc \cup {s[i]}) IN
                            [n |-> r.n + (IF s[i] \in acc THEN 0 ELSE 1), st |-> r.st]
RECURSIVE CountDel(_, _, _)
CountDel(s, i, acc) == IF i > Len(s) THEN [n |-> 0, st |-> acc]
                       ELSE LET r == CountDel(s, i + 1, acc \ {s[i]}) IN
                            [n |-> r.n + (IF s[i] \in acc THEN 1 ELSE 0), st |-> r.st]
Prefix(s, j) == SubSeq(s, 1, j)
TermsOfQ(q) == {q[j] : j \in 1..4} \ {DG}
====
