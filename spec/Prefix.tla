---- MODULE Prefix ----
\* Prefix maps (api/src/prefix): a sequence of (prefix, namespace) pairs; strings are code-point sequences.
\* get_namespace(p): the namespace of the FIRST pair whose prefix is p.
\* get_checked_prefixed_pair(iri, check): among the pairs whose namespace is a prefix of iri and whose suffix passes
\*   check, the one with the LONGEST namespace (the first of them if several share that length); none if there is none.
EXTENDS Naturals, Sequences, FiniteSets
StartsWith(s, p) == Len(p) <= Len(s) /\ SubSeq(s, 1, Len(p)) = p
Suffix(s, p) == SubSeq(s, Len(p) + 1, Len(s))
GetNamespace(map, p) == IF \E i \in 1..Len(map) : map[i].p = p
                        THEN [found |-> TRUE, ns |-> map[CHOOSE i \in 1..Len(map) : map[i].p = p /\ \A j \in 1..(i - 1) : map[j].p # p].ns]
                        ELSE [found |-> FALSE, ns |-> <<>>]
Qualifies(map, iri, Check(_), i) == StartsWith(iri, map[i].ns) /\ Check(Suffix(iri, map[i].ns))
\* the implementation scans once and replaces its candidate only by a STRICTLY longer namespace, starting from length 0:
\* a pair whose namespace is empty is never chosen (matched starts at 0 and the comparison is '>')
GetPair(map, iri, Check(_)) ==
  LET Q == {i \in 1..Len(map) : Qualifies(map, iri, Check, i) /\ Len(map[i].ns) > 0} IN
  IF Q = {} THEN [found |-> FALSE, p |-> <<>>, suffix |-> <<>>]
  ELSE LET best == CHOOSE i \in Q : /\ \A j \in Q : Len(map[j].ns) <= Len(map[i].ns)
                                    /\ \A j \in Q : Len(map[j].ns) = Len(map[i].ns) => i <= j
       IN [found |-> TRUE, p |-> map[best].p, suffix |-> Suffix(iri, map[best].ns)]
\* laws (checked by MC_Prefix on every small map): the answer re-composes to the IRI, passes the check, and no qualifying
\* pair has a longer namespace; "none" only when nothing qualifies
Sound(map, iri, Check(_)) == LET r == GetPair(map, iri, Check) IN
  r.found => \E i \in 1..Len(map) : map[i].p = r.p /\ map[i].ns \o r.suffix = iri /\ Check(r.suffix)
                                   /\ \A j \in 1..Len(map) : Qualifies(map, iri, Check, j) => Len(map[j].ns) <= Len(map[i].ns)
Complete(map, iri, Check(_)) == LET r == GetPair(map, iri, Check) IN
  ~r.found => \A i \in 1..Len(map) : ~Qualifies(map, iri, Check, i) \/ Len(map[i].ns) = 0
====
