---- MODULE Validity ----
\* The toolkit's validity rules for the terms a parser may hand out (C08): IRIs (RFC 3987, Iri.tla), blank node labels
\* (Turtle BLANK_NODE_LABEL without "_:"), language tags (the toolkit's LANG_TAG), variable names (SPARQL VARNAME).
\* Strings are code-point sequences.
EXTENDS Iri
PnCharsBase(c) == \/ (c >= 65 /\ c <= 90) \/ (c >= 97 /\ c <= 122) \/ (c >= 192 /\ c <= 214) \/ (c >= 216 /\ c <= 246) \/ (c >= 248 /\ c <= 767)
                  \/ (c >= 880 /\ c <= 893) \/ (c >= 895 /\ c <= 8191) \/ c \in {8204, 8205} \/ (c >= 8304 /\ c <= 8591) \/ (c >= 11264 /\ c <= 12271)
                  \/ (c >= 12289 /\ c <= 55295) \/ (c >= 63744 /\ c <= 64975) \/ (c >= 65008 /\ c <= 65533) \/ (c >= 65536 /\ c <= 983039)
DigitC(c) == c >= 48 /\ c <= 57
PnCharsU(c) == PnCharsBase(c) \/ c = 95
PnChars(c) == PnCharsU(c) \/ c = 45 \/ DigitC(c) \/ c = 183 \/ (c >= 768 /\ c <= 879) \/ c \in {8255, 8256}
\* api/src/term/bnode_id.rs: (PN_CHARS_U | [0-9]) (PN_CHARS | '.' PN_CHARS)*   - i.e. no two dots in a row, no trailing dot
IsBnodeLabel(s) == /\ Len(s) > 0 /\ (PnCharsU(s[1]) \/ DigitC(s[1]))
                   /\ \A i \in 2..Len(s) : PnChars(s[i]) \/ (s[i] = 46 /\ i < Len(s) /\ PnChars(s[i + 1]))
\* api/src/term/language_tag.rs: [A-Za-z][A-Za-z0-9]* (-[A-Za-z0-9]+)*
AlphaC(c) == (c >= 65 /\ c <= 90) \/ (c >= 97 /\ c <= 122)
IsLangTag(s) == /\ Len(s) > 0 /\ AlphaC(s[1]) /\ s[Len(s)] # 45
                /\ \A i \in 2..Len(s) : AlphaC(s[i]) \/ DigitC(s[i]) \/ (s[i] = 45 /\ s[i - 1] # 45)
\* api/src/term/var_name.rs (SPARQL VARNAME)
VarStart(c) == PnCharsU(c) \/ DigitC(c)
VarChar(c) == VarStart(c) \/ c = 183 \/ (c >= 768 /\ c <= 879) \/ c \in {8255, 8256}
IsVarName(s) == Len(s) > 0 /\ VarStart(s[1]) /\ \A i \in 2..Len(s) : VarChar(s[i])
ValidTerm(kind, strict, v) == CASE kind = "iri" -> IF strict THEN IsIri(v) ELSE IsIriRef(v)
                                [] kind = "bnode" -> IsBnodeLabel(v)
                                [] kind = "lang" -> IsLangTag(v)
                                [] kind = "var" -> IsVarName(v)
                                [] OTHER -> FALSE
====
