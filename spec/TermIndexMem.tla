---- MODULE TermIndexMem ----
\* Ownership model of SimpleTermIndex: t2i owns one heap cell per interned term (the key's
\* string data); i2t[i] is a pointer to a cell. Instances can be cloned, dropped, swapped.
EXTENDS Naturals, Sequences, FiniteSets, TLC
CONSTANTS Terms, Inst, MaxCells, CloneMode     \* CloneMode \in {"derived", "rebuild"}
VARIABLES cells,   \* cell id -> [owner, live, term]
          t2i,     \* instance -> (term -> cell id of its key)     (for live instances)
          i2t,     \* instance -> sequence of cell ids (pointers)
          alive,   \* set of live instances
          err      \* "" or a description of a memory error observed by a Read
vars == <<cells, t2i, i2t, alive, err>>
Cell == 1..MaxCells
Free == Cell \ DOMAIN cells
Init == cells = << >> /\ t2i = [x \in {} |-> << >>] /\ i2t = [x \in {} |-> <<>>] /\ alive = {} /\ err = ""
NewInst(x) == /\ x \notin alive /\ x \notin DOMAIN t2i
              /\ alive' = alive \cup {x}
              /\ t2i' = [y \in DOMAIN t2i \cup {x} |-> IF y = x THEN << >> ELSE t2i[y]]
              /\ i2t' = [y \in DOMAIN i2t \cup {x} |-> IF y = x THEN <<>> ELSE i2t[y]]
              /\ UNCHANGED <<cells, err>>
Ensure(x, t) == /\ x \in alive /\ t \notin DOMAIN t2i[x] /\ Free # {}
                /\ LET c == CHOOSE c \in Free : TRUE IN
                   /\ cells' = [d \in DOMAIN cells \cup {c} |-> IF d = c THEN [owner |-> x, live |-> TRUE, term |-> t] ELSE cells[d]]
                   /\ t2i' = [t2i EXCEPT ![x] = [u \in DOMAIN t2i[x] \cup {t} |-> IF u = t THEN c ELSE t2i[x][u]]]
                   /\ i2t' = [i2t EXCEPT ![x] = Append(i2t[x], c)]
                /\ UNCHANGED <<alive, err>>
\* allocate fresh cells for every key of x, owned by y
RECURSIVE Alloc(_, _, _, _)
Alloc(ts, free, y, acc) == IF ts = {} THEN acc
                           ELSE LET t == CHOOSE t \in ts : TRUE  c == CHOOSE c \in free : TRUE IN
                                Alloc(ts \ {t}, free \ {c}, y, [acc EXCEPT !.map = [u \in DOMAIN acc.map \cup {t} |-> IF u = t THEN c ELSE acc.map[u]],
                                                                         !.new = acc.new \cup {c}])
Clone(x, y) ==
  /\ x \in alive /\ y \notin alive /\ y \notin DOMAIN t2i
  /\ Cardinality(Free) >= Cardinality(DOMAIN t2i[x])
  /\ LET a == Alloc(DOMAIN t2i[x], Free, y, [map |-> << >>, new |-> {}])
         term2cell == a.map
     IN /\ cells' = [d \in DOMAIN cells \cup a.new |->
                       IF d \in a.new THEN [owner |-> y, live |-> TRUE, term |-> CHOOSE t \in DOMAIN term2cell : term2cell[t] = d]
                       ELSE cells[d]]
        /\ t2i' = [z \in DOMAIN t2i \cup {y} |-> IF z = y THEN term2cell ELSE t2i[z]]
        /\ i2t' = [z \in DOMAIN i2t \cup {y} |->
                     IF z = y THEN (IF CloneMode = "derived" THEN i2t[x]                          \* pointers copied verbatim
                                    ELSE [i \in 1..Len(i2t[x]) |-> term2cell[cells[i2t[x][i]].term]]) \* re-targeted
                     ELSE i2t[z]]
  /\ alive' = alive \cup {y} /\ UNCHANGED err
Drop(x) == /\ x \in alive /\ alive' = alive \ {x}
           /\ cells' = [d \in DOMAIN cells |-> IF cells[d].owner = x THEN [cells[d] EXCEPT !.live = FALSE] ELSE cells[d]]
           /\ UNCHANGED <<t2i, i2t, err>>
Read(x, i) == /\ x \in alive /\ i \in 1..Len(i2t[x]) /\ err = ""
              /\ err' = IF ~cells[i2t[x][i]].live THEN "use-after-free" ELSE ""
              /\ UNCHANGED <<cells, t2i, i2t, alive>>
\* std::mem::swap of two live instances: the VALUES change places; heap cells follow their owner
Swap(x, y) == /\ x \in alive /\ y \in alive /\ x # y
              /\ t2i' = [t2i EXCEPT ![x] = t2i[y], ![y] = t2i[x]]
              /\ i2t' = [i2t EXCEPT ![x] = i2t[y], ![y] = i2t[x]]
              /\ cells' = [d \in DOMAIN cells |-> IF cells[d].owner = x THEN [cells[d] EXCEPT !.owner = y]
                                                 ELSE IF cells[d].owner = y THEN [cells[d] EXCEPT !.owner = x] ELSE cells[d]]
              /\ UNCHANGED <<alive, err>>
\* moving an instance (into a Box, a Vec, by value) relocates the struct, never the heap cells its keys own:
\* a deliberate no-op of the model, named so that traces can carry it
Move(x) == x \in alive /\ UNCHANGED vars
Next == \/ \E x \in Inst : NewInst(x) \/ Drop(x) \/ Move(x)
        \/ \E x, y \in Inst : Swap(x, y)
        \/ \E x \in Inst, t \in Terms : Ensure(x, t)
        \/ \E x, y \in Inst : Clone(x, y)
        \/ \E x \in Inst, i \in 1..Cardinality(Terms) : Read(x, i)
Spec == Init /\ [][Next]_vars
\* abstract content of an instance: the terms it answers for
Content(x) == DOMAIN t2i[x]
NoUseAfterFree == err = ""
SelfContained == \A x \in alive : \A i \in 1..Len(i2t[x]) : cells[i2t[x][i]].owner = x
NoDangling == \A x \in alive : \A i \in 1..Len(i2t[x]) : cells[i2t[x][i]].live
Bijection == \A x \in alive : \A i \in 1..Len(i2t[x]) : t2i[x][cells[i2t[x][i]].term] \in DOMAIN cells
                /\ cells[t2i[x][cells[i2t[x][i]].term]].term = cells[i2t[x][i]].term
====
