---- MODULE Iso ----
\* Blank-node isomorphism of generalized RDF datasets (blank nodes may occur anywhere:
\* subject, predicate, object, graph name, and inside quoted triples).
EXTENDS Terms
DG == [k |-> "dg"]
RECURSIVE BnodesOfTerm(_)
BnodesOfTerm(t) == IF t.k = "bnode" THEN {t.v}
                   ELSE IF t.k = "triple" THEN BnodesOfTerm(t.s) \cup BnodesOfTerm(t.p) \cup BnodesOfTerm(t.o)
                   ELSE {}
BnodesOf(D) == UNION { UNION { BnodesOfTerm(q[j]) : j \in 1..4 } : q \in D }
RECURSIVE Ren(_, _)
Ren(t, f) == IF t.k = "bnode" THEN [k |-> "bnode", v |-> f[t.v]]
             ELSE IF t.k = "triple" THEN [k |-> "triple", s |-> Ren(t.s, f), p |-> Ren(t.p, f), o |-> Ren(t.o, f)]
             ELSE t
NormQ(q) == <<Norm(q[1]), Norm(q[2]), Norm(q[3]), Norm(q[4])>>
RenD(D, f) == { <<Ren(q[1], f), Ren(q[2], f), Ren(q[3], f), Ren(q[4], f)>> : q \in D }
RECURSIVE Bijections(_, _)
Bijections(A, B) == IF A = {} THEN { << >> }
                    ELSE LET a == CHOOSE a \in A : TRUE IN
                         UNION { { [x \in A |-> IF x = a THEN b ELSE g[x]] : g \in Bijections(A \ {a}, B \ {b}) } : b \in B }
\* signature of a blank node: the quads it occurs in, with itself marked and every other blank node blanked out.
\* A bijection can only map a node to a node with the same signature: this prunes the search without changing its result.
RECURSIVE MarkT(_, _)
MarkT(t, self) == IF t.k = "bnode" THEN [k |-> "bnode", v |-> IF t.v = self THEN <<1>> ELSE <<0>>]
                  ELSE IF t.k = "triple" THEN [k |-> "triple", s |-> MarkT(t.s, self), p |-> MarkT(t.p, self), o |-> MarkT(t.o, self)]
                  ELSE t
SigOf(D, b) == { <<MarkT(q[1], b), MarkT(q[2], b), MarkT(q[3], b), MarkT(q[4], b)>> :
                 q \in {x \in D : b \in BnodesOfTerm(x[1]) \cup BnodesOfTerm(x[2]) \cup BnodesOfTerm(x[3]) \cup BnodesOfTerm(x[4])} }
RECURSIVE BijSig(_, _, _, _)
BijSig(A, B, sa, sb) == IF A = {} THEN { << >> }
                        ELSE LET a == CHOOSE a \in A : TRUE IN
                             UNION { { [x \in A |-> IF x = a THEN b ELSE g[x]] : g \in BijSig(A \ {a}, B \ {b}, sa, sb) } : b \in {y \in B : sb[y] = sa[a]} }
IsoOf(N1, N2) ==
  LET B1 == BnodesOf(N1)  B2 == BnodesOf(N2) IN
  /\ Cardinality(N1) = Cardinality(N2) /\ Cardinality(B1) = Cardinality(B2)
  /\ LET sa == [b \in B1 |-> SigOf(N1, b)]  sb == [b \in B2 |-> SigOf(N2, b)] IN
     /\ {sa[b] : b \in B1} = {sb[b] : b \in B2}
     /\ \E f \in BijSig(B1, B2, sa, sb) : RenD(N1, f) = N2
Isomorphic(D1, D2) == IsoOf({NormQ(q) : q \in D1}, {NormQ(q) : q \in D2})
Blank == <<>>
Blanked(D) == LET one == [b \in BnodesOf(D) |-> Blank] IN
              \* as a bag: count per blanked quad
              LET N == {NormQ(q) : q \in D} IN [ x \in RenD(N, one) |-> Cardinality({q \in N : RenD({q}, one) = {x}}) ]
\* contract of isomorphic_graphs / isomorphic_datasets (C07)
MustBeTrue(D1, D2) == Isomorphic(D1, D2)
MustBeFalse(D1, D2) == LET N1 == {NormQ(q) : q \in D1}  N2 == {NormQ(q) : q \in D2} IN
   \/ Cardinality(N1) # Cardinality(N2)
   \/ Cardinality(BnodesOf(N1)) # Cardinality(BnodesOf(N2))
   \/ Blanked(D1) # Blanked(D2)
\* literal variant (language tags compared as written): what canonical N-Quads can distinguish (C05)
IsomorphicExact(D1, D2) == IsoOf(D1, D2)
====
