---- MODULE Streams ----
\* Sources, adapters and sinks of sophia_api::source, with one injected fault.
\* A pipeline is [src, k, chain, j]: src = sequence of item ids; k = position of the source
\* fault (0 = none; the k-th pull fails instead of yielding src[k]); chain = sequence of adapter
\* names; j = number of the delivery on which the sink fails (0 = never).
EXTENDS Integers, Sequences, FiniteSets, TLC
None == [none |-> TRUE]
Some(x) == [none |-> FALSE, v |-> x]
\* "mapi" / "fmapi" are map_items / filter_map_items driven through their IntoIterator form (same meaning);
\* "toq" / "tot" are the to_quads / to_triples converters (identity on the item id)
Apply1(a, x) == CASE a \in {"map", "mapi"}    -> Some(x + 10)
                  [] a = "filter" -> IF x % 2 = 0 THEN Some(x) ELSE None
                  [] a \in {"fmap", "fmapi"}   -> IF x % 3 = 0 THEN None ELSE Some(x * 2)
                  [] a \in {"toq", "tot", "toqt"} -> Some(x)
RECURSIVE ApplyChain(_, _, _)
ApplyChain(chain, i, ox) == IF i > Len(chain) \/ ox.none THEN ox ELSE ApplyChain(chain, i + 1, Apply1(chain[i], ox.v))
\* state machine: one step = one try_for_some_item
VARIABLES Src, K, Chain, J,          \* the pipeline, chosen in Init, then constant
          pos, delivered, steps, result
vars == <<Src, K, Chain, J, pos, delivered, steps, result>>
Adapters == {"map", "filter", "fmap"}
SeqsUpTo(S, n) == UNION { [1..m -> S] : m \in 0..n }
CONSTANTS MaxLen, MaxDepth
Init == /\ Src \in SeqsUpTo(1..4, MaxLen) /\ K \in 0..(Len(Src) + 1) /\ Chain \in SeqsUpTo(Adapters, MaxDepth) /\ J \in 0..MaxLen
        /\ pos = 0 /\ delivered = <<>> /\ steps = <<>> /\ result = "running"
Step ==
  /\ result = "running"
  /\ IF pos >= Len(Src) /\ ~(K = Len(Src) + 1)
     THEN /\ result' = "ok" /\ steps' = Append(steps, FALSE) /\ UNCHANGED <<pos, delivered>>
     ELSE /\ pos' = pos + 1
          /\ IF K = pos + 1
             THEN result' = "source" /\ UNCHANGED <<delivered, steps>>
             ELSE LET y == ApplyChain(Chain, 1, Some(Src[pos + 1])) IN
                  IF y.none THEN UNCHANGED <<delivered, result>> /\ steps' = Append(steps, TRUE)
                  ELSE /\ delivered' = Append(delivered, y.v)
                       /\ IF J = Len(delivered) + 1 THEN result' = "sink" /\ UNCHANGED steps
                          ELSE UNCHANGED result /\ steps' = Append(steps, TRUE)
Next == Step /\ UNCHANGED <<Src, K, Chain, J>>
Spec == Init /\ [][Next]_vars
\* properties (checked by TLC over all small pipelines in MC_Streams)
RECURSIVE Filtered(_, _, _)
Filtered(src, n, chain) == IF n = 0 THEN <<>>
                           ELSE LET y == ApplyChain(chain, 1, Some(src[n])) IN
                                Filtered(src, n - 1, chain) \o (IF y.none THEN <<>> ELSE <<y.v>>)
IsPrefix(a, b) == Len(a) <= Len(b) /\ SubSeq(b, 1, Len(a)) = a
PrefixInv == IsPrefix(delivered, Filtered(Src, IF K = 0 THEN Len(Src) ELSE K - 1, Chain))
StopInv == /\ (result = "sink" => Len(delivered) = J)
           /\ (J # 0 => Len(delivered) <= J)
           /\ (result = "source" => pos = K)
           /\ (result = "ok" => K = 0 /\ delivered = Filtered(Src, Len(Src), Chain))
\* closed form used by the trace spec
RECURSIVE Run(_, _, _, _, _)
Run(pl, p, d, st, r) == IF r # "running" THEN [delivered |-> d, steps |-> st, result |-> r, pos |-> p]
  ELSE IF p >= Len(pl.src) /\ ~(pl.k = Len(pl.src) + 1) THEN Run(pl, p, d, Append(st, FALSE), "ok")
  ELSE IF pl.k = p + 1 THEN Run(pl, p + 1, d, st, "source")
  ELSE LET y == ApplyChain(pl.chain, 1, Some(pl.src[p + 1])) IN
       IF y.none THEN Run(pl, p + 1, d, Append(st, TRUE), r)
       ELSE IF pl.j = Len(d) + 1 THEN Run(pl, p + 1, Append(d, y.v), st, "sink")
       ELSE Run(pl, p + 1, Append(d, y.v), Append(st, TRUE), r)
\* the state machine and the closed form agree (checked in MC): at the end of a behaviour
AgreeInv == result # "running" =>
   LET r == Run([src |-> Src, k |-> K, chain |-> Chain, j |-> J], 0, <<>>, <<>>, "running") IN
   r.delivered = delivered /\ r.steps = steps /\ r.result = result /\ r.pos = pos
\* a store sink with a term index of limited capacity fails on the delivery that needs one term too many:
\* every distinct item value costs one new term; `room` values fit
RECURSIVE StoreJFrom(_, _, _, _)
StoreJFrom(d, i, seen, room) == IF i > Len(d) THEN 0
                                ELSE IF d[i] \notin seen /\ Cardinality(seen) >= room THEN i
                                ELSE StoreJFrom(d, i + 1, seen \cup {d[i]}, room)
StoreJ(pl, room) == StoreJFrom(Filtered(pl.src, IF pl.k = 0 THEN Len(pl.src) ELSE pl.k - 1, pl.chain), 1, {}, room)
====
