---- MODULE Xsd ----
\* Lexical grammars and exact value comparison for XSD numerics (integer, decimal, double/float
\* in decimal or scientific notation), without converting to machine numbers.
EXTENDS Integers, Sequences, FiniteSets, TLC
Digit(c) == c >= 48 /\ c <= 57
AllDigits(s) == \A i \in 1..Len(s) : Digit(s[i])
Sub(s, a, b) == IF a > b THEN <<>> ELSE SubSeq(s, a, b)
Idx(s, P(_)) == IF \E i \in 1..Len(s) : P(s[i]) THEN CHOOSE i \in 1..Len(s) : P(s[i]) /\ \A j \in 1..(i - 1) : ~P(s[j]) ELSE 0
\* lexical grammars
Unsigned(s) == IF Len(s) > 0 /\ s[1] \in {43, 45} THEN Sub(s, 2, Len(s)) ELSE s
IsInteger(s) == LET u == Unsigned(s) IN Len(u) > 0 /\ AllDigits(u)
IsDecimal(s) == LET u == Unsigned(s)  d == Idx(u, LAMBDA c : c = 46) IN
   IF d = 0 THEN Len(u) > 0 /\ AllDigits(u)
   ELSE AllDigits(Sub(u, 1, d - 1)) /\ AllDigits(Sub(u, d + 1, Len(u))) /\ Len(u) > 1
INF == <<73, 78, 70>>
NaN == <<78, 97, 78>>
IsDouble(s) == \/ s \in {INF, <<43>> \o INF, <<45>> \o INF, NaN}
               \/ LET e == Idx(s, LAMBDA c : c = 69 \/ c = 101) IN
                  IF e = 0 THEN IsDecimal(s) ELSE IsDecimal(Sub(s, 1, e - 1)) /\ IsInteger(Sub(s, e + 1, Len(s)))
IsBoolean(s) == s \in {<<116,114,117,101>>, <<102,97,108,115,101>>, <<49>>, <<48>>}
\* Turtle shorthand tokens (what may be written bare)
TurtleInteger(s) == IsInteger(s)
TurtleDecimal(s) == LET u == Unsigned(s)  d == Idx(u, LAMBDA c : c = 46) IN d > 0 /\ AllDigits(Sub(u, 1, d - 1)) /\ d < Len(u) /\ AllDigits(Sub(u, d + 1, Len(u)))
TurtleDouble(s) == LET e == Idx(s, LAMBDA c : c = 69 \/ c = 101) IN
   e > 0 /\ IsInteger(Sub(s, e + 1, Len(s))) /\
   LET m == Unsigned(Sub(s, 1, e - 1))  d == Idx(m, LAMBDA c : c = 46) IN
   IF d = 0 THEN Len(m) > 0 /\ AllDigits(m)
   ELSE AllDigits(Sub(m, 1, d - 1)) /\ AllDigits(Sub(m, d + 1, Len(m))) /\ Len(m) > 1
\* exact value: [neg, ds, e] meaning (-1)^neg * 0.ds * 10^e with ds having no leading and no trailing zero (ds = <<>> is zero)
RECURSIVE NatOf(_, _, _)
NatOf(s, i, acc) == IF i > Len(s) THEN acc ELSE NatOf(s, i + 1, acc * 10 + (s[i] - 48))
IntOf(s) == IF Len(s) > 0 /\ s[1] = 45 THEN 0 - NatOf(Unsigned(s), 1, 0) ELSE NatOf(Unsigned(s), 1, 0)
LeadZeros(ds) == IF \A i \in 1..Len(ds) : ds[i] = 48 THEN Len(ds) ELSE (CHOOSE i \in 1..Len(ds) : ds[i] # 48 /\ \A j \in 1..(i - 1) : ds[j] = 48) - 1
TrailZeros(ds) == IF \A i \in 1..Len(ds) : ds[i] = 48 THEN Len(ds) ELSE Len(ds) - (CHOOSE i \in 1..Len(ds) : ds[i] # 48 /\ \A j \in (i + 1)..Len(ds) : ds[j] = 48)
Value(s) ==     \* s satisfies IsDouble and is not INF/NaN (covers integer and decimal forms too)
  LET e == Idx(s, LAMBDA c : c = 69 \/ c = 101)
      mant == IF e = 0 THEN s ELSE Sub(s, 1, e - 1)
      ex == IF e = 0 THEN 0 ELSE IntOf(Sub(s, e + 1, Len(s)))
      neg == Len(mant) > 0 /\ mant[1] = 45
      u == Unsigned(mant)
      d == Idx(u, LAMBDA c : c = 46)
      ip == IF d = 0 THEN u ELSE Sub(u, 1, d - 1)
      fp == IF d = 0 THEN <<>> ELSE Sub(u, d + 1, Len(u))
      all == ip \o fp
      lz == LeadZeros(all)
      tz == TrailZeros(all)
  IN IF lz = Len(all) THEN [neg |-> FALSE, ds |-> <<>>, e |-> 0]
     ELSE [neg |-> neg, ds |-> Sub(all, lz + 1, Len(all) - tz), e |-> Len(ip) - lz + ex]
RECURSIVE DigLess(_, _, _)
DigLess(a, b, i) == IF i > Len(a) THEN i <= Len(b) ELSE IF i > Len(b) THEN FALSE
                    ELSE IF a[i] < b[i] THEN TRUE ELSE IF a[i] > b[i] THEN FALSE ELSE DigLess(a, b, i + 1)
MagLess(x, y) == IF x.ds = <<>> THEN y.ds # <<>> ELSE IF y.ds = <<>> THEN FALSE
                 ELSE IF x.e # y.e THEN x.e < y.e ELSE DigLess(x.ds, y.ds, 1)
ValLess(x, y) == IF x.neg /\ ~y.neg THEN TRUE ELSE IF ~x.neg /\ y.neg THEN FALSE
                 ELSE IF x.neg THEN MagLess(y, x) ELSE MagLess(x, y)
NumLess(a, b) == ValLess(Value(a), Value(b))
NumEq(a, b) == Value(a) = Value(b)
====
