---- MODULE Xsd ----
\* Lexical grammars and exact value comparison for XSD numerics (integer, decimal, double/float
\* in decimal or scientific notation), without converting to machine numbers.
EXTENDS Integers, Sequences, FiniteSets, TLC
Digit(c) == c >= 48 /\ c <= 57
AllDigits(s) == \A i \in 1..Len(s) : Digit(s[i])
Sub(s, a, b) == IF a > b THEN <<>> ELSE SubSeq(s, a, b)
Idx(s, P(_)) == IF \E i \in 1..Len(s) : P(s[i]) THEN CHOOSE i \in 1..Len(s) : P(s[i]) /\ \A j \in 1..(i - 1) : ~P(s[j]) ELSE 0
\* lexical grammars
Unsigned(s) == IF Len(s) > 0 /\ s[1] \in {43, 45} THEN Sub(s, 2, Len(s)) ELSE s
IsInteger(s) == LET u == Unsigned(s) IN Len(u) > 0 /\ AllDigits(u)
IsDecimal(s) == LET u == Unsigned(s)  d == Idx(u, LAMBDA c : c = 46) IN
   IF d = 0 THEN Len(u) > 0 /\ AllDigits(u)
   ELSE AllDigits(Sub(u, 1, d - 1)) /\ AllDigits(Sub(u, d + 1, Len(u))) /\ Len(u) > 1
INF == <<73, 78, 70>>
NaN == <<78, 97, 78>>
IsDouble(s) == \/ s \in {INF, <<43>> \o INF, <<45>> \o INF, NaN}
               \/ LET e == Idx(s, LAMBDA c : c = 69 \/ c = 101) IN
                  IF e = 0 THEN IsDecimal(s) ELSE IsDecimal(Sub(s, 1, e - 1)) /\ IsInteger(Sub(s, e + 1, Len(s)))
IsBoolean(s) == s \in {<<116,114,117,101>>, <<102,97,108,115,101>>, <<49>>, <<48>>}
\* Turtle shorthand tokens (what may be written bare)
TurtleInteger(s) == IsInteger(s)
TurtleDecimal(s) == LET u == Unsigned(s)  d == Idx(u, LAMBDA c : c = 46) IN d > 0 /\ AllDigits(Sub(u, 1, d - 1)) /\ d < Len(u) /\ AllDigits(Sub(u, d + 1, Len(u)))
TurtleDouble(s) == LET e == Idx(s, LAMBDA c : c = 69 \/ c = 101) IN
   e > 0 /\ IsInteger(Sub(s, e + 1, Len(s))) /\
   LET m == Unsigned(Sub(s, 1, e - 1))  d == Idx(m, LAMBDA c : c = 46) IN
   IF d = 0 THEN Len(m) > 0 /\ AllDigits(m)
   ELSE AllDigits(Sub(m, 1, d - 1)) /\ AllDigits(Sub(m, d + 1, Len(m))) /\ Len(m) > 1
\* exact value: [neg, ds, e] meaning (-1)^neg * 0.ds * 10^e with ds having no leading and no trailing zero (ds = <<>> is zero)
RECURSIVE NatOf(_, _, _)
NatOf(s, i, acc) == IF i > Len(s) THEN acc ELSE NatOf(s, i + 1, acc * 10 + (s[i] - 48))
IntOf(s) == IF Len(s) > 0 /\ s[1] = 45 THEN 0 - NatOf(Unsigned(s), 1, 0) ELSE NatOf(Unsigned(s), 1, 0)
LeadZeros(ds) == IF \A i \in 1..Len(ds) : ds[i] = 48 THEN Len(ds) ELSE (CHOOSE i \in 1..Len(ds) : ds[i] # 48 /\ \A j \in 1..(i - 1) : ds[j] = 48) - 1
TrailZeros(ds) == IF \A i \in 1..Len(ds) : ds[i] = 48 THEN Len(ds) ELSE Len(ds) - (CHOOSE i \in 1..Len(ds) : ds[i] # 48 /\ \A j \in (i + 1)..Len(ds) : ds[j] = 48)
Value(s) ==     \* s satisfies IsDouble and is not INF/NaN (covers integer and decimal forms too)
  LET e == Idx(s, LAMBDA c : c = 69 \/ c = 101)
      mant == IF e = 0 THEN s ELSE Sub(s, 1, e - 1)
      ex == IF e = 0 THEN 0 ELSE IntOf(Sub(s, e + 1, Len(s)))
      neg == Len(mant) > 0 /\ mant[1] = 45
      u == Unsigned(mant)
      d == Idx(u, LAMBDA c : c = 46)
      ip == IF d = 0 THEN u ELSE Sub(u, 1, d - 1)
      fp == IF d = 0 THEN <<>> ELSE Sub(u, d + 1, Len(u))
      all == ip \o fp
      lz == LeadZeros(all)
      tz == TrailZeros(all)
  IN IF lz = Len(all) THEN [neg |-> FALSE, ds |-> <<>>, e |-> 0]
     ELSE [neg |-> neg, ds |-> Sub(all, lz + 1, Len(all) - tz), e |-> Len(ip) - lz + ex]
RECURSIVE DigLess(_, _, _)
DigLess(a, b, i) == IF i > Len(a) THEN i <= Len(b) ELSE IF i > Len(b) THEN FALSE
                    ELSE IF a[i] < b[i] THEN TRUE ELSE IF a[i] > b[i] THEN FALSE ELSE DigLess(a, b, i + 1)
MagLess(x, y) == IF x.ds = <<>> THEN y.ds # <<>> ELSE IF y.ds = <<>> THEN FALSE
                 ELSE IF x.e # y.e THEN x.e < y.e ELSE DigLess(x.ds, y.ds, 1)
ValLess(x, y) == IF x.neg /\ ~y.neg THEN TRUE ELSE IF ~x.neg /\ y.neg THEN FALSE
                 ELSE IF x.neg THEN MagLess(y, x) ELSE MagLess(x, y)
NumLess(a, b) == ValLess(Value(a), Value(b))
NumEq(a, b) == Value(a) = Value(b)
\* ---- xsd:dateTime ----
\* dateTimes of the form YYYY-MM-DDThh:mm:ss followed by nothing (no timezone), Z or +hh:mm / -hh:mm, years 1940..2060 (seconds since
\* 2000-01-01 fit TLC's integers), real calendar days, hh < 24, mm < 60, ss < 60; fractions, 24:00:00 and other years are not modelled
\* (no constraint on them).  Order relation of XML Schema part 2, 3.2.7.4: two timezoned values compare by instant, two values
\* without timezone by their local time, and a timezoned P with a timezone-less Q are ordered only when more than 14 hours apart:
\* P < Q iff P < Q+14:00, Q < P iff Q-14:00 < P.  (XPath's op:dateTime-less-than gives Q an implicit timezone within +-14:00:
\* whatever it is, it agrees with this order where this order is determinate.)
N2(s, i) == (s[i] - 48) * 10 + (s[i + 1] - 48)
N4(s, i) == N2(s, i) * 100 + N2(s, i + 2)
Leap(y) == (y % 4 = 0 /\ y % 100 # 0) \/ y % 400 = 0
DaysIn(y, m) == IF m = 2 THEN (IF Leap(y) THEN 29 ELSE 28) ELSE IF m \in {4, 6, 9, 11} THEN 30 ELSE 31
DtShape(x) == /\ Len(x) \in {19, 20, 25}
              /\ \A i \in {1,2,3,4,6,7,9,10,12,13,15,16,18,19} : Digit(x[i])
              /\ x[5] = 45 /\ x[8] = 45 /\ x[11] = 84 /\ x[14] = 58 /\ x[17] = 58
              /\ (Len(x) = 20 => x[20] = 90)
              /\ (Len(x) = 25 => x[20] \in {43, 45} /\ Digit(x[21]) /\ Digit(x[22]) /\ x[23] = 58 /\ Digit(x[24]) /\ Digit(x[25]))
IsDateTimeLex(x) == DtShape(x) /\
   (                 /\ N4(x, 1) >= 1940 /\ N4(x, 1) <= 2060 /\ N2(x, 6) >= 1 /\ N2(x, 6) <= 12
                     /\ N2(x, 9) >= 1 /\ N2(x, 9) <= DaysIn(N4(x, 1), N2(x, 6))
                     /\ N2(x, 12) <= 23 /\ N2(x, 15) <= 59 /\ N2(x, 18) <= 59
                     /\ (Len(x) = 25 => N2(x, 21) <= 14 /\ N2(x, 24) <= 59 /\ (N2(x, 21) = 14 => N2(x, 24) = 0)))
DtHasTz(x) == Len(x) > 19
\* days since 2000-03-01 of the civil date (y, m, d), by the usual era-free formula for years after 1600
DayNo(y, m, d) == LET yy == IF m <= 2 THEN y - 1 ELSE y   mm == IF m <= 2 THEN m + 9 ELSE m - 3
                  IN yy * 365 + yy \div 4 - yy \div 100 + yy \div 400 + (153 * mm + 2) \div 5 + d - 730486
\* seconds from 2000-03-01T00:00:00 of the instant (timezoned) or of the local time (no timezone)
DtSecs(x) == LET off == IF Len(x) = 25 THEN (IF x[20] = 45 THEN -1 ELSE 1) * (N2(x, 21) * 3600 + N2(x, 24) * 60) ELSE 0
           IN DayNo(N4(x, 1), N2(x, 6), N2(x, 9)) * 86400 + N2(x, 12) * 3600 + N2(x, 15) * 60 + N2(x, 18) - off
DtLess(a, b) == IF DtHasTz(a) = DtHasTz(b) THEN DtSecs(a) < DtSecs(b)
                ELSE IF DtHasTz(a) THEN DtSecs(a) < DtSecs(b) - 50400        \* P < Q + 14:00
                ELSE DtSecs(a) + 50400 < DtSecs(b)                           \* Q - 14:00 < P
\* the two values are ordered or equal (not so: one has a timezone, the other not, and they are within 14 hours of each other)
DtComparable(a, b) == DtHasTz(a) = DtHasTz(b) \/ DtLess(a, b) \/ DtLess(b, a)
DtEqual(a, b) == DtHasTz(a) = DtHasTz(b) /\ DtSecs(a) = DtSecs(b)
====
