---- MODULE Iri ----
\* RFC 3987 IRI / IRI-reference recogniser and RFC 3986 section 5.2 resolution,
\* over sequences of Unicode code points.
EXTENDS Naturals, Sequences

Sub(s, a, b) == IF a > b THEN <<>> ELSE SubSeq(s, a, b)   \* inclusive, empty if a > b
From(s, a) == Sub(s, a, Len(s))

\* first index >= i of code point c in s, or 0
RECURSIVE IndexFrom(_, _, _)
IndexFrom(s, c, i) == IF i > Len(s) THEN 0 ELSE IF s[i] = c THEN i ELSE IndexFrom(s, c, i + 1)
Index(s, c) == IndexFrom(s, c, 1)
RECURSIVE LastIndexTo(_, _, _)
LastIndexTo(s, c, i) == IF i < 1 THEN 0 ELSE IF s[i] = c THEN i ELSE LastIndexTo(s, c, i - 1)
LastIndex(s, c) == LastIndexTo(s, c, Len(s))

Alpha(c) == (c >= 65 /\ c <= 90) \/ (c >= 97 /\ c <= 122)
Digit(c) == c >= 48 /\ c <= 57
HexDig(c) == Digit(c) \/ (c >= 65 /\ c <= 70) \/ (c >= 97 /\ c <= 102)
In(c, lo, hi) == c >= lo /\ c <= hi
UcsChar(c) ==
  \/ In(c, 160, 55295) \/ In(c, 63744, 64975) \/ In(c, 65008, 65519)
  \/ \E k \in 1..13 : In(c, k * 65536, k * 65536 + 65533)          \* 10000-1FFFD .. D0000-DFFFD
  \/ In(c, 921600, 983037)                                          \* E1000-EFFFD
IPrivate(c) == In(c, 57344, 63743) \/ In(c, 983040, 1048573) \/ In(c, 1048576, 1114109)
Unreserved(c) == Alpha(c) \/ Digit(c) \/ c \in {45, 46, 95, 126}    \* - . _ ~
IUnreserved(c) == Unreserved(c) \/ UcsChar(c)
SubDelim(c) == c \in {33, 36, 38, 39, 40, 41, 42, 43, 44, 59, 61}   \* ! $ & ' ( ) * + , ; =

\* every position is either an allowed single char or the start/inside of a valid %HH
\* hex digits are allowed characters in every class below, so a position-wise test suffices
AllChars(s, i0, Ok(_)) ==
  \A i \in i0..Len(s) :
     IF s[i] = 37 THEN i + 2 <= Len(s) /\ HexDig(s[i+1]) /\ HexDig(s[i+2]) ELSE Ok(s[i])

IpChar(c) == IUnreserved(c) \/ SubDelim(c) \/ c = 58 \/ c = 64
PathChars(s)  == AllChars(s, 1, LAMBDA c : IpChar(c) \/ c = 47)
QueryChars(s) == AllChars(s, 1, LAMBDA c : IpChar(c) \/ IPrivate(c) \/ c = 47 \/ c = 63)
FragChars(s)  == AllChars(s, 1, LAMBDA c : IpChar(c) \/ c = 47 \/ c = 63)
UserInfo(s)   == AllChars(s, 1, LAMBDA c : IUnreserved(c) \/ SubDelim(c) \/ c = 58)
RegName(s)    == AllChars(s, 1, LAMBDA c : IUnreserved(c) \/ SubDelim(c))
AllSat(s, i0, P(_)) == \A i \in i0..Len(s) : P(s[i])
Digits(s) == AllSat(s, 1, Digit)

Scheme(s) == Len(s) >= 1 /\ Alpha(s[1]) /\ AllSat(s, 2, LAMBDA c : Alpha(c) \/ Digit(c) \/ c \in {43, 45, 46})

\* split on a separator code point into a sequence of pieces
RECURSIVE Split(_, _)
Split(s, c) == LET i == Index(s, c) IN
               IF i = 0 THEN << s >> ELSE << Sub(s, 1, i - 1) >> \o Split(From(s, i + 1), c)

DecOctet(s) ==
  /\ Digits(s)
  /\ \/ Len(s) = 1
     \/ Len(s) = 2 /\ s[1] # 48
     \/ Len(s) = 3 /\ s[1] = 49
     \/ Len(s) = 3 /\ s[1] = 50 /\ In(s[2], 48, 52)
     \/ Len(s) = 3 /\ s[1] = 50 /\ s[2] = 53 /\ In(s[3], 48, 53)
IPv4(s) == LET p == Split(s, 46) IN Len(p) = 4 /\ \A i \in 1..4 : DecOctet(p[i])
H16(s) == Len(s) >= 1 /\ Len(s) <= 4 /\ AllSat(s, 1, HexDig)

\* index of "::" in s, or 0
RECURSIVE DColonFrom(_, _)
DColonFrom(s, i) == IF i + 1 > Len(s) THEN 0 ELSE IF s[i] = 58 /\ s[i+1] = 58 THEN i ELSE DColonFrom(s, i + 1)

\* groups: sequence of pieces; all h16, except that the last may be an IPv4 (counting 2) when allowV4
GroupsOk(p, allowV4) ==
  \A i \in 1..Len(p) : H16(p[i]) \/ (allowV4 /\ i = Len(p) /\ IPv4(p[i]))
Weight(p, allowV4) == IF Len(p) > 0 /\ allowV4 /\ IPv4(p[Len(p)]) /\ ~H16(p[Len(p)]) THEN Len(p) + 1 ELSE Len(p)

IPv6(s) ==
  LET d == DColonFrom(s, 1) IN
  IF d = 0 THEN LET p == Split(s, 58) IN GroupsOk(p, TRUE) /\ Weight(p, TRUE) = 8
  ELSE LET l == Sub(s, 1, d - 1)
           r == From(s, d + 2)
           lp == IF l = <<>> THEN <<>> ELSE Split(l, 58)
           rp == IF r = <<>> THEN <<>> ELSE Split(r, 58)
       IN /\ GroupsOk(lp, FALSE) /\ GroupsOk(rp, TRUE)
          /\ Len(lp) + Weight(rp, TRUE) <= 7
IPvFuture(s) ==
  LET dot == Index(s, 46) IN
  /\ Len(s) >= 4 /\ s[1] \in {118, 86} /\ dot >= 3      \* "v" is an ABNF literal: case-insensitive (RFC 5234)
  /\ AllSat(Sub(s, 2, dot - 1), 1, HexDig)
  /\ dot < Len(s)
  /\ AllSat(From(s, dot + 1), 1, LAMBDA c : Unreserved(c) \/ SubDelim(c) \/ c = 58)

HostPort(s) ==
  IF Len(s) >= 1 /\ s[1] = 91
  THEN LET cl == Index(s, 93) IN
       /\ cl > 0
       /\ (IPv6(Sub(s, 2, cl - 1)) \/ IPvFuture(Sub(s, 2, cl - 1)))
       /\ (cl = Len(s) \/ (s[cl + 1] = 58 /\ Digits(From(s, cl + 2))))
  ELSE LET c == Index(s, 58) IN
       IF c = 0 THEN RegName(s) ELSE RegName(Sub(s, 1, c - 1)) /\ Digits(From(s, c + 1))
Authority(s) ==
  LET at == Index(s, 64) IN
  IF at = 0 THEN HostPort(s) ELSE UserInfo(Sub(s, 1, at - 1)) /\ HostPort(From(s, at + 1))

StartsWith2(s, a, b) == Len(s) >= 2 /\ s[1] = a /\ s[2] = b

\* hier-part / relative-part without query and fragment; noscheme = TRUE for irelative-part
HierPart(h, noscheme) ==
  IF StartsWith2(h, 47, 47)
  THEN LET rest == From(h, 3)
           sl == Index(rest, 47)
           auth == IF sl = 0 THEN rest ELSE Sub(rest, 1, sl - 1)
           path == IF sl = 0 THEN <<>> ELSE From(rest, sl)
       IN Authority(auth) /\ PathChars(path)
  ELSE /\ PathChars(h)
       /\ (noscheme /\ h # <<>> /\ h[1] # 47) =>
            LET sl == Index(h, 47)
                seg1 == IF sl = 0 THEN h ELSE Sub(h, 1, sl - 1)
            IN Index(seg1, 58) = 0

\* split off fragment and query
FragIdx(s) == Index(s, 35)
NoFrag(s) == IF FragIdx(s) = 0 THEN s ELSE Sub(s, 1, FragIdx(s) - 1)
Frag(s) == IF FragIdx(s) = 0 THEN <<>> ELSE From(s, FragIdx(s) + 1)
QIdx(s) == Index(NoFrag(s), 63)
NoQuery(s) == IF QIdx(s) = 0 THEN NoFrag(s) ELSE Sub(s, 1, QIdx(s) - 1)
Query(s) == IF QIdx(s) = 0 THEN <<>> ELSE Sub(NoFrag(s), QIdx(s) + 1, Len(NoFrag(s)))
TailOk(s) == QueryChars(Query(s)) /\ FragChars(Frag(s))

IsIri(s) ==
  LET hq == NoQuery(s)
      c == Index(hq, 58)
  IN /\ c > 1
     /\ Scheme(Sub(hq, 1, c - 1))
     /\ HierPart(From(hq, c + 1), FALSE)
     /\ TailOk(s)
IsRelRef(s) == HierPart(NoQuery(s), TRUE) /\ TailOk(s)
IsIriRef(s) == IsIri(s) \/ IsRelRef(s)

\* ---------------- RFC 3986 5.2 ----------------
\* components: [scheme, hasAuth, auth, path, hasQ, query, hasF, frag]
Parse(s) ==
  LET hq == NoQuery(s)
      c == Index(hq, 58)
      hasScheme == c > 1 /\ Scheme(Sub(hq, 1, c - 1))
      h == IF hasScheme THEN From(hq, c + 1) ELSE hq
      hasAuth == StartsWith2(h, 47, 47)
      rest == IF hasAuth THEN From(h, 3) ELSE h
      sl == Index(rest, 47)
  IN [ hasScheme |-> hasScheme,
       scheme |-> IF hasScheme THEN Sub(hq, 1, c - 1) ELSE <<>>,
       hasAuth |-> hasAuth,
       auth |-> IF hasAuth THEN (IF sl = 0 THEN rest ELSE Sub(rest, 1, sl - 1)) ELSE <<>>,
       path |-> IF hasAuth THEN (IF sl = 0 THEN <<>> ELSE From(rest, sl)) ELSE rest,
       hasQ |-> QIdx(s) # 0, query |-> Query(s),
       hasF |-> FragIdx(s) # 0, frag |-> Frag(s) ]

StartsWith(s, p) == Len(s) >= Len(p) /\ Sub(s, 1, Len(p)) = p
DropLastSeg(out) == LET i == LastIndex(out, 47) IN IF i = 0 THEN <<>> ELSE Sub(out, 1, i - 1)
RECURSIVE RDS(_, _)
RDS(in, out) ==
  IF in = <<>> THEN out
  ELSE IF StartsWith(in, <<46,46,47>>) THEN RDS(From(in, 4), out)                       \* 2A "../"
  ELSE IF StartsWith(in, <<46,47>>) THEN RDS(From(in, 3), out)                          \* 2A "./"
  ELSE IF StartsWith(in, <<47,46,47>>) THEN RDS(From(in, 3), out)                       \* 2B "/./"
  ELSE IF in = <<47,46>> THEN RDS(<<47>>, out)                                          \* 2B "/."
  ELSE IF StartsWith(in, <<47,46,46,47>>) THEN RDS(From(in, 4), DropLastSeg(out))       \* 2C "/../"
  ELSE IF in = <<47,46,46>> THEN RDS(<<47>>, DropLastSeg(out))                          \* 2C "/.."
  ELSE IF in = <<46>> \/ in = <<46,46>> THEN RDS(<<>>, out)                             \* 2D
  ELSE LET start == IF in[1] = 47 THEN 2 ELSE 1                                         \* 2E
           nx == IndexFrom(in, 47, start)
           seg == IF nx = 0 THEN in ELSE Sub(in, 1, nx - 1)
       IN RDS(IF nx = 0 THEN <<>> ELSE From(in, nx), out \o seg)
RemoveDots(p) == RDS(p, <<>>)
Merge(b, rpath) ==
  IF b.hasAuth /\ b.path = <<>> THEN <<47>> \o rpath
  ELSE LET i == LastIndex(b.path, 47) IN Sub(b.path, 1, i) \o rpath
Recompose(t) ==
  (IF t.hasScheme THEN t.scheme \o <<58>> ELSE <<>>)
  \o (IF t.hasAuth THEN <<47,47>> \o t.auth ELSE <<>>)
  \o t.path
  \o (IF t.hasQ THEN <<63>> \o t.query ELSE <<>>)
  \o (IF t.hasF THEN <<35>> \o t.frag ELSE <<>>)
Resolve(base, ref) ==
  LET b == Parse(base)  r == Parse(ref) IN
  Recompose(
    IF r.hasScheme THEN [r EXCEPT !.path = RemoveDots(r.path)]
    ELSE IF r.hasAuth THEN [r EXCEPT !.hasScheme = b.hasScheme, !.scheme = b.scheme, !.path = RemoveDots(r.path)]
    ELSE IF r.path = <<>> THEN
      [ b EXCEPT !.hasQ = IF r.hasQ THEN TRUE ELSE b.hasQ, !.query = IF r.hasQ THEN r.query ELSE b.query,
                 !.hasF = r.hasF, !.frag = r.frag ]
    ELSE [ b EXCEPT !.path = IF r.path[1] = 47 THEN RemoveDots(r.path) ELSE RemoveDots(Merge(b, r.path)),
                    !.hasQ = r.hasQ, !.query = r.query, !.hasF = r.hasF, !.frag = r.frag ])
\* ---------------- the resolver AS SHIPPED (third-party oxiri 0.2): a named, deliberate deviation ----------------
\* Transcribed so that where the library is known to differ from RFC 3986 5.2 the trace specification can tell
\* "the known third-party behaviour" (KNOWN-FINDING) from any other wrong answer (VIOLATION).
\* It removes dot segments only while copying the REFERENCE's path, never from the base's own path or from a
\* reference that carries a scheme or an authority, pops literal segments, and refuses a result whose path would
\* start with "//" without an authority.
EndsWith(s, suf) == Len(s) >= Len(suf) /\ Sub(s, Len(s) - Len(suf) + 1, Len(s)) = suf
Trunc(s, n) == Sub(s, 1, Len(s) - n)
\* out = whole output so far; A = length of the part before the path (scheme ":" ["//" authority])
LibRemoveLast(out, A, hasAuth) ==
  LET path == From(out, A + 1)  i == LastIndex(path, 47) IN
  IF i > 0 THEN Sub(out, 1, A + i - 1) \o <<47>>
  ELSE Sub(out, 1, A) \o (IF hasAuth THEN <<47>> ELSE <<>>)
\* one path terminator (c = 47 for "/", 0 for the end of the path): returns [out, cont] ; cont = the "/" was consumed as a plain separator
LibTerminator(out, A, hasAuth, c) ==
  LET path == From(out, A + 1) IN
  IF EndsWith(path, <<47, 46, 46>>) THEN [out |-> LibRemoveLast(Trunc(out, 3), A, hasAuth), plain |-> FALSE]
  ELSE IF EndsWith(path, <<47, 46>>) \/ path = <<46>> THEN [out |-> Trunc(out, 1), plain |-> FALSE]
  ELSE IF path = <<46, 46>> THEN [out |-> Trunc(out, 2), plain |-> FALSE]
  ELSE IF c = 47 THEN [out |-> out \o <<47>>, plain |-> TRUE]
  ELSE [out |-> out, plain |-> FALSE]
RECURSIVE LibPath(_, _, _, _, _)
\* copies the reference path `in` from index i onto out; result [err, out]
LibPath(in, i, out, A, hasAuth) ==
  IF i > Len(in) THEN
     LET t == LibTerminator(out, A, hasAuth, 0) IN
     [err |-> StartsWith2(From(t.out, A + 1), 47, 47) /\ ~hasAuth, out |-> t.out]
  ELSE IF in[i] = 47 THEN
     LET t == LibTerminator(out, A, hasAuth, 47) IN
     IF ~t.plain /\ StartsWith2(From(t.out, A + 1), 47, 47) /\ ~hasAuth THEN [err |-> TRUE, out |-> t.out]
     ELSE LibPath(in, i + 1, t.out, A, hasAuth)
  ELSE LibPath(in, i + 1, Append(out, in[i]), A, hasAuth)
LibResolve(base, ref) ==
  LET b == Parse(base)  r == Parse(ref)
      pre == b.scheme \o <<58>> \o (IF b.hasAuth THEN <<47, 47>> \o b.auth ELSE <<>>)       \* base[..authority_end]
      A == Len(pre)
      toPath == pre \o b.path                                                               \* base[..path_end]
      toQuery == toPath \o (IF b.hasQ THEN <<63>> \o b.query ELSE <<>>)                      \* base[..query_end]
      tail == (IF r.hasQ THEN <<63>> \o r.query ELSE <<>>) \o (IF r.hasF THEN <<35>> \o r.frag ELSE <<>>)
  IN
  IF r.hasScheme THEN [err |-> FALSE, out |-> ref]
  ELSE IF r.hasAuth THEN [err |-> FALSE, out |-> b.scheme \o <<58>> \o ref]
  ELSE IF r.path = <<>> THEN
       (IF r.hasQ THEN [err |-> FALSE, out |-> toPath \o tail]
        ELSE [err |-> FALSE, out |-> toQuery \o tail])
  ELSE IF r.path[1] = 47 THEN
       LET p == LibPath(r.path, 2, pre \o <<47>>, A, b.hasAuth) IN [err |-> p.err, out |-> p.out \o tail]
  ELSE LET p == LibPath(r.path, 1, LibRemoveLast(toPath, A, b.hasAuth), A, b.hasAuth) IN [err |-> p.err, out |-> p.out \o tail]

\* ---------------- relativisation (C17) ----------------
\* number of leading "../" steps of a reference
RECURSIVE LeadingDotDotsFrom(_, _)
LeadingDotDotsFrom(r, i) == IF i + 1 <= Len(r) /\ r[i] = 46 /\ r[i + 1] = 46 /\ (i + 2 > Len(r) \/ r[i + 2] \in {47, 63, 35})
                            THEN 1 + (IF i + 2 <= Len(r) /\ r[i + 2] = 47 THEN LeadingDotDotsFrom(r, i + 3) ELSE 0) ELSE 0
LeadingDotDots(r) == LeadingDotDotsFrom(r, 1)
\* same document: equal up to query and fragment
SameDocument(a, b) == NoQuery(a) = NoQuery(b)
====
