---- MODULE Views ----
\* Graph views over a dataset (sophia_api::graph::adapter) and the graph-as-dataset wrapper
\* (sophia_api::dataset::adapter), with their mutation semantics (C11), structured like the adapters:
\* every view operation is expressed through the underlying store's own operation.
EXTENDS Naturals, Sequences, FiniteSets, TLC
CONSTANTS Triples,      \* a few abstract triples
          Names,        \* graph names that may be used for insertion
          DG,           \* the default graph
          Absent        \* a graph name never used for insertion
VARIABLES quads,        \* the dataset: set of <<triple, graph>>
          gstore,       \* a separate plain graph (set of triples) seen through GraphAsDataset
          last          \* the last step: [kind, op, t, g, flag, pre, gpre]
vars == <<quads, gstore, last>>
Graphs == Names \cup {DG}
AllG == Graphs \cup {Absent}
Tr(q) == q[1]
None == [kind |-> "none"]

\* ---- the underlying stores (QuadStore semantics) ----
DInsert(qs, t, g) == [st |-> qs \cup {<<t, g>>}, flag |-> <<t, g>> \notin qs]
DRemove(qs, t, g) == [st |-> qs \ {<<t, g>>}, flag |-> <<t, g>> \in qs]
DMatch(qs, T, G) == {q \in qs : q[1] \in T /\ q[2] \in G}                 \* quads_matching(sm,pm,om,gm), matchers as sets

\* ---- dataset -> graph views, as the adapters define them ----
GraphTriples(qs, g) == {Tr(q) : q \in DMatch(qs, Triples, {g})}           \* DatasetGraph: quads_matching(Any,Any,Any,[g])
UnionTriples(qs) == {Tr(q) : q \in DMatch(qs, Triples, AllG)}             \* UnionGraph: quads_matching(.., Any)
PartialTriples(qs, G) == {Tr(q) : q \in DMatch(qs, Triples, G)}           \* PartialUnionGraph: quads_matching(.., m)
\* multiplicity of a triple in a union view (one copy per selected graph holding it)
Mult(qs, G, t) == Cardinality({q \in qs : q[1] = t /\ q[2] \in G})

\* ---- graph -> dataset wrapper, as GraphAsDataset defines it ----
AsQuads(gs) == {<<t, DG>> : t \in gs}
AsMatch(gs, T, G) == IF DG \in G THEN {<<t, DG>> : t \in {x \in gs : x \in T}} ELSE {}
AsContains(gs, t, g) == IF g = DG THEN t \in gs ELSE FALSE
AsInsert(gs, t, g) == IF g = DG THEN [st |-> gs \cup {t}, res |-> IF t \notin gs THEN "true" ELSE "false"]
                      ELSE [st |-> gs, res |-> "OnlyDefaultGraph"]
AsRemove(gs, t, g) == IF g = DG THEN [st |-> gs \ {t}, res |-> IF t \in gs THEN "true" ELSE "false"]
                      ELSE [st |-> gs, res |-> "false"]

Init == quads = {} /\ gstore = {} /\ last = None
Direct(op, t, g) ==
  LET r == IF op = "ins" THEN DInsert(quads, t, g) ELSE DRemove(quads, t, g) IN
  /\ quads' = r.st /\ UNCHANGED gstore
  /\ last' = [kind |-> "direct", op |-> op, t |-> t, g |-> g, flag |-> r.flag, pre |-> quads]
\* DatasetGraph<&mut D>::insert/remove = d.insert/remove(s, p, o, g)
ViaGraphMut(op, t, g) ==
  LET r == IF op = "ins" THEN DInsert(quads, t, g) ELSE DRemove(quads, t, g) IN
  /\ quads' = r.st /\ UNCHANGED gstore
  /\ last' = [kind |-> "graph_mut", op |-> op, t |-> t, g |-> g, flag |-> r.flag, pre |-> quads]
ViaAsDataset(op, t, g) ==
  LET r == IF op = "ins" THEN AsInsert(gstore, t, g) ELSE AsRemove(gstore, t, g) IN
  /\ gstore' = r.st /\ UNCHANGED quads
  /\ last' = [kind |-> "as_dataset", op |-> op, t |-> t, g |-> g, flag |-> r.res, pre |-> gstore]
Next == \E op \in {"ins", "rem"}, t \in Triples, g \in AllG :
          \/ (g # Absent /\ Direct(op, t, g))
          \/ (IF op = "ins" THEN g # Absent ELSE TRUE) /\ ViaGraphMut(op, t, g)
          \/ ViaAsDataset(op, t, g)
Spec == Init /\ [][Next]_vars

\* ---- properties ----
\* a mutation through graph_mut(g) changes graph g only, exactly like the direct call, with the same flag
FrameCondition ==
  last.kind \in {"direct", "graph_mut"} =>
    /\ \A g2 \in AllG \ {last.g} : GraphTriples(quads, g2) = GraphTriples(last.pre, g2)
    /\ quads = (IF last.op = "ins" THEN DInsert(last.pre, last.t, last.g) ELSE DRemove(last.pre, last.t, last.g)).st
    /\ last.flag = (IF last.op = "ins" THEN DInsert(last.pre, last.t, last.g) ELSE DRemove(last.pre, last.t, last.g)).flag
    /\ last.flag = (quads # last.pre)
\* every view shows exactly the triples of the corresponding quads; pattern queries through a view = filter
ViewsCoherent ==
  /\ \A g \in AllG : GraphTriples(quads, g) = {q[1] : q \in {x \in quads : x[2] = g}}
  /\ UnionTriples(quads) = {q[1] : q \in quads}
  /\ \A G \in SUBSET AllG : PartialTriples(quads, G) = UNION {GraphTriples(quads, g) : g \in G}
  /\ \A G \in SUBSET AllG, T \in SUBSET Triples :
        {Tr(q) : q \in DMatch(quads, T, G)} = PartialTriples(quads, G) \cap T
  /\ GraphTriples(quads, Absent) = {}
  /\ \A t \in UnionTriples(quads) : Mult(quads, AllG, t) >= 1
\* a graph seen as a dataset: exactly its triples, in the default graph only
AsDatasetCoherent ==
  /\ \A T \in SUBSET Triples, G \in SUBSET AllG :
        AsMatch(gstore, T, G) = {q \in AsQuads(gstore) : q[1] \in T /\ q[2] \in G}
  /\ \A t \in Triples, g \in AllG : AsContains(gstore, t, g) = (<<t, g>> \in AsQuads(gstore))
  /\ last.kind = "as_dataset" =>
        /\ (last.g # DG => gstore = last.pre /\ last.flag = (IF last.op = "ins" THEN "OnlyDefaultGraph" ELSE "false"))
        /\ (last.g = DG => last.flag = (IF gstore # last.pre THEN "true" ELSE "false"))
        /\ (last.g = DG /\ last.op = "rem" => last.t \notin gstore)
        /\ (last.g = DG /\ last.op = "ins" => last.t \in gstore)
====
