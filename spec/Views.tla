---- MODULE Views ----
\* Graph views over a dataset (sophia_api::graph::adapter) and their mutation semantics (C11).
EXTENDS Naturals, Sequences, FiniteSets, TLC
DG == [k |-> "dg"]
SeqToSet(s) == {s[i] : i \in 1..Len(s)}
Count(s, x) == Cardinality({i \in 1..Len(s) : s[i] = x})
Tr(q) == <<q[1], q[2], q[3]>>
\* expected triples of a view selecting the graphs in G, with multiplicity bounds
Sel(quads, G) == {q \in quads : q[4] \in G}
ViewOk(rows, quads, G) ==
  /\ SeqToSet(rows) = {Tr(q) : q \in Sel(quads, G)}
  /\ \A t \in SeqToSet(rows) : Count(rows, t) >= 1 /\ Count(rows, t) <= Cardinality({q \in Sel(quads, G) : Tr(q) = t})
GraphNames(quads) == {q[4] : q \in quads}
====
