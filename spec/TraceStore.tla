---- MODULE TraceStore ----
EXTENDS QuadStore, Json, IOUtils
Rec == ndJsonDeserialize(IOEnv.TRACE)
VARIABLES l, quads, isset
vars == <<l, quads, isset>>
Init == l = 1 /\ quads = {} /\ isset = TRUE
NQs(s) == [i \in 1..Len(s) |-> NormQ(s[i])]
\* number of effective changes when applying inserts (resp. removes) of the sequence in order
RECURSIVE CountIns(_, _, _)
CountIns(s, i, acc) == IF i > Len(s) THEN [n |-> 0, st |-> acc]
                       ELSE LET r == CountIns(s, i + 1, acc \cup {s[i]}) IN
                            [n |-> r.n + (IF s[i] \in acc THEN 0 ELSE 1), st |-> r.st]
Ok(e) ==
  CASE e.ev = "Reset"   -> e.rows = <<>>
    [] e.ev = "Insert"  -> e.res = (NormQ(e.q) \notin quads)
    [] e.ev = "Remove"  -> e.res = (NormQ(e.q) \in quads)
    [] e.ev = "Quads"   -> LET r == NQs(e.rows) IN SeqToSet(r) = quads /\ Len(r) = Cardinality(quads)
    [] e.ev = "Match"   -> LET r == NQs(e.rows) exp == {q \in quads : MatchesQ(e.ms, q)} IN
                           SeqToSet(r) = exp /\ Len(r) = Cardinality(exp)
    [] e.ev = "Contains" -> e.res = (NormQ(e.q) \in quads)
    [] e.ev = "RemoveMatching" -> e.res = Cardinality({q \in quads : MatchesQ(e.ms, q)})
    [] e.ev = "RetainMatching" -> TRUE
    [] e.ev = "InsertAll" -> e.res = CountIns(NQs(e.qs), 1, quads).n
Post(e) ==
  CASE e.ev = "Reset"   -> {}
    [] e.ev = "Insert"  -> quads \cup {NormQ(e.q)}
    [] e.ev = "Remove"  -> quads \ {NormQ(e.q)}
    [] e.ev = "RemoveMatching" -> {q \in quads : ~MatchesQ(e.ms, q)}
    [] e.ev = "RetainMatching" -> {q \in quads : MatchesQ(e.ms, q)}
    [] e.ev = "InsertAll" -> quads \cup SeqToSet(NQs(e.qs))
    [] OTHER -> quads
Next == /\ l <= Len(Rec) /\ l' = l + 1 /\ UNCHANGED isset
        /\ LET e == Rec[l] IN
             /\ quads' = Post(e)
             /\ IF Ok(e) THEN TRUE ELSE PrintT(<<"MISMATCH", l, e.ev>>)
Spec == Init /\ [][Next]_vars
PostCond == TLCGet("stats").diameter - 1 = Len(Rec)
====
