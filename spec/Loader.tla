---- MODULE Loader ----
\* Confinement of the local resource loader: an IRI under a configured namespace is mapped to a
\* path below the configured directory by walking the remainder segment by segment.
EXTENDS Naturals, Sequences, FiniteSets, TLC
\* the file tree below the configured root, as a set of paths (sequences of names); contents are the path itself
CONSTANT Files
RECURSIVE Walk(_, _, _)
\* returns [esc |-> BOOLEAN, stack |-> path]; a leading empty segment denotes an absolute sub-path
Walk(segs, i, stack) ==
  IF i > Len(segs) THEN [esc |-> FALSE, stack |-> stack]
  ELSE LET s == segs[i] IN
       IF s = "" THEN (IF i = 1 /\ Len(segs) > 1 THEN [esc |-> TRUE, stack |-> <<>>] ELSE Walk(segs, i + 1, stack))
       ELSE IF s = "." THEN Walk(segs, i + 1, stack)
       ELSE IF s = ".." THEN (IF stack = <<>> THEN [esc |-> TRUE, stack |-> <<>>] ELSE Walk(segs, i + 1, SubSeq(stack, 1, Len(stack) - 1)))
       ELSE Walk(segs, i + 1, Append(stack, s))
HasExt(name) == name \in {"ok.ttl", "in.ttl", "secret.ttl", "x.nt"}        \* names of the model carry their extension explicitly
WithExt(path, ext) == IF path = <<>> THEN path ELSE SubSeq(path, 1, Len(path) - 1) \o << path[Len(path)] \o ext >>
\* the files the loader may return for the segments after the namespace (an error is always allowed)
Allowed(segs) ==
  LET w == Walk(segs, 1, <<>>) IN
  IF w.esc THEN {}                                   \* nothing may be returned (an error is always acceptable)
  ELSE IF w.stack \in Files THEN {w.stack}
  ELSE { WithExt(w.stack, e) : e \in {x \in {".ttl", ".nt"} : WithExt(w.stack, x) \in Files} }
====
