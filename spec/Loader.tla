---- MODULE Loader ----
\* The file-system backed resource loader (resource/src/loader/_local.rs) and the file system it talks to.
\*
\* World: one authority "http://ex/"; an IRI is the sequence of the '/'-separated segments after it
\*   ("http://ex/a/sub/x.ttl" = <<"a","sub","x.ttl">>, "http://ex/a//etc" = <<"a","","etc">>);
\*   a namespace "http://ex/a/" is the sequence <<"a">> (it always ends with '/', LocalLoader::check);
\*   a file-system path is the sequence of names below the root of the (sandboxed) file system.
\* The loader maps (first namespace that prefixes the IRI, remainder) to directory ++ remainder and opens it;
\* `Open` is what the operating system does with the joined path (absolute remainders replace the directory,
\* ".." is followed physically, every intermediate component must be an existing directory).
EXTENDS Naturals, Sequences, FiniteSets, TLC

CONSTANTS Dirs,     \* existing directories (set of paths); <<>> (the root) is always one
          Files,    \* existing regular files (set of paths)
          Caches    \* sequence of [ns |-> segments, dir |-> path]

IsPrefix(p, s) == Len(p) <= Len(s) /\ SubSeq(s, 1, Len(p)) = p
Under(f, d) == Len(f) > Len(d) /\ IsPrefix(d, f)
\* string prefix "http://ex/<ns>/" of "http://ex/<iri>": at least one more segment follows (it may be empty)
NsMatches(ns, iri) == Len(iri) > Len(ns) /\ IsPrefix(ns, iri)
Rem(ns, iri) == SubSeq(iri, Len(ns) + 1, Len(iri))

\* ---------- the operating system ----------
\* open(dir joined with the '/'-separated remainder): the file reached, ENOENT ("not-found") or another error ("io": EISDIR, ENOTDIR)
IsDir(p) == p = <<>> \/ p \in Dirs
RECURSIVE OsWalk(_, _, _)
OsWalk(segs, i, cur) ==   \* cur: the path reached so far
  IF i > Len(segs) THEN [st |-> "ok", path |-> cur]
  ELSE IF ~IsDir(cur) THEN [st |-> IF cur \in Files THEN "io" ELSE "not-found", path |-> cur]
  ELSE LET s == segs[i] IN
       IF s = "" \/ s = "." THEN OsWalk(segs, i + 1, cur)
       ELSE IF s = ".." THEN OsWalk(segs, i + 1, IF cur = <<>> THEN cur ELSE SubSeq(cur, 1, Len(cur) - 1))
       ELSE OsWalk(segs, i + 1, Append(cur, s))
\* PathBuf::join: a remainder that starts with '/' (empty first segment, more to follow) is absolute and replaces dir
Join(dir, rem) == IF Len(rem) > 1 /\ rem[1] = "" THEN [start |-> <<>>, segs |-> rem] ELSE [start |-> dir, segs |-> rem]
Open(dir, rem) == LET j == Join(dir, rem)  w == OsWalk(j.segs, 1, j.start)
                  IN IF w.st # "ok" THEN [k |-> w.st, path |-> <<>>]
                     ELSE IF w.path \in Files THEN [k |-> "file", path |-> w.path]
                     ELSE IF IsDir(w.path) THEN [k |-> "io", path |-> <<>>]
                     ELSE [k |-> "not-found", path |-> <<>>]

\* ---------- the loader ----------
\* names with an extension: the last '.' comes after the last '/' (no_ext in Loader::get looks at the whole IRI)
CONSTANT DotNames   \* the names of the model's alphabet that contain a '.'
HasDot(name) == name \in DotNames
Exts == <<".ttl", ".nt", ".jsonld", ".rdf">>
WithExt(segs, ext) == SubSeq(segs, 1, Len(segs) - 1) \o << segs[Len(segs)] \o ext >>
\* the guard of the repaired loader: every component of the remainder is a normal name or "."
\* (std::path::Component::Normal | CurDir; an absolute remainder has a RootDir component, ".." is ParentDir)
Guard(rem) == /\ ~(Len(rem) > 1 /\ rem[1] = "")
              /\ \A i \in 1..Len(rem) : rem[i] # ".."
FirstCache(iri) == IF \E i \in 1..Len(Caches) : NsMatches(Caches[i].ns, iri)
                   THEN CHOOSE i \in 1..Len(Caches) : NsMatches(Caches[i].ns, iri) /\ \A j \in 1..(i - 1) : ~NsMatches(Caches[j].ns, iri)
                   ELSE 0
RECURSIVE Get(_, _, _)
Get(iri, guarded, retry) ==
  LET c == FirstCache(iri) IN
  IF c = 0 THEN [k |-> "unsupported", path |-> <<>>]
  ELSE LET rem == Rem(Caches[c].ns, iri) IN
       IF guarded /\ ~Guard(rem) THEN [k |-> "unsupported", path |-> <<>>]
       ELSE LET r == Open(Caches[c].dir, rem) IN
            IF r.k # "not-found" \/ ~retry \/ HasDot(iri[Len(iri)]) THEN r
            ELSE LET hits == {e \in 1..Len(Exts) : Get(WithExt(iri, Exts[e]), guarded, FALSE).k = "file"}
                 IN IF hits = {} THEN r ELSE Get(WithExt(iri, Exts[CHOOSE e \in hits : \A f \in hits : e <= f]), guarded, FALSE)
GetFixed(iri) == Get(iri, TRUE, TRUE)      \* the repaired algorithm
GetPinned(iri) == Get(iri, FALSE, TRUE)    \* the algorithm of the pinned commit (kept to show what TLC finds on it)

\* ---------- the property (C19) ----------
\* whatever is returned lies inside the directory mapped to SOME configured namespace that prefixes the IRI
\* (IRI as given to the loader, or with one of the negotiated extensions appended)
Confined(iri, r) == r.k = "file" => \E i \in 1..Len(Caches) : NsMatches(Caches[i].ns, iri) /\ Under(r.path, Caches[i].dir)
====
