---- MODULE XmlSer ----
\* What the RDF/XML serializer decides per triple (rio/src/serializer.rs RdfXmlGuard + rio_xml's formatter): whether a
\* predicate can be a property element, how its IRI is split into namespace + local name, which rdf:nodeID a blank node gets.
\* Strings are code-point sequences.
EXTENDS Naturals, Sequences, FiniteSets
CONSTANT NodeIdRule     \* "fixed" | "digits-only" (a tempting simplification, refuted by MC_XmlSer_digits.cfg)
\* XML 1.0 (5th ed.) productions [4] NameStartChar, [4a] NameChar (without ':': Namespaces in XML, NCName)
NameStart(c) == \/ (c >= 65 /\ c <= 90) \/ c = 95 \/ (c >= 97 /\ c <= 122) \/ (c >= 192 /\ c <= 214) \/ (c >= 216 /\ c <= 246) \/ (c >= 248 /\ c <= 767)
                \/ (c >= 880 /\ c <= 893) \/ (c >= 895 /\ c <= 8191) \/ c \in {8204, 8205} \/ (c >= 8304 /\ c <= 8591) \/ (c >= 11264 /\ c <= 12271)
                \/ (c >= 12289 /\ c <= 55295) \/ (c >= 63744 /\ c <= 64975) \/ (c >= 65008 /\ c <= 65533) \/ (c >= 65536 /\ c <= 983039)
NameChar(c) == NameStart(c) \/ c \in {45, 46, 183, 8255, 8256} \/ (c >= 48 /\ c <= 57) \/ (c >= 768 /\ c <= 879)
IsNcName(v) == Len(v) > 0 /\ NameStart(v[1]) /\ \A i \in 2..Len(v) : NameChar(v[i])
IsQName(v) == IsNcName(v) \/ \E i \in 2..(Len(v) - 1) : v[i] = 58 /\ IsNcName(SubSeq(v, 1, i - 1)) /\ IsNcName(SubSeq(v, i + 1, Len(v)))
HasNcNameSuffix(v) == \E i \in 2..Len(v) : IsNcName(SubSeq(v, i, Len(v)))
RdfNsCp == <<104, 116, 116, 112, 58, 47, 47, 119, 119, 119, 46, 119, 51, 46, 111, 114, 103, 47, 49, 57, 57, 57, 47, 48, 50, 47, 50, 50, 45, 114, 100, 102, 45, 115, 121, 110, 116, 97, 120, 45, 110, 115, 35>>
\* RDF/XML syntax 5.1: names that can not be property elements (coreSyntaxTerms, rdf:Description, oldTerms), and rdf:li which is read as rdf:_n
ReservedLocal == {<<82, 68, 70>>, <<73, 68>>, <<97, 98, 111, 117, 116>>, <<112, 97, 114, 115, 101, 84, 121, 112, 101>>, <<114, 101, 115, 111, 117, 114, 99, 101>>, <<110, 111, 100, 101, 73, 68>>, <<100, 97, 116, 97, 116, 121, 112, 101>>, <<68, 101, 115, 99, 114, 105, 112, 116, 105, 111, 110>>, <<97, 98, 111, 117, 116, 69, 97, 99, 104>>, <<97, 98, 111, 117, 116, 69, 97, 99, 104, 80, 114, 101, 102, 105, 120>>, <<98, 97, 103, 73, 68>>, <<108, 105>>}
Reserved(v) == \E r \in ReservedLocal : v = RdfNsCp \o r
\* ---- the formatter's split (rio_xml split_iri): cut after the last character that is not a name character (':' is none),
\* then skip forward to the first name-start character; no such character: no local name ----
LastNonName(v) == IF \E i \in 1..Len(v) : ~NameChar(v[i]) THEN CHOOSE i \in 1..Len(v) : ~NameChar(v[i]) /\ \A j \in (i + 1)..Len(v) : NameChar(v[j]) ELSE 0
SplitIri(v) == LET b == LastNonName(v) IN
  IF b = 0 THEN [ns |-> v, local |-> <<>>]
  ELSE IF \E j \in (b + 1)..Len(v) : NameStart(v[j])
       THEN LET j == CHOOSE j \in (b + 1)..Len(v) : NameStart(v[j]) /\ \A k \in (b + 1)..(j - 1) : ~NameStart(v[k])
            IN [ns |-> SubSeq(v, 1, j - 1), local |-> SubSeq(v, j, Len(v))]
       ELSE [ns |-> v, local |-> <<>>]
\* ---- the guard (RdfXmlGuard::format): the part of the IRI from its last non-name character on, without its leading
\* characters that can not start a name, must not be empty; reserved rdf: names are refused ----
RECURSIVE TrimStart(_)
TrimStart(v) == IF v = <<>> \/ NameStart(v[1]) THEN v ELSE TrimStart(Tail(v))
GuardLocal(v) == LET b == LastNonName(v) IN TrimStart(IF b = 0 THEN v ELSE SubSeq(v, b, Len(v)))
GuardAccepts(v) == GuardLocal(v) # <<>> /\ ~Reserved(v)
\* every IRI has a scheme, hence a ':' (a non-name character): the laws are stated for such strings
HasColon(v) == \E i \in 1..Len(v) : v[i] = 58
\* ---- rdf:nodeID of a blank node label: labels starting with a digit or '_' get one more '_' in front ----
DigitCp(c) == c >= 48 /\ c <= 57
NodeId(l) == IF Len(l) > 0 /\ (DigitCp(l[1]) \/ (NodeIdRule = "fixed" /\ l[1] = 95)) THEN <<95>> \o l ELSE l
\* blank node labels of the toolkit (api/src/term/bnode_id.rs), on the characters the model uses
LabelStart(c) == NameStart(c) \/ DigitCp(c)
LabelChar(c) == NameChar(c) /\ c # 46
IsLabel(l) == Len(l) > 0 /\ LabelStart(l[1]) /\ \A i \in 2..Len(l) : LabelChar(l[i]) \/ (l[i] = 46 /\ i < Len(l) /\ LabelChar(l[i + 1]))
\* ---- laws (MC_XmlSer) ----
\* the guard accepts exactly the expressible predicates, and for those the split is a namespace + NCName decomposition
GuardIsExpressibility(v) == HasColon(v) => GuardAccepts(v) = (HasNcNameSuffix(v) /\ ~Reserved(v))
SplitIsSound(v) == (HasColon(v) /\ GuardAccepts(v)) => LET s == SplitIri(v) IN s.ns \o s.local = v /\ IsNcName(s.local) /\ s.ns # <<>> /\ s.local = GuardLocal(v)
\* node ids are XML names, and distinct labels get distinct ids
NodeIdIsName(l) == IsLabel(l) => IsNcName(NodeId(l))
NodeIdInjective(l1, l2) == (IsLabel(l1) /\ IsLabel(l2) /\ NodeId(l1) = NodeId(l2)) => l1 = l2
====
