---- MODULE Native ----
\* Native Rust values as RDF terms (C20): i32 / isize / usize <-> xsd:integer, bool <-> xsd:boolean, f64 <-> xsd:double, str <-> xsd:string.
\* All arithmetic is exact digit-string arithmetic (Xsd.tla!Value, NumLess, NumEq): TLC's 32-bit integers never hold a value of the code under test.
EXTENDS OrderBy
UnsignedTypes == { Dt(<<117, 110, 115, 105, 103, 110, 101, 100, 76, 111, 110, 103>>), Dt(<<117, 110, 115, 105, 103, 110, 101, 100, 73, 110, 116>>), Dt(<<117, 110, 115, 105, 103, 110, 101, 100, 83, 104, 111, 114, 116>>), Dt(<<117, 110, 115, 105, 103, 110, 101, 100, 66, 121, 116, 101>>) }
AllIntegerTypes == IntegerTypes \cup UnsignedTypes
FacetN(dt) ==
  CASE dt = Dt(<<117, 110, 115, 105, 103, 110, 101, 100, 76, 111, 110, 103>>) -> [lo |-> <<48>>, hi |-> <<49, 56, 52, 52, 54, 55, 52, 52, 48, 55, 51, 55, 48, 57, 53, 53, 49, 54, 49, 53>>]
    [] dt = Dt(<<117, 110, 115, 105, 103, 110, 101, 100, 73, 110, 116>>) -> [lo |-> <<48>>, hi |-> <<52, 50, 57, 52, 57, 54, 55, 50, 57, 53>>]
    [] dt = Dt(<<117, 110, 115, 105, 103, 110, 101, 100, 83, 104, 111, 114, 116>>) -> [lo |-> <<48>>, hi |-> <<54, 53, 53, 51, 53>>]
    [] dt = Dt(<<117, 110, 115, 105, 103, 110, 101, 100, 66, 121, 116, 101>>) -> [lo |-> <<48>>, hi |-> <<50, 53, 53>>]
    [] OTHER -> Facet(dt)
InFacetN(lex, dt) == LET f == FacetN(dt) IN (f.lo = <<>> \/ ~NumLess(lex, f.lo)) /\ (f.hi = <<>> \/ ~NumLess(f.hi, lex))
\* range of the native types (isize / usize of a 64-bit target)
NativeRange(ty) == CASE ty = "i32" -> [lo |-> <<45, 50, 49, 52, 55, 52, 56, 51, 54, 52, 56>>, hi |-> <<50, 49, 52, 55, 52, 56, 51, 54, 52, 55>>]
                     [] ty = "isize" -> [lo |-> <<45, 57, 50, 50, 51, 51, 55, 50, 48, 51, 54, 56, 53, 52, 55, 55, 53, 56, 48, 56>>, hi |-> <<57, 50, 50, 51, 51, 55, 50, 48, 51, 54, 56, 53, 52, 55, 55, 53, 56, 48, 55>>]
                     [] ty = "usize" -> [lo |-> <<48>>, hi |-> <<49, 56, 52, 52, 54, 55, 52, 52, 48, 55, 51, 55, 48, 57, 53, 53, 49, 54, 49, 53>>]
InNative(lex, ty) == LET r == NativeRange(ty) IN ~NumLess(lex, r.lo) /\ ~NumLess(r.hi, lex)
IntegerDt == Dt(<<105, 110, 116, 101, 103, 101, 114>>)
DoubleDt == Dt(<<100, 111, 117, 98, 108, 101>>)
FloatDt == Dt(<<102, 108, 111, 97, 116>>)
TrueLex == <<116, 114, 117, 101>>
FalseLex == <<102, 97, 108, 115, 101>>
NativeDt(ty) == CASE ty \in {"i32", "isize", "usize"} -> IntegerDt [] ty = "bool" -> BooleanType [] ty = "f64" -> DoubleDt [] ty = "str" -> StringType
PosInfLex == {INF, <<43>> \o INF}
NegInfLex == {<<45>> \o INF}

\* ---- a native value, as reported by the harness ----
\* integers: v.dec = canonical decimal digits;  bool: v.b;  str: v.s
\* f64: v.cls in {"nan","inf","finite"}, v.neg, v.bits (4 x 16 bits), v.dec exact decimal expansion, v.prev / v.next those of the adjacent doubles (<<>> = infinite)
SameNative(ty, a, b) == CASE ty \in {"i32", "isize", "usize"} -> a.dec = b.dec
                          [] ty = "bool" -> a.b = b.b
                          [] ty = "str" -> a.s = b.s
                          [] ty = "f64" -> IF a.cls = "nan" THEN b.cls = "nan" ELSE a.cls = b.cls /\ a.bits = b.bits
\* the lexical form denotes the f64 v: exactly, or v is the double next to it (the decimal lies strictly between v's neighbours)
Denotes64(lex, v) ==
  IF lex = NaN THEN v.cls = "nan"
  ELSE IF lex \in PosInfLex THEN v.cls = "inf" /\ ~v.neg
  ELSE IF lex \in NegInfLex THEN v.cls = "inf" /\ v.neg
  ELSE IF v.cls = "nan" THEN FALSE
  ELSE IF v.cls = "inf" THEN (IF v.neg THEN NumLess(lex, v.next) ELSE NumLess(v.prev, lex))     \* overflow: beyond the largest finite double
  ELSE \/ NumEq(lex, v.dec)
       \/ (v.prev = <<>> \/ NumLess(v.prev, lex)) /\ (v.next = <<>> \/ NumLess(lex, v.next))

\* ---- native -> term (impl Term for i32 / isize / usize / bool / f64 / str) ----
JudgeToTerm(ty, v, t) ==
  IF t.k # "lit" \/ t.lang # <<>> THEN "not-a-plain-literal"
  ELSE IF t.dt # NativeDt(ty) THEN "wrong-datatype"
  ELSE IF ty \in {"i32", "isize", "usize"} THEN (IF ~IsInteger(t.lex) THEN "lexical-form-invalid-for-xsd:integer" ELSE IF ~NumEq(t.lex, v.dec) THEN "lexical-form-denotes-another-value" ELSE "ok")
  ELSE IF ty = "bool" THEN (IF ~IsBoolean(t.lex) THEN "lexical-form-invalid-for-xsd:boolean" ELSE IF (t.lex \in {TrueLex, <<49>>}) # v.b THEN "lexical-form-denotes-another-value" ELSE "ok")
  ELSE IF ty = "str" THEN (IF t.lex # v.s THEN "lexical-form-denotes-another-value" ELSE "ok")
  ELSE IF ~IsDouble(t.lex) THEN "lexical-form-invalid-for-xsd:double"
  ELSE IF ~Denotes64(t.lex, v) THEN "lexical-form-denotes-another-value" ELSE "ok"

\* ---- term -> native (impl TryFromTerm) : out.k in {"ok","err","panic"} ----
ValidFor(t) == \* the lexical form is in the lexical space of the literal's datatype (and within its facets)
  \/ t.dt \in AllIntegerTypes /\ IsInteger(t.lex) /\ InFacetN(t.lex, t.dt)
  \/ t.dt = DecimalType /\ IsDecimal(t.lex)
  \/ t.dt \in DoubleTypes /\ IsDouble(t.lex)
  \/ t.dt = BooleanType /\ IsBoolean(t.lex)
  \/ t.dt = StringType
\* decimals with an all-zero fraction denote integers too
IntegerValued(t) == \/ t.dt \in AllIntegerTypes
                    \/ t.dt = DecimalType /\ LET v == Value(t.lex) IN v.ds = <<>> \/ v.e >= Len(v.ds)
JudgeTryFrom(ty, t, out) ==
  IF out.k = "panic" THEN "panic"
  ELSE IF out.k = "err" THEN "ok"                                   \* an error is always acceptable
  ELSE IF t.k # "lit" \/ t.lang # <<>> THEN "succeeds-on-a-term-that-is-no-typed-literal"
  ELSE IF ~ValidFor(t) THEN "succeeds-on-a-lexical-form-invalid-for-its-datatype"
  ELSE IF ty \in {"i32", "isize", "usize"} THEN
       (IF ~IntegerValued(t) THEN "succeeds-on-a-non-integer-datatype"
        ELSE IF ~NumEq(t.lex, out.val.dec) THEN "returns-another-value"
        ELSE IF ~InNative(out.val.dec, ty) THEN "returns-a-value-outside-the-native-type" ELSE "ok")
  ELSE IF ty = "bool" THEN (IF t.dt # BooleanType THEN "succeeds-on-a-non-boolean-datatype" ELSE IF (t.lex \in {TrueLex, <<49>>}) # out.val.b THEN "returns-another-value" ELSE "ok")
  ELSE IF ty = "str" THEN (IF out.val.s # t.lex THEN "returns-another-value" ELSE "ok")
  ELSE \* f64
       IF t.dt \notin (DoubleTypes \cup {DecimalType} \cup AllIntegerTypes) THEN "succeeds-on-a-non-numeric-datatype"
       ELSE IF t.dt = FloatDt THEN  \* single precision: only the class and the sign are judged (either rounding is a faithful reading)
            (IF t.lex = NaN THEN (IF out.val.cls = "nan" THEN "ok" ELSE "returns-another-value")
             ELSE IF out.val.cls = "nan" THEN "returns-another-value"
             ELSE IF t.lex \in PosInfLex \cup NegInfLex THEN (IF Denotes64(t.lex, out.val) THEN "ok" ELSE "returns-another-value")
             ELSE IF Value(t.lex).ds # <<>> /\ Value(t.lex).neg # out.val.neg THEN "returns-another-value" ELSE "ok")
       ELSE IF ~Denotes64(t.lex, out.val) THEN "returns-another-value" ELSE "ok"
====
