---- MODULE NQuads ----
\* Independent reader for (generalized, RDF-star) N-Triples / N-Quads over code points.
\* ReadDoc(s) = [ok |-> BOOLEAN, quads |-> sequence of <<s,p,o,g>>]
EXTENDS Naturals, Sequences, FiniteSets, TLC
In(c, lo, hi) == c >= lo /\ c <= hi
Alpha(c) == In(c, 65, 90) \/ In(c, 97, 122)
Digit(c) == In(c, 48, 57)
HexVal(c) == IF Digit(c) THEN c - 48 ELSE IF In(c, 65, 70) THEN c - 55 ELSE IF In(c, 97, 102) THEN c - 87 ELSE 99
PnCharsBase(c) == Alpha(c) \/ In(c, 192, 214) \/ In(c, 216, 246) \/ In(c, 248, 767) \/ In(c, 880, 893) \/ In(c, 895, 8191)
                  \/ In(c, 8204, 8205) \/ In(c, 8304, 8591) \/ In(c, 11264, 12271) \/ In(c, 12289, 55295)
                  \/ In(c, 63744, 64975) \/ In(c, 65008, 65533) \/ In(c, 65536, 983039)
PnCharsU(c) == PnCharsBase(c) \/ c = 95
PnChars(c) == PnCharsU(c) \/ c = 45 \/ Digit(c) \/ c = 183 \/ In(c, 768, 879) \/ In(c, 8255, 8256)
WS(c) == c = 32 \/ c = 9
Fail == [ok |-> FALSE]
XsdString == <<104,116,116,112,58,47,47,119,119,119,46,119,51,46,111,114,103,47,50,48,48,49,47,88,77,76,83,99,104,101,109,97,35,115,116,114,105,110,103>>
RECURSIVE SkipWS(_, _)
SkipWS(s, i) == IF i <= Len(s) /\ WS(s[i]) THEN SkipWS(s, i + 1) ELSE i
RECURSIVE HexNum(_, _, _, _)
HexNum(s, i, n, acc) == IF n = 0 THEN acc ELSE IF i > Len(s) \/ HexVal(s[i]) = 99 THEN 9999999 ELSE HexNum(s, i + 1, n - 1, acc * 16 + HexVal(s[i]))
\* IRIREF ::= '<' ([^#x00-#x20<>"{}|^`\] | UCHAR)* '>' : returns [ok, v, next] with v the IRI (UCHAR escapes decoded) and next the index
\* after '>'.  sophia's writer produces no escape, but the grammar allows them and an independent reader has to take them.
RECURSIVE IriBody(_, _, _)
IriBody(s, i, acc) ==
  IF i > Len(s) THEN Fail
  ELSE IF s[i] = 62 THEN [ok |-> TRUE, v |-> acc, next |-> i + 1]
  ELSE IF s[i] = 92 THEN
       IF i + 1 > Len(s) THEN Fail
       ELSE IF s[i + 1] = 117 THEN LET v == HexNum(s, i + 2, 4, 0) IN IF v = 9999999 THEN Fail ELSE IriBody(s, i + 6, Append(acc, v))
       ELSE IF s[i + 1] = 85 THEN LET v == HexNum(s, i + 2, 8, 0) IN IF v = 9999999 \/ v > 1114111 THEN Fail ELSE IriBody(s, i + 10, Append(acc, v))
       ELSE Fail
  ELSE IF s[i] <= 32 \/ s[i] \in {60, 34, 123, 125, 124, 94, 96} THEN Fail
  ELSE IriBody(s, i + 1, Append(acc, s[i]))
\* string body: returns [ok, v, next] where next is the index after the closing quote
RECURSIVE StrBody(_, _, _)
StrBody(s, i, acc) ==
  IF i > Len(s) THEN Fail
  ELSE IF s[i] = 34 THEN [ok |-> TRUE, v |-> acc, next |-> i + 1]
  ELSE IF s[i] = 10 \/ s[i] = 13 THEN Fail
  ELSE IF s[i] = 92 THEN
       IF i + 1 > Len(s) THEN Fail
       ELSE LET e == s[i + 1] IN
            IF e = 110 THEN StrBody(s, i + 2, Append(acc, 10)) ELSE IF e = 114 THEN StrBody(s, i + 2, Append(acc, 13))
            ELSE IF e = 116 THEN StrBody(s, i + 2, Append(acc, 9)) ELSE IF e = 98 THEN StrBody(s, i + 2, Append(acc, 8))
            ELSE IF e = 102 THEN StrBody(s, i + 2, Append(acc, 12)) ELSE IF e \in {34, 39, 92} THEN StrBody(s, i + 2, Append(acc, e))
            ELSE IF e = 117 THEN LET v == HexNum(s, i + 2, 4, 0) IN IF v = 9999999 THEN Fail ELSE StrBody(s, i + 6, Append(acc, v))
            ELSE IF e = 85 THEN LET v == HexNum(s, i + 2, 8, 0) IN IF v = 9999999 \/ v > 1114111 THEN Fail ELSE StrBody(s, i + 10, Append(acc, v))
            ELSE Fail
  ELSE StrBody(s, i + 1, Append(acc, s[i]))
\* end (exclusive) of the maximal run of characters satisfying P starting at i
RunEnd(s, i, P(_)) == CHOOSE j \in i..(Len(s) + 1) : (j = Len(s) + 1 \/ ~P(s[j])) /\ \A m \in i..(j - 1) : P(s[m])
RECURSIVE BackOffDots(_, _, _)
BackOffDots(s, start, e) == IF e > start /\ s[e - 1] = 46 THEN BackOffDots(s, start, e - 1) ELSE e
Sub(s, a, b) == IF a > b THEN <<>> ELSE SubSeq(s, a, b)
RECURSIVE Term(_, _)
Term(s, i0) ==
  LET i == SkipWS(s, i0) IN
  IF i > Len(s) THEN Fail
  ELSE IF s[i] = 60 /\ i + 1 <= Len(s) /\ s[i + 1] = 60 THEN            \* << s p o >>
       LET a == Term(s, i + 2) IN IF ~a.ok THEN Fail ELSE
       LET b == Term(s, a.next) IN IF ~b.ok THEN Fail ELSE
       LET c == Term(s, b.next) IN IF ~c.ok THEN Fail ELSE
       LET j == SkipWS(s, c.next) IN
       IF j + 1 <= Len(s) /\ s[j] = 62 /\ s[j + 1] = 62
       THEN [ok |-> TRUE, t |-> [k |-> "triple", s |-> a.t, p |-> b.t, o |-> c.t], next |-> j + 2] ELSE Fail
  ELSE IF s[i] = 60 THEN LET e == IriBody(s, i + 1, <<>>) IN
       IF ~e.ok THEN Fail ELSE [ok |-> TRUE, t |-> [k |-> "iri", v |-> e.v], next |-> e.next]
  ELSE IF s[i] = 95 /\ i + 2 <= Len(s) /\ s[i + 1] = 58 /\ (PnCharsU(s[i + 2]) \/ Digit(s[i + 2])) THEN
       LET e == BackOffDots(s, i + 3, RunEnd(s, i + 3, LAMBDA c : PnChars(c) \/ c = 46)) IN
       [ok |-> TRUE, t |-> [k |-> "bnode", v |-> Sub(s, i + 2, e - 1)], next |-> e]
  ELSE IF s[i] = 63 THEN LET e == RunEnd(s, i + 1, LAMBDA c : PnCharsU(c) \/ Digit(c) \/ c = 183 \/ In(c, 768, 879) \/ In(c, 8255, 8256)) IN
       IF e = i + 1 THEN Fail ELSE [ok |-> TRUE, t |-> [k |-> "var", v |-> Sub(s, i + 1, e - 1)], next |-> e]
  ELSE IF s[i] = 34 THEN
       LET b == StrBody(s, i + 1, <<>>) IN IF ~b.ok THEN Fail ELSE
       IF b.next <= Len(s) /\ s[b.next] = 64 THEN
            LET e == RunEnd(s, b.next + 1, LAMBDA c : Alpha(c) \/ Digit(c) \/ c = 45) IN
            IF e = b.next + 1 \/ ~Alpha(s[b.next + 1]) THEN Fail
            ELSE [ok |-> TRUE, t |-> [k |-> "lit", lex |-> b.v, dt |-> <<>>, lang |-> Sub(s, b.next + 1, e - 1)], next |-> e]
       ELSE IF b.next + 2 <= Len(s) /\ s[b.next] = 94 /\ s[b.next + 1] = 94 /\ s[b.next + 2] = 60 THEN
            LET e == IriBody(s, b.next + 3, <<>>) IN IF ~e.ok THEN Fail
            ELSE [ok |-> TRUE, t |-> [k |-> "lit", lex |-> b.v, dt |-> e.v, lang |-> <<>>], next |-> e.next]
       ELSE [ok |-> TRUE, t |-> [k |-> "lit", lex |-> b.v, dt |-> XsdString, lang |-> <<>>], next |-> b.next]
  ELSE Fail
DG == [k |-> "dg"]
ReadLine(s) ==
  LET a == Term(s, 1) IN IF ~a.ok THEN Fail ELSE
  LET b == Term(s, a.next) IN IF ~b.ok THEN Fail ELSE
  LET c == Term(s, b.next) IN IF ~c.ok THEN Fail ELSE
  LET j == SkipWS(s, c.next) IN
  IF j <= Len(s) /\ s[j] = 46 THEN (IF SkipWS(s, j + 1) > Len(s) THEN [ok |-> TRUE, q |-> <<a.t, b.t, c.t, DG>>] ELSE Fail)
  ELSE LET g == Term(s, j) IN IF ~g.ok THEN Fail ELSE
       LET m == SkipWS(s, g.next) IN
       IF m <= Len(s) /\ s[m] = 46 /\ SkipWS(s, m + 1) > Len(s) THEN [ok |-> TRUE, q |-> <<a.t, b.t, c.t, g.t>>] ELSE Fail
\* split on LF; every line must be a statement (the writer emits one statement per line, no blank lines)
RECURSIVE Lines(_, _, _)
Lines(s, start, i) == IF i > Len(s) THEN (IF start > Len(s) THEN <<>> ELSE << Sub(s, start, Len(s)) >>)
                      ELSE IF s[i] = 10 THEN << Sub(s, start, i - 1) >> \o Lines(s, i + 1, i + 1)
                      ELSE Lines(s, start, i + 1)
ReadDoc(s) == LET ls == Lines(s, 1, 1)  rs == [i \in 1..Len(ls) |-> ReadLine(ls[i])] IN
              IF \A i \in 1..Len(ls) : rs[i].ok THEN [ok |-> TRUE, quads |-> [i \in 1..Len(ls) |-> rs[i].q]] ELSE Fail
====
