---- MODULE JsonLdSer ----
\* Transcription of the list handling of the JSON-LD serializer (jsonld/src/serializer/engine.rs; use_rdf_type = false,
\* no rdf_direction): which quads does the emitted document denote?
\*
\* A quad is <<s, p, o, g>> over model values.  The document is abstracted to the set of quads it denotes, with ONE
\* simplification that is made sound by an explicit side condition: an @list denotes the rdf:first / rdf:rest quads of
\* its cells with their ORIGINAL labels, although the real document drops those labels.  Dropping a label is harmless
\* exactly when the label occurs nowhere else (Anonymous below); the other differences with the real document are the
\* rdf:type rdf:List of a compacted cell (not written: W3C algorithm, recorded deviation) and a crash (Crash).
EXTENDS Naturals, Sequences, FiniteSets, TLC
CONSTANTS Bn,        \* blank node labels
          NIL, LIST, FIRST, REST, TYPE,
          DG,        \* the default graph
          Mode11,    \* processing mode 1.1 (lists of lists allowed)
          Algo       \* "pinned" (commit 9f1ceaf) | "fixed"
Fuel == 12
Slots(D) == { <<q[4], q[1]>> : q \in D } \cup { <<DG, q[4]>> : q \in {x \in D : x[4] # DG} }          \* non-empty node maps
Props(D, g, s) == {q \in D : q[4] = g /\ q[1] = s}
\* keys of the node map of slot (g, s): rdf:type with an IRI object is "@type"; naming a graph adds "@graph"
Keys(D, g, s) == {q[2] : q \in Props(D, g, s)} \cup (IF g = DG /\ \E q \in D : q[4] = s /\ s # DG THEN {"@graph"} ELSE {})
Vals(D, g, s, p) == {q[3] : q \in {x \in Props(D, g, s) : x[2] = p}}
\* unique_parent, keyed by LABEL: (graph, subject, predicate) of the only statement having it as object
Parents(D, b) == { <<q[4], q[1], q[2]>> : q \in {x \in D : x[3] = b} }
Described(D, b) == Cardinality({x \in Slots(D) : x[2] = b})
Seeds(D) == { <<q[4], q[1]>> : q \in {x \in D : x[1] \in Bn /\ x[2] = REST /\ x[3] = NIL} }
\* is_list_node: exactly one rdf:first, exactly one rdf:rest (a node), possibly the type rdf:List, nothing else
IsListNode(D, g, s) ==
  /\ Keys(D, g, s) \in {{FIRST, REST}, {FIRST, REST, TYPE}}
  /\ Cardinality(Vals(D, g, s, FIRST)) = 1 /\ Cardinality(Vals(D, g, s, REST)) = 1
  /\ \A r \in Vals(D, g, s, REST) : r \in Bn \cup {NIL}
  /\ (TYPE \in Keys(D, g, s) => Vals(D, g, s, TYPE) = {LIST})
\* mark_list_node: [crash, marked: function label -> parent slot (as a set of pairs)]
RECURSIVE Mark(_, _, _, _)
Mark(D, g, s, fuel) ==
  IF fuel = 0 THEN [crash |-> TRUE, marked |-> {}]
  ELSE IF Algo = "fixed" /\ Described(D, s) # 1 THEN [crash |-> FALSE, marked |-> {}]
  ELSE IF Parents(D, s) = {} THEN [crash |-> Algo = "pinned", marked |-> {}]                  \* pinned: unique_parent[s_id] panics
  ELSE IF Cardinality(Parents(D, s)) # 1 THEN [crash |-> FALSE, marked |-> {}]
  ELSE LET up == CHOOSE x \in Parents(D, s) : TRUE IN
       IF ~Mode11 /\ up[3] = FIRST THEN [crash |-> FALSE, marked |-> {}]
       ELSE IF up[1] # g \/ ~IsListNode(D, g, s) THEN [crash |-> FALSE, marked |-> {}]
       ELSE IF up[2] \in Bn /\ up[3] = REST
            THEN LET r == Mark(D, up[1], up[2], fuel - 1) IN [crash |-> r.crash, marked |-> {<<s, <<up[1], up[2]>>>>} \cup r.marked]
            ELSE [crash |-> FALSE, marked |-> {<<s, <<up[1], up[2]>>>>}]
MarkAll(D) == LET rs == { Mark(D, x[1], x[2], Fuel) : x \in Seeds(D) } IN
              [crash |-> \E r \in rs : r.crash, marked |-> UNION {r.marked : r \in rs}]
ParentOf(m, b) == (CHOOSE x \in m : x[1] = b)[2][2]
Labels(m) == {x[1] : x \in m}
\* list nodes are only rendered through their parent: those on a loop of parents would never be rendered
RECURSIVE Reaches(_, _, _, _)
Reaches(m, from, to, fuel) == fuel > 0 /\ from \in Labels(m) /\ (ParentOf(m, from) = to \/ Reaches(m, ParentOf(m, from), to, fuel - 1))
OnLoop(m, b) == Reaches(m, b, b, Fuel)
\* "pinned": nothing is unmarked.  "head1" (first repair, 052b0ad): ONE node of each loop is unmarked - which one depends on
\* the iteration order of a hash map, so every choice is possible.  "fixed": every node of a loop is unmarked.
SameLoop(m, a, b) == a = b \/ (Reaches(m, a, b, Fuel) /\ Reaches(m, b, a, Fuel))
LoopNodes(m) == {b \in Labels(m) : OnLoop(m, b)}
UnmarkChoices(m) == CASE Algo = "pinned" -> {{}}
                      [] Algo = "head1" -> {U \in SUBSET LoopNodes(m) : \A b \in LoopNodes(m) : Cardinality({u \in U : SameLoop(m, u, b)}) = 1}
                      [] OTHER -> {LoopNodes(m)}
PossibleListNodes(D) == LET m == MarkAll(D).marked IN { Labels(m) \ U : U \in UnmarkChoices(m) }
\* quads denoted by the @list starting at cell (g, c) - populate_list follows rdf:rest whatever the next cell is
RECURSIVE ListQuads(_, _, _, _, _)
ValueQuads(D, ln, g, o, fuel) == IF o \in ln THEN ListQuads(D, ln, g, o, fuel) ELSE [crash |-> FALSE, quads |-> {}]
ListQuads(D, ln, g, c, fuel) ==
  IF fuel = 0 THEN [crash |-> TRUE, quads |-> {}]                                                      \* endless recursion
  ELSE IF Vals(D, g, c, FIRST) = {} \/ Vals(D, g, c, REST) = {} THEN [crash |-> TRUE, quads |-> {}]   \* map[RDF_FIRST][0] on a missing key
  ELSE LET f == CHOOSE x \in Vals(D, g, c, FIRST) : TRUE
           r == CHOOSE x \in Vals(D, g, c, REST) : TRUE
           here == { <<c, FIRST, f, g>>, <<c, REST, r, g>> }
           inner == ValueQuads(D, ln, g, f, fuel - 1)
           next == IF r \in Bn THEN ListQuads(D, ln, g, r, fuel - 1) ELSE [crash |-> FALSE, quads |-> {}]
       IN [crash |-> inner.crash \/ next.crash, quads |-> here \cup inner.quads \cup next.quads]
\* node object of slot (g, s): its own statements plus the lists hanging from them
NodeQuads(D, ln, g, s) ==
  LET ps == Props(D, g, s)
      lists == { ValueQuads(D, ln, g, q[3], Fuel) : q \in ps }
  IN [crash |-> \E l \in lists : l.crash, quads |-> ps \cup UNION {l.quads : l \in lists}]
Emitted(D, ln) ==
  LET m == MarkAll(D)
      shown == { x \in Slots(D) : x[2] \notin ln }                         \* jsonify skips list nodes BY LABEL, in every graph
      nodes == { NodeQuads(D, ln, x[1], x[2]) : x \in shown }
  IN [crash |-> m.crash \/ \E n \in nodes : n.crash, quads |-> UNION {n.quads : n \in nodes}, ln |-> ln]
\* the label of a list node disappears from the document: it must occur only as the subject of its cell and once as an object
Anonymous(D, b) == /\ Cardinality({q \in D : q[3] = b}) = 1
                   /\ \A q \in D : q[4] # b
                   /\ Cardinality({q[4] : q \in {x \in D : x[1] = b}}) = 1
\* the recorded deviation: the rdf:type rdf:List statement of a compacted cell is not written
TypeOfListNode(D, ln) == {q \in D : q[1] \in ln /\ q[2] = TYPE /\ q[3] = LIST}
CorrectWith(D, ln) == LET e == Emitted(D, ln) IN
  /\ ~e.crash
  /\ e.quads \cup TypeOfListNode(D, ln) = D
  /\ \A b \in ln : Anonymous(D, b)
Correct(D) == \A ln \in PossibleListNodes(D) : CorrectWith(D, ln)
====
