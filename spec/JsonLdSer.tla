---- MODULE JsonLdSer ----
\* Transcription of jsonld/src/serializer/engine.rs (processing mode 1.1, use_rdf_type = false,
\* no rdf_direction) for small datasets: which quads does the emitted JSON-LD denote?
EXTENDS Naturals, Sequences, FiniteSets, TLC
CONSTANTS B1, B2, A, NIL, P, FIRST, REST, DG, G1
Bn == {B1, B2}
Subjects == Bn \cup {A}
Preds == {P, FIRST, REST}
Objects == Bn \cup {A, NIL}
Graphs == {DG, G1}
Universe == Subjects \X Preds \X Objects \X Graphs
\* slots = (graph, node) pairs that occur as subject or object (or, for graph names, in the default graph)
Props(D, g, s) == {q \in D : q[4] = g /\ q[1] = s}                       \* the property map of slot (g, s)
Keys(D, g, s) == {q[2] : q \in Props(D, g, s)}
Vals(D, g, s, p) == {q[3] : q \in {x \in Props(D, g, s) : x[2] = p}}
\* unique_parent, keyed by blank-node LABEL: the only (graph, subject, predicate) through which it is an object
Parents(D, b) == { <<q[4], q[1], q[2]>> : q \in {x \in D : x[3] = b} }
HasParentEntry(D, b) == Parents(D, b) # {}
UniqueParent(D, b) == IF Cardinality(Parents(D, b)) = 1 THEN CHOOSE x \in Parents(D, b) : TRUE ELSE <<>>     \* <<>> = None
\* list seeds: slots (g, s) with s blank and (s rest nil) in g
Seeds(D) == { <<q[4], q[1]>> : q \in {x \in D : x[1] \in Bn /\ x[2] = REST /\ x[3] = NIL} }
IsListNode(D, g, s) == Keys(D, g, s) = {FIRST, REST} /\ Cardinality(Vals(D, g, s, FIRST)) = 1 /\ Cardinality(Vals(D, g, s, REST)) = 1
\* mark_list_node from a slot; returns [panic, marked (set of labels)]
RECURSIVE Mark(_, _, _, _)
Mark(D, g, s, fuel) ==
  IF fuel = 0 THEN [panic |-> FALSE, marked |-> {}]
  ELSE IF ~HasParentEntry(D, s) THEN [panic |-> TRUE, marked |-> {}]          \* self.unique_parent[s_id] on a missing key
  ELSE LET up == UniqueParent(D, s) IN
       IF up = <<>> THEN [panic |-> FALSE, marked |-> {}]
       ELSE IF up[1] # g THEN [panic |-> FALSE, marked |-> {}]
       ELSE IF ~IsListNode(D, g, s) THEN [panic |-> FALSE, marked |-> {}]
       ELSE IF up[2] \in Bn /\ up[3] = REST
            THEN LET r == Mark(D, up[1], up[2], fuel - 1) IN [panic |-> r.panic, marked |-> {s} \cup r.marked]
            ELSE [panic |-> FALSE, marked |-> {s}]
MarkAll(D) == LET rs == { Mark(D, x[1], x[2], 6) : x \in Seeds(D) } IN
              [panic |-> \E r \in rs : r.panic, marked |-> UNION {r.marked : r \in rs}]
\* quads denoted by an @list for the cell slot (g, c): the cells are re-emitted with their original labels
RECURSIVE ListQuads(_, _, _, _, _)
ListQuads(D, marked, g, c, fuel) ==
  IF fuel = 0 THEN [panic |-> FALSE, quads |-> {}]
  ELSE IF Vals(D, g, c, FIRST) = {} \/ Vals(D, g, c, REST) = {} THEN [panic |-> TRUE, quads |-> {}]      \* map[RDF_FIRST][0] on a missing key
  ELSE LET f == CHOOSE x \in Vals(D, g, c, FIRST) : TRUE
           r == CHOOSE x \in Vals(D, g, c, REST) : TRUE
           here == { <<c, FIRST, f, g>>, <<c, REST, r, g>> }
           inner == IF f \in marked THEN ListQuads(D, marked, g, f, fuel - 1) ELSE [panic |-> FALSE, quads |-> {}]
           next == IF r # NIL /\ r \in Bn THEN ListQuads(D, marked, g, r, fuel - 1) ELSE [panic |-> FALSE, quads |-> {}]
       IN [panic |-> inner.panic \/ next.panic, quads |-> here \cup inner.quads \cup next.quads]
\* node object of slot (g, s): its own quads plus the lists hanging from it
NodeQuads(D, marked, g, s) ==
  LET ps == Props(D, g, s)
      lists == { ListQuads(D, marked, g, q[3], 6) : q \in {x \in ps : x[3] \in marked} }
  IN [panic |-> \E l \in lists : l.panic, quads |-> ps \cup UNION {l.quads : l \in lists}]
Emitted(D) ==
  LET m == MarkAll(D)
      slots == { <<q[4], q[1]>> : q \in D }
      shown == { x \in slots : x[2] \notin m.marked }                         \* suppression is by LABEL, in every graph
      nodes == { NodeQuads(D, m.marked, x[1], x[2]) : x \in shown }
  IN [panic |-> m.panic \/ \E n \in nodes : n.panic, quads |-> UNION {n.quads : n \in nodes}]
Correct(D) == LET e == Emitted(D) IN ~e.panic /\ e.quads = D
====
