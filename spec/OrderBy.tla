---- MODULE OrderBy ----
\* What ORDER BY must respect (C14): kind rank and SPARQL's operator "<" where it is defined,
\* consistently across runs on permutations of the same rows.
EXTENDS Xsd
XsdNs == <<104,116,116,112,58,47,47,119,119,119,46,119,51,46,111,114,103,47,50,48,48,49,47,88,77,76,83,99,104,101,109,97,35>>
Dt(name) == XsdNs \o name
IntegerTypes == { Dt(<<105,110,116,101,103,101,114>>), Dt(<<108,111,110,103>>), Dt(<<105,110,116>>), Dt(<<115,104,111,114,116>>), Dt(<<98,121,116,101>>),
                  Dt(<<110,111,110,78,101,103,97,116,105,118,101,73,110,116,101,103,101,114>>), Dt(<<112,111,115,105,116,105,118,101,73,110,116,101,103,101,114>>) }
DecimalType == Dt(<<100,101,99,105,109,97,108>>)
DoubleTypes == { Dt(<<100,111,117,98,108,101>>), Dt(<<102,108,111,97,116>>) }
StringType == Dt(<<115,116,114,105,110,103>>)
BooleanType == Dt(<<98,111,111,108,101,97,110>>)
KindRank(t) == CASE t.k = "unbound" -> 0 [] t.k = "bnode" -> 1 [] t.k = "iri" -> 2 [] t.k = "lit" -> 3
\* numeric value class: finite numbers with a valid lexical form for their datatype
IsNum(t) == t.k = "lit" /\ t.lang = <<>> /\
   \/ t.dt \in IntegerTypes /\ IsInteger(t.lex)
   \/ t.dt = DecimalType /\ IsDecimal(t.lex)
   \/ t.dt \in DoubleTypes /\ IsDouble(t.lex) /\ t.lex \notin {NaN, INF, <<43>> \o INF, <<45>> \o INF}
IsPosInf(t) == t.k = "lit" /\ t.lang = <<>> /\ t.dt \in DoubleTypes /\ t.lex \in {INF, <<43>> \o INF}
IsNegInf(t) == t.k = "lit" /\ t.lang = <<>> /\ t.dt \in DoubleTypes /\ t.lex = <<45>> \o INF
IsStr(t) == t.k = "lit" /\ t.lang = <<>> /\ t.dt = StringType
IsBool(t) == t.k = "lit" /\ t.lang = <<>> /\ t.dt = BooleanType /\ t.lex \in {<<116,114,117,101>>, <<102,97,108,115,101>>}
SparqlLess(a, b) ==
  \/ IsNum(a) /\ IsNum(b) /\ NumLess(a.lex, b.lex)
  \/ IsNegInf(a) /\ (IsNum(b) \/ IsPosInf(b))
  \/ IsPosInf(b) /\ IsNum(a)
  \/ IsStr(a) /\ IsStr(b) /\ DigLess(a.lex, b.lex, 1)
  \/ IsBool(a) /\ IsBool(b) /\ a.lex = <<102,97,108,115,101>> /\ b.lex = <<116,114,117,101>>
MustPrecede(a, b, desc) == IF KindRank(a) # KindRank(b) THEN (IF desc THEN KindRank(a) > KindRank(b) ELSE KindRank(a) < KindRank(b))
                           ELSE IF desc THEN SparqlLess(b, a) ELSE SparqlLess(a, b)
\* rule 2: no inversion inside one output
NoInversion(out, desc) == \A i, j \in 1..Len(out) : i < j => ~MustPrecede(out[j], out[i], desc)
\* rule 3: all outputs of a batch are sorted by one total preorder that extends MustPrecede strictly
Vals(outs) == UNION { {outs[n][i] : i \in 1..Len(outs[n])} : n \in 1..Len(outs) }
Edge(outs, a, b) == \E n \in 1..Len(outs) : \E i \in 1..(Len(outs[n]) - 1) : outs[n][i] = a /\ outs[n][i + 1] = b
RECURSIVE ReachSet(_, _, _)
ReachSet(outs, frontier, seen) == LET nxt == {b \in Vals(outs) : \E a \in frontier : Edge(outs, a, b)} \ seen IN
                                  IF nxt = {} THEN seen ELSE ReachSet(outs, nxt, seen \cup nxt)
Reach(outs, a, b) == b \in ReachSet(outs, {a}, {})
Consistent(outs, desc) == \A a, b \in Vals(outs) : MustPrecede(a, b, desc) => ~Reach(outs, b, a)
====
