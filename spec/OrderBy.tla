---- MODULE OrderBy ----
\* What ORDER BY must respect (C14): kind rank and SPARQL's operator "<" where it is defined,
\* consistently across runs on permutations of the same rows.
EXTENDS Xsd
XsdNs == <<104,116,116,112,58,47,47,119,119,119,46,119,51,46,111,114,103,47,50,48,48,49,47,88,77,76,83,99,104,101,109,97,35>>
Dt(name) == XsdNs \o name
IntegerTypes == { Dt(<<105,110,116,101,103,101,114>>), Dt(<<108,111,110,103>>), Dt(<<105,110,116>>), Dt(<<115,104,111,114,116>>), Dt(<<98,121,116,101>>),
                  Dt(<<110,111,110,78,101,103,97,116,105,118,101,73,110,116,101,103,101,114>>), Dt(<<112,111,115,105,116,105,118,101,73,110,116,101,103,101,114>>),
                  Dt(<<110,111,110,80,111,115,105,116,105,118,101,73,110,116,101,103,101,114>>), Dt(<<110,101,103,97,116,105,118,101,73,110,116,101,103,101,114>>),
                  Dt(<<117,110,115,105,103,110,101,100,76,111,110,103>>), Dt(<<117,110,115,105,103,110,101,100,73,110,116>>), Dt(<<117,110,115,105,103,110,101,100,83,104,111,114,116>>), Dt(<<117,110,115,105,103,110,101,100,66,121,116,101>>) }     \* unsignedLong, unsignedInt, unsignedShort, unsignedByte
\* value-space facets of the derived integer types (exact digit arithmetic): [lo, hi], <<>> = unbounded
Facet(dt) ==
  CASE dt = Dt(<<98,121,116,101>>) -> [lo |-> <<45,49,50,56>>, hi |-> <<49,50,55>>]
    [] dt = Dt(<<115,104,111,114,116>>) -> [lo |-> <<45,51,50,55,54,56>>, hi |-> <<51,50,55,54,55>>]
    [] dt = Dt(<<105,110,116>>) -> [lo |-> <<45,50,49,52,55,52,56,51,54,52,56>>, hi |-> <<50,49,52,55,52,56,51,54,52,55>>]
    [] dt = Dt(<<108,111,110,103>>) -> [lo |-> <<45,57,50,50,51,51,55,50,48,51,54,56,53,52,55,55,53,56,48,56>>, hi |-> <<57,50,50,51,51,55,50,48,51,54,56,53,52,55,55,53,56,48,55>>]
    [] dt = Dt(<<110,111,110,78,101,103,97,116,105,118,101,73,110,116,101,103,101,114>>) -> [lo |-> <<48>>, hi |-> <<>>]
    [] dt = Dt(<<112,111,115,105,116,105,118,101,73,110,116,101,103,101,114>>) -> [lo |-> <<49>>, hi |-> <<>>]
    [] dt = Dt(<<110,111,110,80,111,115,105,116,105,118,101,73,110,116,101,103,101,114>>) -> [lo |-> <<>>, hi |-> <<48>>]
    [] dt = Dt(<<110,101,103,97,116,105,118,101,73,110,116,101,103,101,114>>) -> [lo |-> <<>>, hi |-> <<45,49>>]
    [] dt = Dt(<<117,110,115,105,103,110,101,100,76,111,110,103>>) -> [lo |-> <<48>>, hi |-> <<49,56,52,52,54,55,52,52,48,55,51,55,48,57,53,53,49,54,49,53>>]     \* unsignedLong
    [] dt = Dt(<<117,110,115,105,103,110,101,100,73,110,116>>) -> [lo |-> <<48>>, hi |-> <<52,50,57,52,57,54,55,50,57,53>>]     \* unsignedInt
    [] dt = Dt(<<117,110,115,105,103,110,101,100,83,104,111,114,116>>) -> [lo |-> <<48>>, hi |-> <<54,53,53,51,53>>]     \* unsignedShort
    [] dt = Dt(<<117,110,115,105,103,110,101,100,66,121,116,101>>) -> [lo |-> <<48>>, hi |-> <<50,53,53>>]     \* unsignedByte
    [] OTHER -> [lo |-> <<>>, hi |-> <<>>]
InFacet(lex, dt) == LET f == Facet(dt) IN (f.lo = <<>> \/ ~NumLess(lex, f.lo)) /\ (f.hi = <<>> \/ ~NumLess(f.hi, lex))
DecimalType == Dt(<<100,101,99,105,109,97,108>>)
DoubleTypes == { Dt(<<100,111,117,98,108,101>>), Dt(<<102,108,111,97,116>>) }
StringType == Dt(<<115,116,114,105,110,103>>)
BooleanType == Dt(<<98,111,111,108,101,97,110>>)
KindRank(t) == CASE t.k = "unbound" -> 0 [] t.k = "bnode" -> 1 [] t.k = "iri" -> 2 [] t.k = "lit" -> 3
\* numeric value class: finite numbers with a valid lexical form for their datatype
IsNum(t) == t.k = "lit" /\ t.lang = <<>> /\
   \/ t.dt \in IntegerTypes /\ IsInteger(t.lex) /\ InFacet(t.lex, t.dt)
   \/ t.dt = DecimalType /\ IsDecimal(t.lex)
   \/ t.dt \in DoubleTypes /\ IsDouble(t.lex) /\ t.lex \notin {NaN, INF, <<43>> \o INF, <<45>> \o INF}
IsPosInf(t) == t.k = "lit" /\ t.lang = <<>> /\ t.dt \in DoubleTypes /\ t.lex \in {INF, <<43>> \o INF}
IsNegInf(t) == t.k = "lit" /\ t.lang = <<>> /\ t.dt \in DoubleTypes /\ t.lex = <<45>> \o INF
IsStr(t) == t.k = "lit" /\ t.lang = <<>> /\ t.dt = StringType
IsBool(t) == t.k = "lit" /\ t.lang = <<>> /\ t.dt = BooleanType /\ t.lex \in {<<116,114,117,101>>, <<102,97,108,115,101>>}
DateTimeType == Dt(<<100,97,116,101,84,105,109,101>>)
\* dateTimes: the order relation of XML Schema part 2, 3.2.7.4 on the modelled lexical forms (Xsd.tla: IsDateTimeLex, DtLess)
IsDateTimeM(t) == t.k = "lit" /\ t.lang = <<>> /\ t.dt = DateTimeType /\ IsDateTimeLex(t.lex)
DateTimeLess(a, b) == DtLess(a.lex, b.lex)
SparqlLess(a, b) ==
  \/ IsDateTimeM(a) /\ IsDateTimeM(b) /\ DateTimeLess(a, b)
  \/ IsNum(a) /\ IsNum(b) /\ NumLess(a.lex, b.lex)
  \/ IsNegInf(a) /\ (IsNum(b) \/ IsPosInf(b))
  \/ IsPosInf(b) /\ IsNum(a)
  \/ IsStr(a) /\ IsStr(b) /\ DigLess(a.lex, b.lex, 1)
  \/ IsBool(a) /\ IsBool(b) /\ a.lex = <<102,97,108,115,101>> /\ b.lex = <<116,114,117,101>>
MustPrecede(a, b, desc) == IF KindRank(a) # KindRank(b) THEN (IF desc THEN KindRank(a) > KindRank(b) ELSE KindRank(a) < KindRank(b))
                           ELSE IF desc THEN SparqlLess(b, a) ELSE SparqlLess(a, b)
\* rule 2: no inversion inside one output
NoInversion(out, desc) == \A i, j \in 1..Len(out) : i < j => ~MustPrecede(out[j], out[i], desc)
\* rule 3: all outputs of a batch are sorted by one total preorder that extends MustPrecede strictly
Vals(outs) == UNION { {outs[n][i] : i \in 1..Len(outs[n])} : n \in 1..Len(outs) }
Edge(outs, a, b) == \E n \in 1..Len(outs) : \E i \in 1..(Len(outs[n]) - 1) : outs[n][i] = a /\ outs[n][i + 1] = b
RECURSIVE ReachSet(_, _, _)
ReachSet(outs, frontier, seen) == LET nxt == {b \in Vals(outs) : \E a \in frontier : Edge(outs, a, b)} \ seen IN
                                  IF nxt = {} THEN seen ELSE ReachSet(outs, nxt, seen \cup nxt)
Reach(outs, a, b) == b \in ReachSet(outs, {a}, {})
Consistent(outs, desc) == \A a, b \in Vals(outs) : MustPrecede(a, b, desc) => ~Reach(outs, b, a)
\* ---- rows with several keys (C14): keys = sequence of [k |-> column, desc |-> BOOLEAN] ----
\* a tie on a key: the same term, or two numerics '<' can compare and finds equal (-0.0 / 0 / 0.0, 10 / 10.0 / 1e1)
SameTermV(a, b) == a = b \/ (IsNum(a) /\ IsNum(b) /\ NumEq(a.lex, b.lex))
RECURSIVE RowPrecedes(_, _, _, _)
\* row r1 MUST come before row r2: decided by the first key on which their values are not the same term
RowPrecedes(r1, r2, keys, i) ==
  IF i > Len(keys) THEN FALSE
  ELSE LET a == r1[keys[i].k]  b == r2[keys[i].k] IN
       IF MustPrecede(a, b, keys[i].desc) THEN TRUE
       ELSE IF SameTermV(a, b) THEN RowPrecedes(r1, r2, keys, i + 1)
       ELSE FALSE
NoRowInversion(out, keys) == \A i, j \in 1..Len(out) : i < j => ~RowPrecedes(out[j], out[i], keys, 1)
RowVals(outs) == UNION { {outs[n][i] : i \in 1..Len(outs[n])} : n \in 1..Len(outs) }
RowEdge(outs, a, b) == \E n \in 1..Len(outs) : \E i \in 1..(Len(outs[n]) - 1) : outs[n][i] = a /\ outs[n][i + 1] = b
RECURSIVE RowReachSet(_, _, _)
RowReachSet(outs, frontier, seen) == LET nxt == {b \in RowVals(outs) : \E a \in frontier : RowEdge(outs, a, b)} \ seen IN
                                     IF nxt = {} THEN seen ELSE RowReachSet(outs, nxt, seen \cup nxt)
\* one total preorder extending the mandatory precedences explains every output of the batch
RowsConsistent(outs, keys) == \A a, b \in RowVals(outs) : RowPrecedes(a, b, keys, 1) => a \notin RowReachSet(outs, {b}, {})
====
