---- MODULE Terms ----
\* Structural definition of RDF term equality and order (sophia_api::term::Term::eq / ::cmp).
EXTENDS Naturals, Sequences, FiniteSets, TLC
Lower(c) == IF c >= 65 /\ c <= 90 THEN c + 32 ELSE c
FoldAscii(s) == [i \in 1..Len(s) |-> Lower(s[i])]
RECURSIVE Norm(_)
Norm(t) == IF t.k = "lit" THEN [t EXCEPT !.lang = FoldAscii(t.lang)]
           ELSE IF t.k = "triple" THEN [k |-> "triple", s |-> Norm(t.s), p |-> Norm(t.p), o |-> Norm(t.o)]
           ELSE t
TermEq(a, b) == Norm(a) = Norm(b)
RdfLangString == <<104,116,116,112,58,47,47,119,119,119,46,119,51,46,111,114,103,47,49,57,57,57,47,48,50,47,50,50,45,114,100,102,45,115,121,110,116,97,120,45,110,115,35,108,97,110,103,83,116,114,105,110,103>>
Datatype(t) == IF t.lang # <<>> THEN RdfLangString ELSE t.dt
\* three-way comparison of code-point sequences: -1, 0, 1 encoded as 0, 1, 2 (TLC has no negative literals issue, but keep naturals)
RECURSIVE StrCmpFrom(_, _, _)
StrCmpFrom(a, b, i) == IF i > Len(a) THEN (IF i > Len(b) THEN 1 ELSE 0)
                       ELSE IF i > Len(b) THEN 2
                       ELSE IF a[i] < b[i] THEN 0 ELSE IF a[i] > b[i] THEN 2 ELSE StrCmpFrom(a, b, i + 1)
StrCmp(a, b) == StrCmpFrom(a, b, 1)
Then(c, d) == IF c # 1 THEN c ELSE d
KindRank(t) == CASE t.k = "bnode" -> 0 [] t.k = "iri" -> 1 [] t.k = "lit" -> 2 [] t.k = "triple" -> 3 [] t.k = "var" -> 4
NatCmp(x, y) == IF x < y THEN 0 ELSE IF x > y THEN 2 ELSE 1
RECURSIVE TermCmp(_, _)
TermCmp(a, b) ==
  Then(NatCmp(KindRank(a), KindRank(b)),
    CASE a.k \in {"iri", "bnode", "var"} -> StrCmp(a.v, b.v)
      [] a.k = "lit" -> IF a.lang # <<>> /\ b.lang # <<>>
                        THEN Then(StrCmp(FoldAscii(a.lang), FoldAscii(b.lang)), StrCmp(a.lex, b.lex))
                        ELSE Then(StrCmp(Datatype(a), Datatype(b)), StrCmp(a.lex, b.lex))
      [] a.k = "triple" -> Then(TermCmp(a.s, b.s), Then(TermCmp(a.p, b.p), TermCmp(a.o, b.o))))
\* laws, to be checked over a finite universe U
Laws(U) ==
  /\ \A a \in U : TermEq(a, a) /\ TermCmp(a, a) = 1
  /\ \A a, b \in U : (TermEq(a, b) <=> TermEq(b, a)) /\ (TermCmp(a, b) = 2 - TermCmp(b, a)) /\ ((TermCmp(a, b) = 1) <=> TermEq(a, b))
  /\ \A a, b, c \in U : (TermEq(a, b) /\ TermEq(b, c) => TermEq(a, c))
                        /\ (TermCmp(a, b) # 2 /\ TermCmp(b, c) # 2 => TermCmp(a, c) # 2)
====
